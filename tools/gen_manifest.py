#!/usr/bin/env python3
"""Regenerates /verif/MANIFEST.json from the table below (checks) and the not-applicable list."""
import json, subprocess, sys

E1 = "E1 cluster (sim/src/cluster.rs)"
CHECKS = {}
def add(pid, engine, category, text, note, technique, design_ref):
    CHECKS[pid] = dict(engine=engine, category=category, text=text, note=note, technique=technique, design_ref=design_ref)

SIMNOTE = "Trusted base: SQLite, the Rust toolchain, the harness's own oracle code (self-tested at start-up). Sampled, not exhaustive. Real kanidmd_lib code built from /repo's working tree with feature verif-hooks; replication transport, interval scheduler, wall clock and OS entropy are simulator stubs."

add("C01", "E4 search (sim/src/search.rs)", "exploration", "Seeded populations and histories (renames, deletes, revives, reindex, restart, small ARC caches) with random filter trees (depth ≤3: Eq, Cnt, Pres, LessThan, And, Or, NOT in every placement, empty groups, sub-trigram substrings); each filter runs in a read transaction twice (resolve cache), as exists(), under random index-layout masks and inside a dirty write transaction, and is compared with the harness's evaluator over a full scan of the same transaction.", SIMNOTE, "deterministic simulation (history + cache/index-layout/restart dimensions) + differential against a reference evaluator", "DESIGN.md §5 C01")
add("C03", E1, "exploration", "Seeded simulation of 1-3 real servers (histories with renames, recycle/revive, purge, reaping, replication incl. uuid-changing conflicts, reindex, restart, small ARC caches); after every commit the index tables, lookup tables and name resolution are compared two-sidedly with keys recomputed from a full scan, plus the server's own verify().", SIMNOTE, "deterministic simulation (seeded cluster histories) + index/lookup mirror oracle after every commit", "DESIGN.md §5 C03")
add("C08", E1, "exploration", "Seeded concurrent write histories with forced uuid/name collisions on 2-3 real replicas under random three-step replication schedules with loss, duplication and stale ranges, then bounded fault-free full-mesh replication to quiescence; canonical whole-database dumps compared pairwise.", SIMNOTE, "deterministic simulation with fault injection (replication schedules, loss, duplication) + convergence oracle at quiescence", "DESIGN.md §5 C08")
add("C15", E1, "exploration", "Seeded histories with adversarial (ill-typed, missing-must, disallowed-attribute, unknown-class, multi-value) requests and replicated merges; after every commit every live entry is checked against the schema read in the same transaction; refused requests must leave the database digest unchanged.", SIMNOTE, "deterministic simulation + schema-conformance oracle after every commit", "DESIGN.md §5 C15")
add("C16", E1, "exploration", "Seeded histories over reference-bearing entries with deletes, revives, purges and replicated conflicts; after every commit each reference-typed attribute of each live entry must resolve to a live entry on that node.", SIMNOTE, "deterministic simulation + reference-closure oracle after every commit", "DESIGN.md §5 C16")
add("C17", E1, "exploration", "Seeded random group graphs (cycles, dyngroups) edited by member add/remove, delete/revive and replication; after every commit memberof/directmemberof are recomputed by breadth-first closure in the harness and compared exactly.", SIMNOTE, "deterministic simulation + membership-closure oracle after every commit", "DESIGN.md §5 C17")
add("C18", E1, "exploration", "Seeded histories creating, editing and deleting candidates and dynamic groups (filters too), with replication and restart; after every commit dynmember must equal the harness's evaluation of the group's filter over the live entries.", SIMNOTE, "deterministic simulation + dynamic-group membership oracle after every commit", "DESIGN.md §5 C18")
add("C19", E1, "exploration", "Seeded creates and renames from a tiny name/uuid pool on 1-3 replicas with random replication schedules; after every commit no two live entries share a uuid or a unique attribute value.", SIMNOTE, "deterministic simulation + uniqueness oracle after every commit", "DESIGN.md §5 C19")
add("C22", E1, "exploration", "Seeded creates/renames of accounts and groups interleaved with domain renames and restarts on one server; after every commit each live account/group has exactly one spn == name@domain.", SIMNOTE, "deterministic simulation + SPN-shape oracle after every commit", "DESIGN.md §5 C22")

add("C07", E1, "exploration", "Seeded histories of write transactions whose per-node clock is drawn adversarially (repeats, regressions of seconds to days, jumps), with abandoned transactions, replication applies, refreshes and crash/restart on file-backed servers; per server uuid the change time of every committed transaction must exceed that of every earlier committed one, across incarnations.", SIMNOTE, "deterministic simulation with clock faults and crash/restart + change-id monotonicity monitor", "DESIGN.md §5 C07")
add("C09", E1, "exploration", "Seeded delete/revive/purge-heavy histories on 2-3 replicas with the simulated clock jumping around the 7-day recycle-bin and changelog windows and replication delayed by up to several windows; a node that applied a tombstone must never hold that uuid live again, and at a fully converged quiescence no replica holds it live.", SIMNOTE, "deterministic simulation with time jumps, lag and refresh + no-resurrection monitor", "DESIGN.md §5 C09")
add("C10", E1, "exploration", "Monitor on every supplier step of lag-heavy simulated histories (trimming, lag beyond the window, refresh): the supplier's reply is compared with an independent decision function written from the property statement, evaluated on the consumer's ranges and the supplier's trimmed ranges.", SIMNOTE, "deterministic simulation + reference decision function as monitor on every supplier step", "DESIGN.md §5 C10")
EXT = "Real source compiled from /repo's working tree into an external harness (see DESIGN.md §4); sampled, not exhaustive; the harness's own reference model is self-tested."
add("C14", "E6 codec (sim-codec)", "exploration", "The real replication codec over real tokio_util Framed/FramedRead/FramedWrite on a scripted in-memory duplex pipe: seeded message sequences, systematic splits into ≤3 chunks and closes at every byte offset for small pairs, random fragmentation/coalescing/Pending/EOF, frame lengths around the limit; decoded sequence must equal the sent one and bad frames must be rejected.", EXT + " TCP/TLS and the tokio reactor are replaced by the scripted pipe and a hand-written poll loop.", "deterministic simulation of the byte stream (fragmentation, partial writes, early close) + reference framer oracle", "DESIGN.md §5 C14")
add("C43", "E8a pam (sim-pam)", "exploration", "The real PAM core (test-cfg shadow build) against scripted resolver-daemon reply sequences pre-queued in a socketpair (wrong kinds, errors, truncated/garbage frames, early disconnects) or generated passwd/shadow databases with a simulated clock; PAM_SUCCESS must imply explicit daemon success, or (daemon unreachable) a supported hash that verifies and an unexpired account.", EXT + " Daemon, PamHandler, clock and sleep are scripted; libpam and the extern C hooks are not run.", "deterministic simulation with scripted peer faults (bad replies, disconnects) and simulated clock + one-sided fail-closed oracle", "DESIGN.md §5 C43")

add("C47", "E7 actors (sim-actors)", "exploration", "The unmodified libs/actors/src/lib.rs shadow-built against a tokio facade whose spawn/JoinHandle run on a seeded single-threaded executor (real tokio::sync and select!): random supervisor trees to depth 3 with blocking, early-finishing and long-running actors, stops and runtime termination at random steps, uniform and PCT schedules; when stop()/exec returns every actor under it has finished cleanup and every task under it is finished, nothing else was stopped, and no deadlock.", EXT + " spawn/JoinHandle, timers and signals are simulator stubs; every poll and every select! start branch is a recorded choice.", "deterministic simulation of task scheduling (seeded random + PCT executor) + stop-completeness / deadlock oracle", "DESIGN.md §5 C47")

NOT_APPLICABLE = [
 ("C02", "Filter rewriting is a pure tree-to-tree function compared by evaluating two filters on an entry: no state, clock, I/O, fault or schedule for a simulator to own (its execution consequences are covered by C01's differential)."),
 ("C21", "Gid generation/validation is 32-bit arithmetic on the uuid or the supplied number; the property asks for a symbolic sweep of 2^32 values, which is not simulation."),
 ("C30", "Password-format verification is a pure function of (hash string, cleartext); no state or time (the storage round trip of those formats is claimed under C12)."),
 ("C35", "Account-policy folding is a pure fold over a multiset of policies; order-independence is an algebraic property of inputs."),
 ("C41", "LDAP/SCIM filter translation plus evaluation on a fixed data set is a pure function of (filter text, entries); the stateful part of query execution is C01."),
 ("C42", "SCIM filter print/parse round trip and precedence is a pure function of a filter tree / token string."),
 ("C45", "unix_user_authorise is a pure predicate over (allowed-group list, token); the resolver paths around it need the HTTP client, which is not simulated."),
 ("C46", "RADIUS authorise/user_in_required_groups/resolve_group_configs are pure over (config, token) once the token is fetched; the fetch is HTTP and is not simulated."),
]

ENGINE_INFO = {
 E1: ("sim/src/cluster.rs", "1-3 real kanidm servers in one process under a simulated clock, replication transport, crash/restart and purge scheduler; seeded workload; step invariants and quiescence oracles"),
 "E4 search (sim/src/search.rs)": ("sim/src/search.rs", "one real server; population + filter generator + index-layout/caching dimension; differential against the harness's evaluator"),
 "E6 codec (sim-codec)": ("sim-codec/", "real replication codec over real tokio_util framing on a scripted duplex pipe"),
 "E7 actors (sim-actors)": ("sim-actors/", "real libs/actors shadow-built against a tokio facade with a seeded single-threaded executor"),
 "E8a pam (sim-pam)": ("sim-pam/", "test-cfg shadow build of pam_sparkle_common with scripted daemon, shadow database and clock"),
}
def engines(claimed):
    out = []
    names = sorted({CHECKS[p]["engine"] for p in claimed})
    for n in names:
        path, kind = ENGINE_INFO.get(n, ("sim/", ""))
        out.append({"name": n, "path": path, "serves_properties": sorted(p for p in claimed if CHECKS[p]["engine"] == n), "kind_free_text": kind})
    return out

def main():
    only = None
    if len(sys.argv) > 1:
        only = set(sys.argv[1].split(","))
    checks = []
    for pid in sorted(CHECKS):
        if only and pid not in only: continue
        c = CHECKS[pid]
        checks.append({
            "property_id": pid,
            "quick_cmd": f"./run.sh {pid} quick",
            "thorough_cmd": f"./run.sh {pid} thorough",
            "evidence_file": f"/verif/evidence/{pid}.json",
            "replay_cmd_template": "./run.sh replay {path}",
            "engine": c["engine"],
            "level_claimed": {"category": c["category"], "text": c["text"], "design_ref": c["design_ref"]},
            "level_note": c["note"],
            "technique": c["technique"],
        })
    claimed = {c["property_id"] for c in checks}
    na = [{"property_id": p, "reason": r} for p, r in NOT_APPLICABLE]
    # properties neither claimed nor n/a yet: listed as not (yet) claimed so the list stays current
    allp = [json.loads(l)["id"] for l in open("/verif/properties.jsonl")]
    nap = {p for p, _ in NOT_APPLICABLE}
    for p in allp:
        if p not in claimed and p not in nap:
            na.append({"property_id": p, "reason": "not claimed at this commit: the check designed in DESIGN.md §5 is not built yet (the property is within reach of the technique; this is not a not-applicable verdict)."})
    try:
        hooks = subprocess.check_output(["git", "-C", "/repo", "log", "--format=%H %s", "765ce3e..HEAD"], text=True).strip().split("\n")
    except Exception:
        hooks = []
    hook_commits = [h.split(" ")[0] for h in hooks if h and not h.split(" ", 1)[1].startswith("fix:")]
    m = {
        "version": 1,
        "setup_cmd": "./run.sh build",
        "hooks": {
            "guard": "cargo feature verif-hooks on kanidmd_lib (server/lib/Cargo.toml), default off; nothing in /repo's workspace enables it",
            "enable": "the harness workspace /verif/sim depends on kanidmd_lib by path with features = [\"verif-hooks\"] (sim/Cargo.toml); ./run.sh rebuilds it from /repo's working tree",
            "baseline_off_cmd": "cd /repo && RUSTUP_TOOLCHAIN=1.96.0 cargo nextest run --workspace --no-fail-fast --tool-config-file pb:/w/lib/nextest.toml --profile pb --test-threads 8 --offline || (cd /repo && RUSTUP_TOOLCHAIN=1.96.0 cargo test --workspace --no-fail-fast --offline)",
            "source_commits": hook_commits,
            "add_only": True,
        },
        "engines": engines(claimed),
        "checks": checks,
        "not_applicable": na,
        "notes": "Exit codes of every command: 0 held, 1 violation (VIOLATION line), 2 harness error. Known findings: /verif/KNOWN_FINDINGS.json. Design: /verif/DESIGN.md.",
    }
    json.dump(m, open("/verif/MANIFEST.json", "w"), indent=1)
    print("claimed", len(checks), "not claimed / n.a.", len(na))

main()
