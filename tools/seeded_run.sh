#!/bin/bash
# Run checks against one seeded defect: apply seeded/<id>/patch.diff to /repo, run the named checks
# (quick tier unless TIER is set), revert /repo straight afterwards. Never commits anything to /repo.
# usage: tools/seeded_run.sh <seeded-id> [Cxx ...]   (default: the property named in meta.json)
set -u
id="$1"; shift
dir=/verif/seeded/$id
[ -f "$dir/patch.diff" ] || { echo "no $dir/patch.diff"; exit 2; }
if [ -n "$(git -C /repo status --porcelain)" ]; then echo "/repo working tree is not clean"; exit 2; fi
props="$*"
[ -n "$props" ] || props=$(python3 -c "import json;print(json.load(open('$dir/meta.json'))['property'])")
tier=${TIER:-quick}
git -C /repo apply "$dir/patch.diff" || { echo "patch does not apply"; exit 2; }
trap 'git -C /repo checkout -- .' EXIT
rc_all=0
for p in $props; do
  out=$(/verif/run.sh "$p" "$tier" 2>&1); rc=$?
  echo "== $id vs $p $tier: exit $rc"
  echo "$out" | grep -E "^VIOLATION|^HARNESS|minimised|$p $tier:" | head -8
  echo "$out" | grep -B1 "^minimised" | grep -v "^minimised" | cut -c1-300 | head -4
  [ $rc -ne 0 ] && rc_all=$rc
  # evidence written while a seeded defect is applied does not describe /repo: restore it
  git -C /verif checkout -- "evidence/$p.json" 2>/dev/null
done
exit $rc_all
