#!/usr/bin/env python3
"""Regenerate seeded/INDEX.md from seeded/<id>/meta.json."""
import json, glob, os
rows = []
for m in sorted(glob.glob('/verif/seeded/*/meta.json')):
    rows.append((os.path.basename(os.path.dirname(m)), json.load(open(m))))
def c(s): return str(s).replace('|', '/').replace('\n', ' ')
out = ["# Seeded defects", "",
       "Each directory holds `patch.diff` (the change; never committed to /repo), `demo.diff` (a test that",
       "fails with the change and passes without), `meta.json` and the author's `README.md`. Authors were",
       "fresh sessions given only the property text and a scratch worktree of /repo. Every change compiles",
       "and passes the 568 existing `kanidmd_lib` unit tests (confirmed again here, see `checked.confirmed`).",
       "`tools/seeded_run.sh <id> [Cxx…]` applies the patch to /repo, runs the quick checks and reverts.", "",
       "| id | change | needs, to manifest | check as first built | now | reported as | what was strengthened |", "|---|---|---|---|---|---|---|"]
for sid, d in rows:
    k = d.get('checked', {})
    out.append("| %s | %s | %s | %s | %s | %s | %s |" % (sid, c(d.get('summary', ''))[:260], c(d.get('needs_to_manifest', ''))[:260],
               c(k.get('first_built_check', '?')), c(k.get('result', '?')), c(k.get('caught_by', '?')), c(k.get('strengthening', ''))))
open('/verif/seeded/INDEX.md', 'w').write("\n".join(out) + "\n")
print(len(rows), "entries")
