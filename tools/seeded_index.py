#!/usr/bin/env python3
"""Regenerate seeded/INDEX.md from seeded/<id>/meta.json."""
import json, glob, os
rows = []
for m in sorted(glob.glob('/verif/seeded/*/meta.json')):
    d = json.load(open(m)); sid = os.path.basename(os.path.dirname(m))
    rows.append((sid, d))
out = ["# Seeded defects", "",
       "Each directory holds `patch.diff` (the change; never committed to /repo), the demonstration",
       "(`demo.diff`: a test that fails with the change and passes without), `meta.json` and the",
       "author's `README.md`. Authors were fresh sessions given only the property text and a scratch",
       "worktree. `tools/seeded_run.sh <id> [Cxx…]` applies the patch to /repo, runs the checks and",
       "reverts.", "",
       "| id | property | change | needs, to manifest | existing tests | caught by |", "|---|---|---|---|---|---|"]
for sid, d in rows:
    c = d.get('checked', {})
    caught = c.get('caught_by', '?')
    out.append("| %s | %s | %s | %s | %s | %s |" % (sid, d.get('property'), d.get('summary','').replace('|','/'),
               d.get('needs_to_manifest','').replace('|','/'), d.get('existing_tests',''), caught))
open('/verif/seeded/INDEX.md','w').write("\n".join(out) + "\n")
print(len(rows), "entries")
