#!/bin/bash
# /verif/run.sh <Cxx> <quick|thorough>   run one registered check (rebuilds from /repo's working tree)
# /verif/run.sh replay <file>            replay a recorded violation (exit 1 when it reproduces)
# /verif/run.sh build                    build every harness (what setup_cmd runs)
# /verif/run.sh selfcheck [n]            determinism self-check over every engine
# Exit codes: 0 property held on everything explored; 1 violation (VIOLATION line); 2 harness error.
set -u
export CARGO_NET_OFFLINE=true
export RUSTUP_TOOLCHAIN=1.96.0
export CARGO_TERM_COLOR=never
V=/verif
BIN=$V/target/debug/kvsim

build_main() {
  ( cd $V/sim && cargo build --offline 2> $V/target/build-main.log ) || { echo "HARNESS-ERROR build of /verif/sim failed (see $V/target/build-main.log)"; tail -30 $V/target/build-main.log; return 2; }
}

case "${1:-}" in
  build)
    mkdir -p $V/target $V/evidence
    # the harness workspaces are independent: build them side by side
    rc=0; pids=""
    ( build_main ) & pids="$pids $!"
    for d in $V/sim-*/build.sh; do [ -x "$d" ] && { ( "$d" > $V/target/build-$(basename $(dirname $d)).log 2>&1 ) & pids="$pids $!"; }; done
    for p in $pids; do wait $p || rc=2; done
    [ $rc -eq 0 ] || { echo "HARNESS-ERROR a harness build failed (logs under $V/target/build-*.log)"; tail -20 $V/target/build-*.log; exit 2; }
    echo "build ok"
    ;;
  replay)
    mkdir -p $V/target
    f="${2:?file}"
    prop=$(python3 -c "import json,sys;print(json.load(open(sys.argv[1])).get('plan_property') or json.load(open(sys.argv[1]))['property'])" "$f")
    if [ -x "$V/sim-ext/$prop.sh" ]; then exec "$V/sim-ext/$prop.sh" replay "$f"; fi
    build_main || exit 2
    exec $BIN replay "$f"
    ;;
  selfcheck)
    mkdir -p $V/target
    build_main || exit 2
    exec $BIN determinism all "${2:-16}"
    ;;
  C[0-9]*)
    mkdir -p $V/target $V/evidence
    prop="$1"; tier="${2:-quick}"
    export VERIF_TIER="$tier"
    if [ -x "$V/sim-ext/$prop.sh" ]; then exec "$V/sim-ext/$prop.sh" "$tier"; fi
    build_main || exit 2
    exec $BIN check "$prop" "$tier"
    ;;
  *)
    echo "usage: run.sh <Cxx> <quick|thorough> | replay <file> | build | selfcheck [n]"; exit 2;;
esac
