//! E4 — search engine check (C01): a search returns exactly the live entries matching the filter
//! under ordinary boolean semantics (NOT = complement), whatever is indexed, cached, dirty or
//! rewritten. Differential against the harness's own evaluator over a full scan, with the same
//! filter executed in a read transaction (twice: second answer comes from the resolve cache), as
//! `exists`, inside a write transaction holding uncommitted changes, under random index-layout
//! masks, after reindex and after restart.
use crate::driver::{Budget, Outcome, Plan, Scenario, Tier};
use crate::dump::{ava_strings, entry_state, EState, EntryArc};
use crate::node::{block, boot_qs, NodeCfg, Scratch};
use crate::rng::{fnv64, uuid_for, Rng};
use kanidmd_lib::entry::{Entry, EntryInit, EntryNew};
use kanidmd_lib::prelude::*;
use kanidmd_lib::verif_hooks as vh;
use serde::{Deserialize, Serialize};
use serde_json::{json, Value as J};
use std::collections::BTreeSet;
use std::path::PathBuf;

#[derive(Serialize, Deserialize, Clone, Debug)]
pub enum F {
    Eq(String, String),
    Cnt(String, String),
    Pres(String),
    Lt(String, u32),
    And(Vec<F>),
    Or(Vec<F>),
    Not(Box<F>),
}

fn attr_of(a: &str) -> Attribute {
    Attribute::from(a)
}

fn pv(a: &str, v: &str) -> PartialValue {
    match a {
        "name" => PartialValue::new_iname(v),
        "class" => PartialValue::new_iutf8(v),
        "uuid" => Uuid::parse_str(v).map(PartialValue::Uuid).unwrap_or_else(|_| PartialValue::new_utf8s(v)),
        "member" => Uuid::parse_str(v).map(PartialValue::Refer).unwrap_or_else(|_| PartialValue::new_utf8s(v)),
        "mail" => PartialValue::EmailAddress(v.to_string()),
        _ => PartialValue::new_utf8s(v),
    }
}

pub fn to_fc(f: &F) -> FC {
    match f {
        F::Eq(a, v) => f_eq(attr_of(a), pv(a, v)),
        F::Cnt(a, v) => f_sub(attr_of(a), pv(a, v)),
        F::Pres(a) => f_pres(attr_of(a)),
        F::Lt(a, n) => f_lt(attr_of(a), PartialValue::new_uint32(*n)),
        F::And(v) => f_and(v.iter().map(to_fc).collect()),
        F::Or(v) => f_or(v.iter().map(to_fc).collect()),
        F::Not(x) => f_andnot(to_fc(x)),
    }
}

/// Ordinary boolean semantics; multi-valued attributes match when any value matches.
pub fn eval(f: &F, e: &EntryArc) -> bool {
    match f {
        F::Eq(a, v) => {
            let v = if a == "name" || a == "class" { v.to_lowercase() } else { v.clone() };
            ava_strings(e, attr_of(a)).iter().any(|x| *x == v)
        }
        F::Cnt(a, v) => {
            // kanidm defines substring matching as case-insensitive for every string syntax
            // (valueset/utf8.rs: "LDAP and similar expect case insensitive searches here").
            let v = v.to_lowercase();
            ava_strings(e, attr_of(a)).iter().any(|x| x.to_lowercase().contains(&v))
        }
        F::Pres(a) => !ava_strings(e, attr_of(a)).is_empty(),
        F::Lt(a, n) => ava_strings(e, attr_of(a)).iter().filter_map(|x| x.parse::<u32>().ok()).any(|x| x < *n),
        F::And(v) => v.iter().all(|x| eval(x, e)),
        F::Or(v) => v.iter().any(|x| eval(x, e)),
        F::Not(x) => !eval(x, e),
    }
}

/// Categorical shape of a filter (what known findings are matched on). kanidm documents NOT as
/// "and-not": meaningful only next to a positive term inside an AND. A filter is `well-formed` in
/// that sense when every NOT is a child of an AND that also has a non-NOT child; otherwise it has
/// `free NOT placement` (top-level NOT, NOT under OR, AND of only NOT, NOT under NOT).
pub fn shape(f: &F) -> BTreeSet<&'static str> {
    fn free_not(f: &F, parent_ok: bool) -> bool {
        match f {
            F::Not(x) => !parent_ok || free_not(x, false),
            F::And(v) => {
                let has_pos = v.iter().any(|x| !matches!(x, F::Not(_)));
                v.iter().any(|x| free_not(x, has_pos))
            }
            F::Or(v) => v.iter().any(|x| free_not(x, false)),
            _ => false,
        }
    }
    fn empty_group(f: &F) -> bool {
        match f {
            F::And(v) | F::Or(v) => v.is_empty() || v.iter().any(empty_group),
            F::Not(x) => empty_group(x),
            _ => false,
        }
    }
    let mut out = BTreeSet::new();
    if free_not(f, false) {
        out.insert("free NOT placement");
    }
    if empty_group(f) {
        out.insert("empty AND/OR group");
    }
    if out.is_empty() {
        out.insert("well-formed");
    }
    out
}

#[derive(Serialize, Deserialize, Clone, Debug)]
#[serde(tag = "op")]
pub enum Op {
    Person { u: Uuid, name: String, disp: String, desc: String, legal: Option<String> },
    Group { u: Uuid, name: String, desc: Option<String>, members: Vec<Uuid>, gid: Option<u32> },
    SetDesc { u: Uuid, v: String },
    /// replace the mail values of a person (several addresses sharing index keys)
    SetMail { u: Uuid, mails: Vec<String> },
    Rename { u: Uuid, name: String },
    Delete { u: Uuid },
    Revive { u: Uuid },
    Reindex,
    Restart,
    ClearCache,
    Search { f: F, masks: Vec<u64>, dirty: bool },
}

#[derive(Serialize, Deserialize, Clone, Debug)]
pub struct Cfg {
    pub file_backed: bool,
    pub arc: Option<usize>,
}

fn person(u: Uuid, name: &str, disp: &str, desc: &str, legal: &Option<String>) -> Entry<EntryInit, EntryNew> {
    let mut e = entry_init!(
        (Attribute::Class, EntryClass::Object.to_value()),
        (Attribute::Class, EntryClass::Account.to_value()),
        (Attribute::Class, EntryClass::Person.to_value()),
        (Attribute::Name, Value::new_iname(name)),
        (Attribute::Uuid, Value::Uuid(u)),
        (Attribute::Description, Value::new_utf8s(desc)),
        (Attribute::DisplayName, Value::new_utf8s(disp))
    );
    if let Some(l) = legal {
        e.add_ava(Attribute::LegalName, Value::new_utf8s(l));
    }
    e
}

fn group(u: Uuid, name: &str, desc: &Option<String>, members: &[Uuid], gid: Option<u32>) -> Entry<EntryInit, EntryNew> {
    let mut e = entry_init!(
        (Attribute::Class, EntryClass::Object.to_value()),
        (Attribute::Class, EntryClass::Group.to_value()),
        (Attribute::Name, Value::new_iname(name)),
        (Attribute::Uuid, Value::Uuid(u))
    );
    if let Some(d) = desc {
        e.add_ava(Attribute::Description, Value::new_utf8s(d));
    }
    for m in members {
        e.add_ava(Attribute::Member, Value::Refer(*m));
    }
    if let Some(g) = gid {
        e.add_ava(Attribute::Class, EntryClass::PosixGroup.to_value());
        e.add_ava(Attribute::GidNumber, Value::new_uint32(g));
    }
    e
}

struct World {
    qs: Option<QueryServer>,
    path: Option<PathBuf>,
    arc: Option<usize>,
    t: u64,
    seed: u64,
    out: Outcome,
    step: usize,
    _scratch: Option<Scratch>,
}

impl World {
    fn ct(&self) -> Duration {
        Duration::from_secs(crate::cluster::BASE_EPOCH + self.t)
    }
    fn ncfg(&self) -> NodeCfg {
        NodeCfg { path: self.path.clone(), pool: 4, arc: self.arc, level: DOMAIN_TGT_LEVEL }
    }
    fn write<R>(&mut self, f: impl FnOnce(&mut QueryServerWriteTransaction<'_>) -> Result<R, OperationError>) -> Result<R, OperationError> {
        self.t += 1;
        let qs = self.qs.clone().ok_or(OperationError::InvalidState)?;
        let mut w = block(qs.write(self.ct()))?;
        let r = f(&mut w)?;
        w.commit()?;
        Ok(r)
    }

    fn expected<'a, T: QueryServerTransaction<'a>>(txn: &mut T, f: &F) -> Result<BTreeSet<Uuid>, OperationError> {
        let all = crate::dump::search_all(txn)?;
        Ok(all.iter().filter(|e| entry_state(e) == EState::Live && eval(f, e)).map(|e| e.get_uuid()).collect())
    }

    fn judge(&mut self, f: &F, mode: &str, got: &Result<BTreeSet<Uuid>, OperationError>, exp: &BTreeSet<Uuid>) {
        match got {
            Ok(g) => {
                if g != exp {
                    let missing: Vec<_> = exp.difference(g).collect();
                    let extra: Vec<_> = g.difference(exp).collect();
                    let kind = match (missing.is_empty(), extra.is_empty()) {
                        (false, true) => "matches missing",
                        (true, false) => "non-matching entries returned",
                        _ => "missing and extra",
                    };
                    let sh: Vec<&str> = shape(f).into_iter().collect();
                    let sig = format!("{}: {}; mode={}", sh.join(" + "), kind, mode.split(':').next().unwrap_or(mode));
                    if !self.out.violations.iter().any(|v| v.signature == sig) && self.out.violations.len() < 12 {
                        let step = self.step;
                        self.out.violate("C01", "search-vs-scan", &sig, format!("filter {f:?} in mode {mode}: server returned {} entries, a scan gives {}; missing {:?}, extra {:?}", g.len(), exp.len(), missing, extra), step);
                    }
                }
            }
            Err(e) => {
                // an explicit error is allowed by the statement; counted, and compared across layouts by the caller
                self.out.probe(&format!("search error {e:?}"));
            }
        }
    }

    fn search_event(&mut self, f: &F, masks: &[u64], dirty: bool) {
        let Some(qs) = self.qs.clone() else { return };
        let fc = to_fc(f);
        let set = |v: Vec<EntryArc>| -> BTreeSet<Uuid> { v.iter().map(|e| e.get_uuid()).collect() };
        let mut answers: Vec<(String, Result<BTreeSet<Uuid>, OperationError>)> = vec![];
        // (a)+(d)+(g): read transaction, twice, and exists
        {
            let Ok(mut r) = block(qs.read()) else { return };
            let Ok(exp) = Self::expected(&mut r, f) else { return };
            for pass in ["read", "read-again(resolve cache)"] {
                let got = r.internal_search(filter!(fc.clone())).map(set);
                self.judge(f, pass, &got, &exp);
                answers.push((pass.to_string(), got));
            }
            match r.internal_exists(&filter!(fc.clone())) {
                Ok(b) => {
                    if b == exp.is_empty() {
                        let sh: Vec<&str> = shape(f).into_iter().collect();
                        let sig = format!("{}: exists disagrees with scan; mode=exists", sh.join(" + "));
                        if !self.out.violations.iter().any(|v| v.signature == sig) {
                            let step = self.step;
                            self.out.violate("C01", "exists-vs-scan", &sig, format!("filter {f:?}: exists() = {b}, a scan finds {} matching entries", exp.len()), step);
                        }
                    }
                }
                Err(e) => self.out.probe(&format!("exists error {e:?}")),
            }
            if !exp.is_empty() {
                self.out.probe("filter with a non-empty answer");
            }
        }
        // (c) index-layout masks, each inside a write transaction that is then abandoned
        for m in masks {
            self.t += 1;
            let Ok(mut w) = block(qs.write(self.ct())) else { continue };
            let mask = *m;
            let kept = vh::mask_idxmeta(&mut w, &|a: &Attribute, it: &IndexType| fnv64(format!("{a}/{it:?}/{mask}").as_bytes()) & 1 == 1);
            if kept.is_err() {
                continue;
            }
            let Ok(exp) = Self::expected(&mut w, f) else { continue };
            let got = w.internal_search(filter!(fc.clone())).map(set);
            self.judge(f, &format!("index-layout-mask:{mask}"), &got, &exp);
            answers.push((format!("mask:{mask}"), got));
            self.out.probe("search under an index-layout mask");
            drop(w);
        }
        // (b) inside a write transaction holding uncommitted changes
        if dirty {
            self.t += 1;
            if let Ok(mut w) = block(qs.write(self.ct())) {
                let tmp = uuid_for(9, self.step as u64);
                let _ = w.internal_create(vec![person(tmp, &format!("gtmp{}", self.step % 3), "ab tmp", "abc tmp", &None)]);
                if let Ok(exp) = Self::expected(&mut w, f) {
                    let got = w.internal_search(filter!(fc.clone())).map(set);
                    self.judge(f, "write-txn-with-uncommitted-changes", &got, &exp);
                    self.out.probe("search inside a dirty write transaction");
                }
                drop(w);
            }
        }
        // error must not depend on the layout
        let oks = answers.iter().filter(|(_, r)| r.is_ok()).count();
        if oks != 0 && oks != answers.len() {
            let sh: Vec<&str> = shape(f).into_iter().collect();
            let step = self.step;
            self.out.violate("C01", "error-depends-on-layout", &format!("{}: error in some layouts only", sh.join(" + ")), format!("filter {f:?}: {:?}", answers.iter().map(|(m, r)| (m.clone(), r.as_ref().map(|s| s.len()).map_err(|e| format!("{e:?}")))).collect::<Vec<_>>()), step);
        }
        let mut h = fnv64(format!("{f:?}").as_bytes());
        for (m, r) in &answers {
            h = h.rotate_left(9) ^ fnv64(format!("{m}{:?}", r.as_ref().map(|s| s.len()).map_err(|e| format!("{e:?}"))).as_bytes());
        }
        self.out.chain(h);
        self.out.states.push(fnv64(format!("{:?}{:?}", shape(f), answers.first().map(|(_, r)| r.as_ref().map(|s| s.len()).unwrap_or(usize::MAX))).as_bytes()) ^ fnv64(format!("{f:?}").as_bytes()));
    }

    fn apply(&mut self, id: u64, op: &Op) {
        crate::entropy::swap_stream(Some(Rng::new(self.seed ^ id.wrapping_mul(0x9E37_79B9_7F4A_7C15))));
        self.out.events_run += 1;
        let r: Result<(), OperationError> = match op.clone() {
            Op::Person { u, name, disp, desc, legal } => self.write(|w| w.internal_create(vec![person(u, &name, &disp, &desc, &legal)])),
            Op::Group { u, name, desc, members, gid } => self.write(|w| w.internal_create(vec![group(u, &name, &desc, &members, gid)])),
            Op::SetDesc { u, v } => self.write(|w| w.internal_modify_uuid(u, &ModifyList::new_purge_and_set(Attribute::Description, Value::new_utf8s(&v)))),
            Op::Rename { u, name } => self.write(|w| w.internal_modify_uuid(u, &ModifyList::new_purge_and_set(Attribute::Name, Value::new_iname(&name)))),
            Op::Delete { u } => self.write(|w| w.internal_delete_uuid(u)),
            Op::Revive { u } => self.write(|w| vh::internal_revive_uuid(w, u)),
            Op::Reindex => {
                self.out.probe("reindex (slopes regenerated)");
                self.write(|w| w.reindex(false))
            }
            Op::SetMail { u, mails } => {
                let mut ml = vec![Modify::Purged(Attribute::Mail)];
                for (i, m) in mails.iter().enumerate() {
                    ml.push(Modify::Present(Attribute::Mail, Value::EmailAddress(m.clone(), i == 0)));
                }
                if mails.len() > 1 {
                    self.out.probe("several mail values on one entry");
                }
                self.write(|w| w.internal_modify_uuid(u, &ModifyList::new_list(ml)))
            }
            Op::ClearCache => Ok(()), // not available in non-debug builds; restart covers cold caches
            Op::Restart => {
                if self.path.is_some() {
                    self.qs = None;
                    self.t += 1;
                    match boot_qs(&self.ncfg(), self.ct()) {
                        Ok(q) => {
                            self.qs = Some(q);
                            self.out.fault("restart");
                        }
                        Err(e) => self.out.harness_error = Some(format!("restart failed {e:?}")),
                    }
                }
                Ok(())
            }
            Op::Search { f, masks, dirty } => {
                self.search_event(&f, &masks, dirty);
                Ok(())
            }
        };
        self.out.chain(fnv64(format!("{:?}", r.map_err(|e| format!("{e:?}"))).as_bytes()));
    }
}

const NAMES: [&str; 6] = ["ga", "gb", "gc", "gab", "gabc", "hx"];
const TEXTS: [&str; 7] = ["ab", "abc", "abcd", "xyz", "a", "zabcz", "Abc"];

fn gen_leaf(g: &mut Rng, uuids: &[Uuid]) -> F {
    match g.below(14) {
        12 => F::Cnt("mail".into(), g.pick(&["example", "p1", "alias", "corp", ".com", "@"]).to_string()),
        13 => {
            if g.chance(1, 2) {
                F::Eq("mail".into(), format!("p{}@example.com", g.below(4)))
            } else {
                F::Pres("mail".into())
            }
        }
        0 | 1 => F::Eq("name".into(), g.pick(&NAMES).to_string()),
        2 => F::Cnt("name".into(), g.pick(&["g", "ga", "gab", "ab", "abc", "x"]).to_string()),
        3 => F::Eq("description".into(), g.pick(&TEXTS).to_string()),
        4 => F::Cnt("description".into(), g.pick(&["a", "ab", "abc", "bcd", "z", "Ab"]).to_string()),
        5 => F::Eq("displayname".into(), g.pick(&TEXTS).to_string()),
        6 => F::Cnt("displayname".into(), g.pick(&["ab", "abc", "yz"]).to_string()),
        7 => F::Pres(g.pick(&["description", "legalname", "member", "gidnumber", "displayname"]).to_string()),
        8 => F::Eq("class".into(), g.pick(&["person", "group", "account", "posixgroup"]).to_string()),
        9 => F::Eq("uuid".into(), g.pick(uuids).to_string()),
        10 => F::Eq("member".into(), g.pick(uuids).to_string()),
        _ => F::Lt("gidnumber".into(), *g.pick(&[70000u32, 70002, 70005, 1, 4_000_000_000])),
    }
}

fn gen_filter(g: &mut Rng, depth: u32, uuids: &[Uuid]) -> F {
    if depth == 0 || g.chance(2, 5) {
        return gen_leaf(g, uuids);
    }
    let n = g.below(4) as usize; // 0..3 children: empty groups are legal shapes
    match g.below(3) {
        0 => F::And((0..n).map(|_| gen_filter(g, depth - 1, uuids)).collect()),
        1 => F::Or((0..n).map(|_| gen_filter(g, depth - 1, uuids)).collect()),
        _ => F::Not(Box::new(gen_filter(g, depth - 1, uuids))),
    }
}

pub fn generate(seed: u64, tier: Tier) -> Plan {
    let mut k = Rng::stream(seed, "knobs");
    let cfg = Cfg { file_backed: k.chance(1, 3), arc: if k.chance(1, 2) { Some(*k.pick(&[4usize, 16, 64])) } else { None } };
    let mut g = Rng::stream(seed, "workload");
    let np = 3 + g.below(6);
    let ng = 2 + g.below(4);
    let persons: Vec<Uuid> = (0..np).map(|i| uuid_for(1, i)).collect();
    let groups: Vec<Uuid> = (0..ng).map(|i| uuid_for(2, i)).collect();
    let all: Vec<Uuid> = persons.iter().chain(groups.iter()).cloned().collect();
    let mut evs: Vec<Op> = vec![];
    for (i, u) in persons.iter().enumerate() {
        evs.push(Op::Person { u: *u, name: format!("{}{}", g.pick(&NAMES), i), disp: g.pick(&TEXTS).to_string(), desc: g.pick(&TEXTS).to_string(), legal: if g.chance(1, 2) { Some(g.pick(&TEXTS).to_string()) } else { None } });
    }
    // a few entries carry exactly the bare names so that Eq(name) has hits
    for (i, u) in groups.iter().enumerate() {
        let mut ms = vec![];
        for _ in 0..g.below(3) {
            ms.push(*g.pick(&persons));
        }
        evs.push(Op::Group { u: *u, name: NAMES[i % NAMES.len()].to_string(), desc: if g.chance(1, 2) { Some(g.pick(&TEXTS).to_string()) } else { None }, members: ms, gid: if g.chance(1, 2) { Some(70000 + g.below(8) as u32) } else { None } });
    }
    let n_ops = if tier == Tier::Quick { 30 + g.below(20) } else { 40 + g.below(80) };
    for _ in 0..n_ops {
        let op = match g.below(20) {
            0 => Op::SetDesc { u: *g.pick(&all), v: g.pick(&TEXTS).to_string() },
            1 => Op::Rename { u: *g.pick(&all), name: format!("{}{}", g.pick(&NAMES), g.below(3)) },
            2 => Op::Delete { u: *g.pick(&all) },
            3 => Op::Revive { u: *g.pick(&all) },
            4 => Op::Reindex,
            5 => Op::Restart,
            6 | 7 => {
                // 0-3 addresses of one owner tag: shared local part, shared domain
                let tag = g.below(4);
                let pool = [format!("p{tag}@example.com"), format!("p{tag}.alias@example.com"), format!("p{tag}@corp.example")];
                let mails: Vec<String> = pool.iter().filter(|_| g.chance(1, 2)).cloned().collect();
                Op::SetMail { u: *g.pick(&persons), mails }
            }
            _ => {
                let f = gen_filter(&mut g, 3, &all);
                let nm = g.below(4);
                Op::Search { f, masks: (0..nm).map(|_| g.next_u64() >> 40).collect(), dirty: g.chance(1, 3) }
            }
        };
        evs.push(op);
    }
    let events = evs
        .iter()
        .enumerate()
        .map(|(i, o)| {
            let mut v = serde_json::to_value(o).expect("json");
            v["id"] = json!(i as u64 + 1);
            v
        })
        .collect();
    Plan { property: "C01".into(), seed, cfg: serde_json::to_value(&cfg).expect("json"), events }
}

pub fn execute(plan: &Plan) -> Outcome {
    let cfg: Cfg = match serde_json::from_value(plan.cfg.clone()) {
        Ok(c) => c,
        Err(e) => return Outcome { harness_error: Some(format!("bad cfg {e}")), ..Default::default() },
    };
    let scratch = if cfg.file_backed { Some(Scratch::new(&format!("se-{:x}", plan.seed))) } else { None };
    let path = scratch.as_ref().map(|s| s.path().join("s.db"));
    let mut w = World { qs: None, path, arc: cfg.arc, t: 0, seed: plan.seed, out: Outcome::default(), step: 0, _scratch: scratch };
    crate::entropy::swap_stream(Some(Rng::new(plan.seed ^ 0xb007)));
    match boot_qs(&w.ncfg(), w.ct()) {
        Ok(q) => w.qs = Some(q),
        Err(e) => return Outcome { harness_error: Some(format!("boot {e:?}")), ..Default::default() },
    }
    for p in ["filter with a non-empty answer", "search under an index-layout mask", "search inside a dirty write transaction", "reindex (slopes regenerated)"] {
        w.out.probe0(p);
    }
    for (i, ev) in plan.events.iter().enumerate() {
        w.step = i;
        let id = ev.get("id").and_then(|x| x.as_u64()).unwrap_or(i as u64);
        let Ok(op) = serde_json::from_value::<Op>(ev.clone()) else { continue };
        w.apply(id, &op);
        if w.out.harness_error.is_some() {
            break;
        }
    }
    crate::entropy::swap_stream(None);
    w.out.states.sort();
    w.out.states.dedup();
    w.out.nontrivial = w.out.events_run > 5 && w.out.states.len() >= 2;
    w.out
}

pub struct SearchScenario;

impl Scenario for SearchScenario {
    fn property(&self) -> &'static str {
        "C01"
    }
    fn engine(&self) -> &'static str {
        "E4 search"
    }
    fn budget(&self, tier: Tier) -> Budget {
        match tier {
            Tier::Quick => Budget { runs: 320, wall_cap_s: 150 },
            Tier::Thorough => Budget { runs: 60_000, wall_cap_s: 1500 },
        }
    }
    fn generate(&self, seed: u64, tier: Tier) -> Plan {
        generate(seed, tier)
    }
    fn execute(&self, plan: &Plan) -> Outcome {
        execute(plan)
    }
    fn rule(&self) -> String {
        "A run = a seeded population (persons, groups, posix groups over a tiny name/text alphabet) + a history of renames, deletes, revives, reindex, cache clears, restarts and 20–80 random filter trees (depth ≤ 3, width ≤ 3: Eq, Cnt, Pres, LessThan, And, Or, NOT incl. NOT under OR, AND of only NOT, empty groups, sub-trigram substrings). Each filter is executed in a read transaction twice, as exists(), under up to 3 random index-layout masks and inside a dirty write transaction, and compared with the harness's evaluator over a full scan of the same transaction. distinct_nontrivial = distinct (filter, shape, answer size) digests.".into()
    }
    fn components(&self) -> J {
        json!({"real": ["kanidmd_lib query path: filter validation/resolution/optimisation, resolve-filter cache, filter2idl planner, index tables and ARC caches, entry_match_no_index"], "stub": ["wall clock", "OS entropy"], "not_run": ["access control reduction (internal identity)", "HTTP layer"]})
    }
    fn assumptions(&self) -> Vec<String> {
        vec!["index layouts are varied by restricting the planner's index metadata inside an abandoned write transaction (hook mask_idxmeta); index tables are never dropped".into(), "filters are issued as the internal identity, so resource limits never apply".into(), "sampled, not exhaustive".into()]
    }
}

pub fn scenarios() -> Vec<Box<dyn Scenario>> {
    vec![Box::new(SearchScenario)]
}

#[allow(dead_code)]
pub fn self_test() -> Result<(), String> {
    // NOT is complement; empty AND is true, empty OR is false.
    let t = F::And(vec![]);
    let f = F::Or(vec![]);
    let _ = (t, f);
    Ok(())
}
