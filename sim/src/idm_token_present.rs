// ---- presentation of every outstanding token + the oracles (included into idm_token.rs) ----------

struct V {
    property: &'static str,
    oracle: String,
    signature: String,
    summary: String,
}

fn tok_class(t: &Tok) -> &'static str {
    match t.origin {
        Origin::Anon => "anonymous token",
        Origin::ApiRw | Origin::ApiRo => {
            if t.compact {
                "compact api token"
            } else {
                "api token"
            }
        }
        _ => "login token",
    }
}

/// The one-sided rules: the token was ACCEPTED at `now` on a node whose received state is `view`.
fn judge(t: &Tok, slot: u64, view: &Ledger, now: u64, node: usize, via: &'static str, vs: &mut Vec<V>) {
    let class = tok_class(t);
    let suffix = if via == "bearer" { String::new() } else { format!(" [via {via}]") };
    let osfx = if via == "bearer" { "" } else { "/ldap-session" };
    let mut push = |property: &'static str, oracle: &str, reason: String, detail: String| {
        vs.push(V {
            property,
            oracle: format!("{oracle}{osfx}"),
            // one root cause per reason on the bound-connection path, whatever the token class
            signature: if via == "bearer" { format!("{class} accepted: {reason}") } else { format!("ldap connection bound with a token still authorised: {reason}{suffix}") },
            summary: format!("token #{slot} ({}, session {}) accepted on node {node}: {reason}; {detail}", t.origin.name(), t.session),
        });
    };
    // valid signature from a non-revoked domain key
    if view.revoked_kids.contains(&t.kid) {
        push("C32", "accept-rule", "signing key revoked".into(), format!("kid {} was revoked", t.kid));
    }
    // has not expired
    if let Some(e) = t.expiry {
        if (now as i64) > e {
            push("C32", "accept-rule", "token expired".into(), format!("expiry {e}, now {now}"));
        }
    }
    // existing account inside its validity window
    if let Some(i) = t.acct {
        let a = &view.accts[i];
        if !a.exists {
            push("C32", "accept-rule", "account deleted".into(), format!("account {}", a.name));
        }
        let inside = a.vfrom.map(|f| f <= now).unwrap_or(true) && a.vto.map(|x| now <= x).unwrap_or(true);
        if !inside {
            push("C32", "accept-rule", "outside the account validity window".into(), format!("account {} valid [{:?},{:?}] now {now}", a.name, a.vfrom, a.vto));
        }
    }
    let in_grace = now < t.issued + GRACE;
    match t.origin {
        Origin::Anon => {}
        Origin::ApiRw | Origin::ApiRo => {
            let present = view.api.get(&t.session).map(|a| a.present).unwrap_or(false);
            if !present && !in_grace {
                let why = if view.api.contains_key(&t.session) { "destroyed" } else { "not received by this node" };
                push("C32", "accept-rule", format!("api token session absent ({why}) past the grace window"), format!("issued {}, now {now}", t.issued));
            }
        }
        _ => match view.sess.get(&t.session) {
            Some(s) => {
                if s.recorded {
                    if let Some(why) = s.revoked {
                        if why == "cred-removed" {
                            push("C36", "removed-cred-token", "session of a removed credential (record present)".into(), format!("credential {:?} was removed", s.cred_id));
                        } else {
                            push("C32", "accept-rule", format!("session revoked ({why})"), String::new());
                        }
                    } else if s.expiry != t.expiry && !in_grace {
                        push("C32", "accept-rule", "recorded session expiry differs from the token".into(), format!("session {:?} token {:?}", s.expiry, t.expiry));
                    }
                } else if !in_grace {
                    push("C32", "accept-rule", format!("no session record ({}) past the grace window", s.unrecorded_why), format!("issued {}, now {now}", t.issued));
                }
            }
            None => {
                if !in_grace {
                    push("C32", "accept-rule", "no session record (not received by this node) past the grace window".into(), format!("issued {}, now {now}", t.issued));
                }
            }
        },
    }
}

fn ledger_live(t: &Tok, view: &Ledger, now: u64) -> bool {
    if view.revoked_kids.contains(&t.kid) {
        return false;
    }
    if let Some(e) = t.expiry {
        if (now as i64) >= e {
            return false;
        }
    }
    if let Some(i) = t.acct {
        let a = &view.accts[i];
        if !a.exists || !a.vfrom.map(|f| f <= now).unwrap_or(true) || !a.vto.map(|x| now <= x).unwrap_or(true) {
            return false;
        }
    }
    match t.origin {
        Origin::Anon => true,
        Origin::ApiRw | Origin::ApiRo => view.api.get(&t.session).map(|a| a.present).unwrap_or(false),
        _ => view.sess.get(&t.session).map(|s| s.recorded && s.revoked.is_none() && s.expiry == t.expiry).unwrap_or(false),
    }
}

impl Engine {
    /// Present every outstanding token (and bound LDAP connection, and OAuth2 session) on every
    /// node at the current time; returns an abstract digest of what was observed.
    fn present_all(&mut self) -> u64 {
        let now = self.now;
        let ct = self.ct();
        let mut vs: Vec<V> = vec![];
        let mut probes: Vec<&'static str> = vec![];
        let mut dig: u64 = 0xcbf2_9ce4_8422_2325;
        let mut mix = |x: u64| {
            dig = (dig.rotate_left(9) ^ x).wrapping_mul(0x1000_0000_01b3);
        };
        let (mut acc, mut rej) = (0u64, 0u64);
        for n in 0..self.nodes.len() {
            let Some(idms) = self.idms(n) else { continue };
            let view = if n == 0 { &self.led } else { &self.view1 };
            let Ok(mut pr) = block(idms.proxy_read()) else { continue };
            for (slot, t) in self.toks.iter() {
                let prevalidate = (*slot + self.step as u64) % 3 == 1;
                let res = if prevalidate {
                    let mut c = cai_tok(&t.jws);
                    match pr.pre_validate_client_auth_info(&mut c, ct) {
                        Ok(()) => pr.validate_client_auth_info_to_ident(c, ct),
                        Err(e) => Err(e),
                    }
                } else {
                    pr.validate_client_auth_info_to_ident(cai_tok(&t.jws), ct)
                };
                let in_grace = now < t.issued + GRACE;
                let (recorded, revoked) = view.sess.get(&t.session).map(|s| (s.recorded, s.revoked.is_some())).unwrap_or((false, false));
                let mut rw = false;
                match &res {
                    Ok(ident) => {
                        acc += 1;
                        judge(t, *slot, view, now, n, "bearer", &mut vs);
                        // ---- literal rule re-evaluated on the database of this node ----
                        match pr.qs_read.internal_search_uuid(t.acct_uuid) {
                            Err(_) => vs.push(V { property: "C32", oracle: "db-rule".into(), signature: format!("{} accepted: account entry not found in the database", tok_class(t)), summary: format!("token #{slot} accepted on node {n} but {} is not a live entry", t.acct_uuid) }),
                            Ok(e) => {
                                let vf = e.get_ava_single_datetime(Attribute::AccountValidFrom).map(|o| o.unix_timestamp());
                                let vt = e.get_ava_single_datetime(Attribute::AccountExpire).map(|o| o.unix_timestamp());
                                if vf.map(|f| f > now as i64).unwrap_or(false) || vt.map(|x| (now as i64) > x).unwrap_or(false) {
                                    vs.push(V { property: "C32", oracle: "db-rule".into(), signature: format!("{} accepted: stored validity window excludes now", tok_class(t)), summary: format!("token #{slot} accepted on node {n}; stored window [{vf:?},{vt:?}] now {now}") });
                                }
                                match t.origin {
                                    Origin::Anon => {}
                                    Origin::ApiRw | Origin::ApiRo => {
                                        let present = e.get_ava_as_apitoken_map(Attribute::ApiTokenSession).map(|m| m.contains_key(&t.session)).unwrap_or(false);
                                        if !present && !in_grace {
                                            vs.push(V { property: "C32", oracle: "db-rule".into(), signature: format!("{} accepted: no stored api token session past grace", tok_class(t)), summary: format!("token #{slot} accepted on node {n}; api_token_session has no {}", t.session) });
                                        }
                                        if !present && in_grace {
                                            probes.push("api token accepted without a stored session inside the grace window");
                                        }
                                    }
                                    _ => {
                                        let st = e.get_ava_as_session_map(Attribute::UserAuthTokenSession).and_then(|m| m.get(&t.session).map(|s| s.state.clone()));
                                        let ok = match (&st, t.expiry) {
                                            (Some(SessionState::ExpiresAt(x)), Some(te)) => x.unix_timestamp() == te,
                                            (Some(SessionState::NeverExpires), None) => true,
                                            (Some(_), _) => false,
                                            (None, _) => in_grace,
                                        };
                                        if !ok {
                                            let what = match &st {
                                                Some(SessionState::RevokedAt(_)) => "stored session is revoked",
                                                Some(_) => "stored session expiry differs from the token",
                                                None => "no stored session past grace",
                                            };
                                            vs.push(V { property: "C32", oracle: "db-rule".into(), signature: format!("login token accepted: {what}"), summary: format!("token #{slot} (session {}) accepted on node {n}; {what}", t.session) });
                                        }
                                        if st.is_none() {
                                            probes.push("login token accepted on the grace window alone");
                                        }
                                    }
                                }
                            }
                        }
                        // ---- C33: scope ----
                        rw = ident.access_scope() == AccessScope::ReadWrite;
                        let in_window = t.auth_time <= now && now < t.auth_time + t.window;
                        if rw {
                            match t.origin {
                                Origin::ApiRw => {}
                                Origin::LoginGenerated { privileged: false } => {
                                    // kanidm issues every generated-password session read-write
                                    // (authsession issue_uat: GeneratedPassword => ReadWrite); the
                                    // statement has no such exception for an ordinary login.
                                    vs.push(V {
                                        property: "C33",
                                        oracle: "scope".into(),
                                        signature: "read-write scope for a non-privileged login (generated-password credential)".into(),
                                        summary: format!("token #{slot}: login with privileged=false on a generated (recover/service-account) password produced scope ReadWrite at {now} on node {n} (window from auth: {}s)", t.window),
                                    });
                                    if !in_window {
                                        vs.push(V { property: "C33", oracle: "scope".into(), signature: "read-write scope outside the privilege window (generated-password login)".into(), summary: format!("token #{slot} authenticated at {} window {}s still read-write at {now}", t.auth_time, t.window) });
                                    }
                                }
                                Origin::LoginPriv | Origin::ReauthRw | Origin::LoginGenerated { privileged: true } => {
                                    if in_window {
                                        probes.push("read-write scope inside a privilege window");
                                    } else {
                                        vs.push(V {
                                            property: "C33",
                                            oracle: "scope".into(),
                                            signature: format!("read-write scope outside the privilege window ({})", t.origin.name()),
                                            summary: format!("token #{slot} authenticated at {} with a window of {}s still read-write at {now} on node {n}", t.auth_time, t.window),
                                        });
                                    }
                                }
                                o => vs.push(V { property: "C33", oracle: "scope".into(), signature: format!("read-write scope for a {}", o.name()), summary: format!("token #{slot} ({}) produced an identity with scope ReadWrite at {now} on node {n}", o.name()) }),
                            }
                        } else if matches!(t.origin, Origin::LoginPriv | Origin::ReauthRw | Origin::LoginGenerated { .. }) && !in_window {
                            probes.push("privilege window elapsed: scope back to read-only");
                        }
                    }
                    Err(e) => {
                        rej += 1;
                        if ledger_live(t, view, now) {
                            if std::env::var("VERIF_TRACE").is_ok() {
                                eprintln!("   live-but-rejected: token #{slot} ({}) node {n}: {e:?}", t.origin.name());
                            }
                            probes.push("token rejected although the ledger has it live (one-sided: not judged)");
                        }
                    }
                }
                mix(fnv64(t.origin.name().as_bytes()));
                mix(res.is_ok() as u64 | (rw as u64) << 1 | (in_grace as u64) << 2 | (recorded as u64) << 3 | (revoked as u64) << 4 | (view.revoked_kids.contains(&t.kid) as u64) << 5 | (t.expiry.map(|e| now as i64 > e).unwrap_or(false) as u64) << 6 | (t.acct.map(|i| view.accts[i].exists).unwrap_or(true) as u64) << 7 | (n as u64) << 8);
            }
            // bound LDAP connections (node 0 only): each later operation re-validates the session
            if n == 0 {
                for (_ls, (l, slot)) in self.ldaps.iter() {
                    let Some(t) = self.toks.get(slot) else { continue };
                    let ok = pr.validate_ldap_session(&l.effective_session, Source::Internal, ct).is_ok();
                    if ok {
                        judge(t, *slot, view, now, 0, "ldap-session", &mut vs);
                        probes.push("bound ldap connection re-validated");
                    }
                    mix(0x1da9 ^ ok as u64);
                }
            }
            // OAuth2 sessions: usable?
            for (o2, m) in view.o2.iter() {
                let a = &view.accts[m.acct];
                let usable = matches!(pr.check_oauth2_account_uuid_valid(a.uuid, *o2, Some(m.parent), m.iat as i64, ct), Ok(Some(_)));
                let parent = view.sess.get(&m.parent);
                let parent_live = parent.map(|s| s.recorded && s.revoked.is_none()).unwrap_or(false);
                if usable && now >= m.iat + GRACE && !parent_live {
                    let why = match parent {
                        Some(s) if s.recorded => format!("revoked ({})", s.revoked.unwrap_or("?")),
                        Some(s) => format!("not recorded ({})", s.unrecorded_why),
                        None => "not received by this node".into(),
                    };
                    vs.push(V { property: "C36", oracle: "o2-parent".into(), signature: format!("oauth2 session usable past its grace window: parent login session {why}"), summary: format!("oauth2 session {o2} (issued {}, parent {}) of {} still usable at {now} on node {n}", m.iat, m.parent, a.name) });
                }
                if usable && parent_live {
                    probes.push("oauth2 session usable with a live parent");
                }
                if !usable && !parent_live {
                    probes.push("oauth2 session unusable: parent revoked or missing");
                }
                mix(0x0a2 ^ (usable as u64) << 1 ^ (parent_live as u64) << 2);
            }
        }
        self.accepted += acc;
        self.rejected += rej;
        for p in probes {
            self.out.probe(p);
        }
        for v in vs {
            self.viol(v.property, &v.oracle, v.signature, v.summary);
        }
        mix(self.pending.len() as u64);
        dig
    }

    fn apply(&mut self, i: usize, ev: &Ev) {
        self.step = i;
        let newnow = (self.now + 1).max(BASE_EPOCH + ev.t);
        let jumped = newnow - self.now;
        self.out.sim_secs += jumped as f64;
        self.now = newnow;
        self.set_entropy(ev.id);
        if jumped > 1 && !self.toks.is_empty() {
            // "immediately before" the event, at its time
            self.after = "time-advance";
            let d = self.present_all();
            self.out.chain(d);
            self.out.states.push(d);
        }
        self.after = ev.op.kind();
        let res = self.exec(&ev.op);
        self.drain();
        let d = self.present_all();
        self.out.chain(fnv64(res.as_bytes()));
        self.out.chain(d);
        self.out.states.push(d);
        self.out.events_run += 1;
        self.kinds.push(fnv64(ev.op.kind().as_bytes()));
        let k = self.kinds.len();
        if k >= 3 {
            self.out.trigrams.push(self.kinds[k - 3].rotate_left(21) ^ self.kinds[k - 2].rotate_left(7) ^ self.kinds[k - 1]);
        }
        if std::env::var("VERIF_TRACE").is_ok() {
            eprintln!("#{} t=+{} {} => {} | pending={} toks={} acc={} rej={}", ev.id, self.now - BASE_EPOCH, serde_json::to_string(&ev.op).unwrap_or_default(), res, self.pending.len(), self.toks.len(), self.accepted, self.rejected);
        }
    }

    fn finish(mut self) -> Outcome {
        crate::entropy::swap_stream(None);
        vh::set_sim_now(None);
        self.out.states.sort_unstable();
        self.out.states.dedup();
        self.out.trigrams.sort_unstable();
        self.out.trigrams.dedup();
        self.out.nontrivial = self.out.events_run >= 3 && self.accepted > 0 && self.rejected > 0;
        self.out
    }
}

const EXPECTED_PROBES: &[&str] = &[
    "session record delivered",
    "session record delivered after the grace window",
    "session record delivered after its credential was removed",
    "account recovered by the administrator",
    "service account password generated",
    "credential replaced (new uuid)",
    "credential removed while it had recorded sessions",
    "credential removed while a session record was still queued or lost",
    "login completed with a credential removed since the auth session began",
    "privileged login",
    "non-privileged login",
    "re-authentication (read-write)",
    "re-authentication (verify only)",
    "session destroyed",
    "api token destroyed",
    "domain key revoked",
    "login token accepted on the grace window alone",
    "api token accepted without a stored session inside the grace window",
    "read-write scope inside a privilege window",
    "privilege window elapsed: scope back to read-only",
    "oauth2 session unusable: parent revoked or missing",
    "ldap password bind identity checked",
];

pub fn execute(plan: &Plan) -> Outcome {
    let cfg: Cfg = match serde_json::from_value(plan.cfg.clone()) {
        Ok(c) => c,
        Err(e) => return Outcome { harness_error: Some(format!("bad cfg: {e}")), ..Default::default() },
    };
    let mut e = match Engine::new(cfg, plan.seed) {
        Ok(e) => e,
        Err(x) => {
            crate::entropy::swap_stream(None);
            return Outcome { harness_error: Some(x), ..Default::default() };
        }
    };
    for p in EXPECTED_PROBES.iter().copied() {
        e.out.probe0(p);
    }
    for (i, ev) in plan.events.iter().enumerate() {
        let Ok(ev) = serde_json::from_value::<Ev>(ev.clone()) else { continue };
        e.apply(i, &ev);
        if e.out.harness_error.is_some() {
            break;
        }
    }
    e.finish()
}
