//! C11 — replicated session (and OAuth2 session) state merges: the result does not depend on the
//! order or grouping of the merges, merging twice changes nothing, and a session revoked on any
//! replica stays revoked everywhere. 2–3 real servers; per-node histories of session adds,
//! re-adds with other expiries and revocations on the same account; the SAME history is then
//! brought to quiescence under several replication orders (with duplicate deliveries).
use crate::driver::{Budget, Outcome, Plan, Scenario, Tier};
use crate::dump::EntryArc;
use crate::node::{block, boot_qs, NodeCfg};
use crate::rng::{fnv64, uuid_for, Rng};
use kanidmd_lib::entry::{Entry, EntryInit, EntryNew};
use kanidmd_lib::prelude::*;
use kanidmd_lib::repl::proto::{ConsumerState, ReplIncrementalContext, ReplRefreshContext};
use kanidmd_lib::value::{AuthType, Oauth2Session, Session, SessionExtMetadata, SessionState};
use kanidmd_lib::valueset::ValueSetT;
use serde::{Deserialize, Serialize};
use serde_json::{json, Value as J};
use std::collections::{BTreeMap, BTreeSet};
use time::OffsetDateTime;

#[derive(Serialize, Deserialize, Clone, Debug)]
#[serde(tag = "op")]
pub enum Op {
    /// (re-)write a login session record; exp = seconds from now, None = never expires
    AddSession { n: usize, sid: Uuid, exp: Option<u64> },
    RevokeSession { n: usize, sid: Uuid },
    AddOauth2 { n: usize, sid: Uuid, parent: Option<Uuid>, exp: Option<u64> },
    RevokeOauth2 { n: usize, sid: Uuid },
    Touch { n: usize, v: String },
    Pull { c: usize, s: usize },
    Advance { secs: u64 },
}

#[derive(Serialize, Deserialize, Clone, Debug)]
pub struct Cfg {
    pub nodes: usize,
    pub orders: u32,
}

fn acct() -> Uuid {
    uuid_for(1, 1)
}
fn rs() -> Uuid {
    uuid_for(6, 1)
}

struct Cl {
    qs: Vec<QueryServer>,
    t: u64,
    seed: u64,
}

impl Cl {
    fn ct(&mut self) -> Duration {
        self.t += 1;
        Duration::from_secs(crate::cluster::BASE_EPOCH + self.t)
    }
    fn odt(&self, plus: u64) -> OffsetDateTime {
        OffsetDateTime::UNIX_EPOCH + Duration::from_secs(crate::cluster::BASE_EPOCH + self.t + plus)
    }
    fn ent(&self, id: u64) {
        crate::entropy::swap_stream(Some(Rng::new(self.seed ^ id.wrapping_mul(0x9E37_79B9_7F4A_7C15))));
    }
    fn new(nodes: usize, seed: u64) -> Result<Cl, String> {
        let mut c = Cl { qs: vec![], t: 0, seed };
        for n in 0..nodes {
            c.ent(0xb000 + n as u64);
            let ct = c.ct();
            c.qs.push(boot_qs(&NodeCfg::mem(), ct).map_err(|e| format!("boot {e:?}"))?);
            if n > 0 {
                c.refresh(n, 0)?;
            }
        }
        // the account and an OAuth2 client on node 0, replicated everywhere
        let ct = c.ct();
        let q0 = c.qs[0].clone();
        let mut w = block(q0.write(ct)).map_err(|e| format!("{e:?}"))?;
        let p: Entry<EntryInit, EntryNew> = entry_init!(
            (Attribute::Class, EntryClass::Object.to_value()),
            (Attribute::Class, EntryClass::Account.to_value()),
            (Attribute::Class, EntryClass::Person.to_value()),
            (Attribute::Name, Value::new_iname("sessuser")),
            (Attribute::Uuid, Value::Uuid(acct())),
            (Attribute::Description, Value::new_utf8s("d0")),
            (Attribute::DisplayName, Value::new_utf8s("sessuser"))
        );
        let r: Entry<EntryInit, EntryNew> = entry_init!(
            (Attribute::Class, EntryClass::Object.to_value()),
            (Attribute::Class, EntryClass::Account.to_value()),
            (Attribute::Class, EntryClass::OAuth2ResourceServer.to_value()),
            (Attribute::Class, EntryClass::OAuth2ResourceServerBasic.to_value()),
            (Attribute::Uuid, Value::Uuid(rs())),
            (Attribute::Name, Value::new_iname("sessclient")),
            (Attribute::DisplayName, Value::new_utf8s("sessclient")),
            (Attribute::OAuth2RsOriginLanding, Value::new_url_s("https://demo.example.com").expect("url"))
        );
        w.internal_create(vec![p, r]).map_err(|e| format!("{e:?}"))?;
        w.commit().map_err(|e| format!("{e:?}"))?;
        for n in 1..nodes {
            c.pull(n, 0, false);
        }
        Ok(c)
    }
    fn refresh(&mut self, c: usize, s: usize) -> Result<(), String> {
        let sq = self.qs[s].clone();
        let ctx: ReplRefreshContext = {
            let mut r = block(sq.read()).map_err(|e| format!("{e:?}"))?;
            r.supplier_provide_refresh().map_err(|e| format!("{e:?}"))?
        };
        let ct = self.ct();
        let cq = self.qs[c].clone();
        let mut w = block(cq.write(ct)).map_err(|e| format!("{e:?}"))?;
        w.consumer_apply_refresh(ctx).map_err(|e| format!("{e:?}"))?;
        w.commit().map_err(|e| format!("{e:?}"))
    }
    /// returns true when changes were applied
    fn pull(&mut self, c: usize, s: usize, dup: bool) -> bool {
        if c == s || c >= self.qs.len() || s >= self.qs.len() {
            return false;
        }
        let (cq, sq) = (self.qs[c].clone(), self.qs[s].clone());
        let Ok(range) = block(cq.read()).and_then(|mut r| r.consumer_get_state()) else { return false };
        let Ok(ctx) = block(sq.read()).and_then(|mut r| r.supplier_provide_changes(range)) else { return false };
        let wire = serde_json::to_string(&ctx).expect("json");
        let applied = matches!(ctx, ReplIncrementalContext::V1 { .. });
        for _ in 0..(if dup { 2 } else { 1 }) {
            let ctx: ReplIncrementalContext = serde_json::from_str(&wire).expect("json");
            let ct = self.ct();
            if let Ok(mut w) = block(cq.write(ct)) {
                if let Ok(ConsumerState::Ok) = w.consumer_apply_changes(ctx) {
                    let _ = w.commit();
                }
            }
        }
        applied
    }
    fn write(&mut self, n: usize, ml: ModifyList<kanidmd_lib::modify::ModifyInvalid>) -> bool {
        if n >= self.qs.len() {
            return false;
        }
        let ct = self.ct();
        let q = self.qs[n].clone();
        let Ok(mut w) = block(q.write(ct)) else { return false };
        if w.internal_modify_uuid(acct(), &ml).is_err() {
            return false;
        }
        w.commit().is_ok()
    }
    fn apply(&mut self, id: u64, op: &Op) -> bool {
        self.ent(id);
        match op.clone() {
            Op::AddSession { n, sid, exp } => {
                let state = match exp {
                    Some(s) => SessionState::ExpiresAt(self.odt(s)),
                    None => SessionState::NeverExpires,
                };
                let sess = Session { label: "sim".into(), state, issued_at: self.odt(0), issued_by: IdentityId::Internal(acct()), cred_id: uuid_for(7, 1), scope: SessionScope::ReadOnly, type_: AuthType::Password, ext_metadata: SessionExtMetadata::None };
                self.write(n, ModifyList::new_append(Attribute::UserAuthTokenSession, Value::Session(sid, sess)))
            }
            Op::RevokeSession { n, sid } => self.write(n, ModifyList::new_remove(Attribute::UserAuthTokenSession, PartialValue::Refer(sid))),
            Op::AddOauth2 { n, sid, parent, exp } => {
                let state = match exp {
                    Some(s) => SessionState::ExpiresAt(self.odt(s)),
                    None => SessionState::NeverExpires,
                };
                let sess = Oauth2Session { parent, state, issued_at: self.odt(0), rs_uuid: rs() };
                self.write(n, ModifyList::new_append(Attribute::OAuth2Session, Value::Oauth2Session(sid, sess)))
            }
            Op::RevokeOauth2 { n, sid } => self.write(n, ModifyList::new_remove(Attribute::OAuth2Session, PartialValue::Refer(sid))),
            Op::Touch { n, v } => self.write(n, ModifyList::new_purge_and_set(Attribute::Description, Value::new_utf8s(&v))),
            Op::Pull { c, s } => self.pull(c, s, false),
            Op::Advance { secs } => {
                self.t += secs;
                true
            }
        }
    }
    fn account(&self, n: usize) -> Option<EntryArc> {
        let q = self.qs[n].clone();
        block(q.read()).ok().and_then(|mut r| r.internal_search_uuid(acct()).ok())
    }
    /// (session id → state rendered) for both session attributes
    fn states(&self, n: usize) -> BTreeMap<String, String> {
        let mut m = BTreeMap::new();
        if let Some(e) = self.account(n) {
            if let Some(s) = e.get_ava_set(Attribute::UserAuthTokenSession).and_then(|v| v.as_session_map()) {
                for (k, v) in s {
                    m.insert(format!("uat:{k}"), format!("{:?}", v.state));
                }
            }
            if let Some(s) = e.get_ava_set(Attribute::OAuth2Session).and_then(|v| v.as_oauth2session_map()) {
                for (k, v) in s {
                    m.insert(format!("o2:{k}"), format!("{:?}", v.state));
                }
            }
        }
        m
    }
    /// replicate to quiescence following a seeded order of ordered pairs, with duplicate deliveries
    fn quiesce(&mut self, order_seed: u64) -> bool {
        let nn = self.qs.len();
        let mut g = Rng::new(order_seed);
        let mut pairs: Vec<(usize, usize)> = vec![];
        for c in 0..nn {
            for s in 0..nn {
                if c != s {
                    pairs.push((c, s));
                }
            }
        }
        for _round in 0..(2 * nn + 6) {
            g.shuffle(&mut pairs);
            let mut changed = false;
            for (c, s) in pairs.clone() {
                self.ent(0x9000 + self.t);
                let dup = g.chance(1, 3);
                if self.pull(c, s, dup) {
                    changed = true;
                }
            }
            if !changed {
                return true;
            }
        }
        false
    }
}

pub fn generate(seed: u64, tier: Tier) -> Plan {
    let mut k = Rng::stream(seed, "knobs");
    let cfg = Cfg { nodes: 2 + k.below(2) as usize, orders: 3 };
    let mut g = Rng::stream(seed, "workload");
    let sids: Vec<Uuid> = (0..3).map(|i| uuid_for(8, i)).collect();
    let n_ops = if tier == Tier::Quick { 6 + g.below(12) } else { 6 + g.below(30) };
    let mut evs = vec![];
    for i in 0..n_ops {
        let n = g.below(cfg.nodes as u64) as usize;
        let exp = *g.pick(&[None, Some(60u64), Some(3600), Some(86400), Some(0)]);
        let op = match g.below(12) {
            0..=2 => Op::AddSession { n, sid: *g.pick(&sids), exp },
            3 | 4 => Op::RevokeSession { n, sid: *g.pick(&sids) },
            5 | 6 => Op::AddOauth2 { n, sid: *g.pick(&sids), parent: if g.chance(1, 2) { Some(*g.pick(&sids)) } else { None }, exp },
            7 => Op::RevokeOauth2 { n, sid: *g.pick(&sids) },
            8 => Op::Touch { n, v: format!("d{}", g.below(3)) },
            9 | 10 => {
                let mut s = g.below(cfg.nodes as u64) as usize;
                if s == n {
                    s = (s + 1) % cfg.nodes;
                }
                Op::Pull { c: n, s }
            }
            _ => Op::Advance { secs: *g.pick(&[0u64, 1, 5, 120]) },
        };
        let mut v = serde_json::to_value(&op).expect("json");
        v["id"] = json!(i + 1);
        evs.push(v);
    }
    Plan { property: "C11".into(), seed, cfg: serde_json::to_value(&cfg).expect("json"), events: evs }
}

pub fn execute(plan: &Plan) -> Outcome {
    let mut out = Outcome::default();
    let cfg: Cfg = match serde_json::from_value(plan.cfg.clone()) {
        Ok(c) => c,
        Err(e) => return Outcome { harness_error: Some(format!("bad cfg {e}")), ..Default::default() },
    };
    let ops: Vec<(u64, Op)> = plan.events.iter().enumerate().filter_map(|(i, ev)| serde_json::from_value::<Op>(ev.clone()).ok().map(|o| (ev.get("id").and_then(|x| x.as_u64()).unwrap_or(i as u64), o))).collect();
    let mut finals: Vec<Vec<BTreeMap<String, String>>> = vec![];
    let mut revoked: BTreeSet<String> = BTreeSet::new();
    for order in 0..cfg.orders {
        let mut cl = match Cl::new(cfg.nodes, plan.seed) {
            Ok(c) => c,
            Err(e) => return Outcome { harness_error: Some(e), ..Default::default() },
        };
        for (id, op) in &ops {
            let ok = cl.apply(*id, op);
            if order == 0 {
                out.events_run += 1;
                out.chain(fnv64(format!("{op:?}{ok}").as_bytes()));
                if ok {
                    match op {
                        Op::RevokeSession { sid, n } => {
                            // only a revocation of a session that node knew counts
                            if cl.states(*n).get(&format!("uat:{sid}")).map(|s| s.starts_with("RevokedAt")).unwrap_or(false) {
                                revoked.insert(format!("uat:{sid}"));
                            }
                        }
                        Op::RevokeOauth2 { sid, n } => {
                            if cl.states(*n).get(&format!("o2:{sid}")).map(|s| s.starts_with("RevokedAt")).unwrap_or(false) {
                                revoked.insert(format!("o2:{sid}"));
                            }
                        }
                        _ => {}
                    }
                }
            }
        }
        let settled = cl.quiesce(plan.seed ^ (0xabc0 + order as u64));
        if !settled {
            out.probe("quiescence not reached");
        }
        // idempotence: one more full round with duplicates must change nothing
        let before: Vec<_> = (0..cfg.nodes).map(|n| cl.states(n)).collect();
        for c in 0..cfg.nodes {
            for s in 0..cfg.nodes {
                cl.pull(c, s, true);
            }
        }
        let after: Vec<_> = (0..cfg.nodes).map(|n| cl.states(n)).collect();
        if settled && before != after {
            out.violate("C11", "merge-idempotent", "duplicate delivery after quiescence changed session state", format!("order {order}: before {before:?} after {after:?}"), ops.len());
        }
        if settled {
            // replicas agree
            for n in 1..cfg.nodes {
                if after[n] != after[0] {
                    let kind = diff_kind(&after[0], &after[n]);
                    let sig = format!("replicas hold different session state at quiescence: {kind}");
                    if !out.violations.iter().any(|v| v.signature == sig) {
                        out.violate("C11", "replicas-agree-on-sessions", &sig, format!("order {order}: node 0 {:?} vs node {n} {:?}", after[0], after[n]), ops.len());
                    }
                }
            }
            // revocations preserved everywhere
            for k in &revoked {
                for n in 0..cfg.nodes {
                    match after[n].get(k) {
                        Some(s) if s.starts_with("RevokedAt") => {}
                        other => {
                            let sig = format!("revoked session not revoked everywhere: {}", if other.is_none() { "absent on a replica" } else { "live on a replica" });
                            if !out.violations.iter().any(|v| v.signature == sig) {
                                out.violate("C11", "revocation-preserved", &sig, format!("order {order}: {k} was revoked on some replica but node {n} holds {other:?}"), ops.len());
                            }
                        }
                    }
                }
            }
            out.probe("order brought to quiescence");
        }
        out.states.push(fnv64(format!("{:?}", after).as_bytes()));
        finals.push(after);
    }
    // order independence
    if finals.len() > 1 && finals.iter().all(|f| !f.is_empty()) {
        // compare state maps modulo the change id inside RevokedAt (it names the revoking
        // transaction, which is the same transaction in every order)
        for i in 1..finals.len() {
            if finals[i][0] != finals[0][0] {
                let kind = diff_kind(&finals[0][0], &finals[i][0]);
                let sig = format!("result depends on the replication order: {kind}");
                if !out.violations.iter().any(|v| v.signature == sig) {
                    out.violate("C11", "order-independent", &sig, format!("order 0 gives {:?}, order {i} gives {:?}", finals[0][0], finals[i][0]), ops.len());
                }
            }
        }
    }
    if !revoked.is_empty() {
        out.probe("history with a revocation");
    }
    crate::entropy::swap_stream(None);
    out.states.sort();
    out.states.dedup();
    out.nontrivial = out.events_run >= 3;
    out
}

fn diff_kind(a: &BTreeMap<String, String>, b: &BTreeMap<String, String>) -> String {
    // categorical: what kinds of disagreement exist (not which sessions)
    let mut kinds = BTreeSet::new();
    for k in a.keys().chain(b.keys()) {
        let (x, y) = (a.get(k), b.get(k));
        if x == y {
            continue;
        }
        let rev = |s: Option<&String>| s.map(|v| v.starts_with("RevokedAt")).unwrap_or(false);
        if x.is_none() || y.is_none() {
            kinds.insert("a record is absent on one side");
        } else if rev(x) != rev(y) {
            kinds.insert("revoked on one side only");
        } else if rev(x) && rev(y) {
            kinds.insert("revocation change id differs");
        } else {
            kinds.insert("expiry differs");
        }
    }
    kinds.into_iter().collect::<Vec<_>>().join(" + ")
}

pub struct SessScenario;
impl Scenario for SessScenario {
    fn property(&self) -> &'static str {
        "C11"
    }
    fn engine(&self) -> &'static str {
        "E1 cluster/sessions"
    }
    fn budget(&self, tier: Tier) -> Budget {
        match tier {
            Tier::Quick => Budget { runs: 160, wall_cap_s: 150 },
            Tier::Thorough => Budget { runs: 20_000, wall_cap_s: 1500 },
        }
    }
    fn generate(&self, seed: u64, tier: Tier) -> Plan {
        generate(seed, tier)
    }
    fn execute(&self, plan: &Plan) -> Outcome {
        execute(plan)
    }
    fn rule(&self) -> String {
        "A run = a seeded history of 6–36 operations on one account spread over 2–3 real replicas (login-session and OAuth2-session records written, re-written with other expiries and revoked, unrelated edits, interleaved pulls, clock advances), executed three times from scratch and each time brought to quiescence under a different seeded order of pulls with duplicate deliveries. Checked: duplicate delivery after quiescence changes nothing; all replicas hold the same session states; every session revoked anywhere is revoked everywhere; the three orders end in the same state. distinct_nontrivial = distinct final session-state digests.".into()
    }
    fn components(&self) -> J {
        json!({"real": ["kanidmd_lib replication supplier/consumer, Entry::merge_state, ValueSetSession / ValueSetOauth2Session repl_merge_valueset, session-consistency plugin"], "stub": ["replication transport (JSON-encoded contexts handed over by the simulator)", "wall clock", "OS entropy"], "not_run": ["key-state and audit-log merges (key states are exercised by C34)"]})
    }
    fn assumptions(&self) -> Vec<String> {
        vec!["session records are written directly as values by the internal identity (the IDM paths that write them are exercised by C32/C36)".into(), "sampled, not exhaustive".into()]
    }
}

pub fn scenarios() -> Vec<Box<dyn Scenario>> {
    vec![Box::new(SessScenario)]
}
