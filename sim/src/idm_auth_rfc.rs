//! Harness-side RFC 4226 / RFC 6238 reference: own HMAC construction (RFC 2104, keys longer than the
//! block are hashed first), own SHA-1, SHA-256/512 from the `sha2` crate. Self-tested against the
//! RFC 6238 appendix B vectors, RFC 2202 / RFC 4231 long-key HMAC vectors at start-up.
use sha2::{Digest, Sha256, Sha512};

#[derive(Clone, Copy, Debug, PartialEq, Eq)]
pub enum Algo {
    Sha1,
    Sha256,
    Sha512,
}

impl Algo {
    pub fn name(self) -> &'static str {
        match self {
            Algo::Sha1 => "sha1",
            Algo::Sha256 => "sha256",
            Algo::Sha512 => "sha512",
        }
    }
    pub fn parse(s: &str) -> Option<Algo> {
        match s {
            "sha1" => Some(Algo::Sha1),
            "sha256" => Some(Algo::Sha256),
            "sha512" => Some(Algo::Sha512),
            _ => None,
        }
    }
    pub fn block(self) -> usize {
        match self {
            Algo::Sha1 | Algo::Sha256 => 64,
            Algo::Sha512 => 128,
        }
    }
    fn hash(self, d: &[u8]) -> Vec<u8> {
        match self {
            Algo::Sha1 => sha1(d).to_vec(),
            Algo::Sha256 => Sha256::digest(d).to_vec(),
            Algo::Sha512 => Sha512::digest(d).to_vec(),
        }
    }
}

pub fn sha1(data: &[u8]) -> [u8; 20] {
    let mut h: [u32; 5] = [0x67452301, 0xEFCDAB89, 0x98BADCFE, 0x10325476, 0xC3D2E1F0];
    let ml = (data.len() as u64).wrapping_mul(8);
    let mut m = data.to_vec();
    m.push(0x80);
    while m.len() % 64 != 56 {
        m.push(0);
    }
    m.extend_from_slice(&ml.to_be_bytes());
    for chunk in m.chunks(64) {
        let mut w = [0u32; 80];
        for i in 0..16 {
            w[i] = u32::from_be_bytes([chunk[4 * i], chunk[4 * i + 1], chunk[4 * i + 2], chunk[4 * i + 3]]);
        }
        for i in 16..80 {
            w[i] = (w[i - 3] ^ w[i - 8] ^ w[i - 14] ^ w[i - 16]).rotate_left(1);
        }
        let (mut a, mut b, mut c, mut d, mut e) = (h[0], h[1], h[2], h[3], h[4]);
        for (i, wi) in w.iter().enumerate() {
            let (f, k) = match i {
                0..=19 => ((b & c) | ((!b) & d), 0x5A827999u32),
                20..=39 => (b ^ c ^ d, 0x6ED9EBA1),
                40..=59 => ((b & c) | (b & d) | (c & d), 0x8F1BBCDC),
                _ => (b ^ c ^ d, 0xCA62C1D6),
            };
            let t = a.rotate_left(5).wrapping_add(f).wrapping_add(e).wrapping_add(k).wrapping_add(*wi);
            e = d;
            d = c;
            c = b.rotate_left(30);
            b = a;
            a = t;
        }
        h[0] = h[0].wrapping_add(a);
        h[1] = h[1].wrapping_add(b);
        h[2] = h[2].wrapping_add(c);
        h[3] = h[3].wrapping_add(d);
        h[4] = h[4].wrapping_add(e);
    }
    let mut out = [0u8; 20];
    for i in 0..5 {
        out[4 * i..4 * i + 4].copy_from_slice(&h[i].to_be_bytes());
    }
    out
}

pub fn hmac(algo: Algo, key: &[u8], msg: &[u8]) -> Vec<u8> {
    let b = algo.block();
    let mut k = if key.len() > b { algo.hash(key) } else { key.to_vec() };
    k.resize(b, 0);
    let mut inner: Vec<u8> = k.iter().map(|x| x ^ 0x36).collect();
    inner.extend_from_slice(msg);
    let ih = algo.hash(&inner);
    let mut outer: Vec<u8> = k.iter().map(|x| x ^ 0x5c).collect();
    outer.extend_from_slice(&ih);
    algo.hash(&outer)
}

pub fn pow10(d: u32) -> u64 {
    10u64.pow(d)
}

/// RFC 4226 HOTP value with `digits` decimal digits.
pub fn hotp(algo: Algo, key: &[u8], counter: u64, digits: u32) -> u32 {
    let mac = hmac(algo, key, &counter.to_be_bytes());
    let off = (mac[mac.len() - 1] & 0x0f) as usize;
    let bin = u32::from_be_bytes([mac[off], mac[off + 1], mac[off + 2], mac[off + 3]]) & 0x7fff_ffff;
    (bin as u64 % pow10(digits)) as u32
}

/// RFC 6238 time-step counter for a time in whole seconds.
pub fn counter(t_secs: u64, step: u64) -> u64 {
    t_secs / step
}

fn hex(b: &[u8]) -> String {
    b.iter().map(|x| format!("{x:02x}")).collect()
}

pub fn self_test() -> Result<(), String> {
    // FIPS 180 SHA-1 vectors
    if hex(&sha1(b"abc")) != "a9993e364706816aba3e25717850c26c9cd0d89d" {
        return Err("sha1(abc)".into());
    }
    if hex(&sha1(b"abcdbcdecdefdefgefghfghighijhijkijkljklmklmnlmnomnopnopq")) != "84983e441c3bd26ebaae4aa1f95129e5e54670f1" {
        return Err("sha1(2 blocks)".into());
    }
    // RFC 2202 case 6 / RFC 4231 case 6: key longer than the block size is hashed first
    let k80 = [0xaau8; 80];
    if hex(&hmac(Algo::Sha1, &k80, b"Test Using Larger Than Block-Size Key - Hash Key First")) != "aa4ae5e15272d00e95705637ce8a3b55ed402112" {
        return Err("hmac-sha1 long key".into());
    }
    let k131 = [0xaau8; 131];
    if hex(&hmac(Algo::Sha256, &k131, b"Test Using Larger Than Block-Size Key - Hash Key First")) != "60e431591ee0b67f0d8a26aacbf5b77f8e0bc6213728c5140546040f0ee37f54" {
        return Err("hmac-sha256 long key".into());
    }
    if hex(&hmac(Algo::Sha512, &k131, b"Test Using Larger Than Block-Size Key - Hash Key First"))
        != "80b24263c7c1a3ebb71493c1dd7be8b49b46d1f41b4aeec1121b013783f8f3526b56d037e05f2598bd0fd2215d6a1e5295e64f73f63f0aec8b915a985d786598"
    {
        return Err("hmac-sha512 long key".into());
    }
    // RFC 6238 appendix B (8 digits, step 30)
    let k1 = b"12345678901234567890".to_vec();
    let k256 = b"12345678901234567890123456789012".to_vec();
    let k512 = b"1234567890123456789012345678901234567890123456789012345678901234".to_vec();
    let v: [(u64, u32, u32, u32); 6] = [
        (59, 94287082, 46119246, 90693936),
        (1111111109, 7081804, 68084774, 25091201),
        (1111111111, 14050471, 67062674, 99943326),
        (1234567890, 89005924, 91819424, 93441116),
        (2000000000, 69279037, 90698825, 38618901),
        (20000000000, 65353130, 77737706, 47863826),
    ];
    for (t, a, b, c) in v {
        let ctr = counter(t, 30);
        if hotp(Algo::Sha1, &k1, ctr, 8) != a {
            return Err(format!("rfc6238 sha1 t={t}"));
        }
        if hotp(Algo::Sha256, &k256, ctr, 8) != b {
            return Err(format!("rfc6238 sha256 t={t}"));
        }
        if hotp(Algo::Sha512, &k512, ctr, 8) != c {
            return Err(format!("rfc6238 sha512 t={t}"));
        }
    }
    // RFC 4226 appendix D (6 digits, counter 0..2)
    for (c, want) in [(0u64, 755224u32), (1, 287082), (2, 359152)] {
        if hotp(Algo::Sha1, &k1, c, 6) != want {
            return Err(format!("rfc4226 counter {c}"));
        }
    }
    Ok(())
}
