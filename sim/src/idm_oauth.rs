//! E5 idm/oauth2 — C38 (authorisation only on registered terms) and C39 (tokens redeemable only as
//! issued). One real kanidm server (QueryServer + IdmServer, production boot path, in-memory or
//! file-backed SQLite), a simulated clock, the delayed-action queue under simulator control, and
//! an explicit event list: client (re)configuration, memberships, logins, authorisation requests
//! with mutated parameters, consent permits, code exchanges, refreshes, introspection, userinfo,
//! revocations, logouts, account validity changes, restarts. A harness-side ledger records what
//! was registered and issued; the oracles are one-sided (a rejection is never a violation).
use crate::cluster::BASE_EPOCH;
use crate::driver::{Budget, Outcome, Plan, Scenario, Tier};
use crate::node::{block, boot_idm, boot_qs, poll_now, Idm, NodeCfg, Scratch};
use crate::rng::{fnv64, uuid_for, Rng};
use base64::Engine as _;
use compact_jwt::JwsCompact;
use kanidm_proto::oauth2::{
    AccessTokenIntrospectRequest, AccessTokenRequest, AccessTokenResponse, AuthorisationRequest, ClientPostAuth, GrantTypeReq,
    TokenRevokeRequest,
};
use kanidm_proto::v1::{AuthIssueSession, AuthMech};
use kanidmd_lib::entry::{Entry, EntryInit, EntryNew};
use kanidmd_lib::idm::account::DestroySessionTokenEvent;
use kanidmd_lib::idm::authentication::{AuthCredential, AuthState};
use kanidmd_lib::idm::delayed::DelayedAction;
use kanidmd_lib::idm::event::{AuthEvent, AuthEventStep, AuthEventStepCred, AuthEventStepInit, AuthEventStepMech};
use kanidmd_lib::idm::oauth2::{AuthorisationRequestContext, AuthoriseResponse, Oauth2Error};
use kanidmd_lib::idm::server::IdmServerTransaction;
use kanidmd_lib::prelude::*;
use serde::{Deserialize, Serialize};
use serde_json::{json, Value as J};
use sha2::{Digest, Sha256};
use std::collections::{BTreeMap, BTreeSet};
use std::str::FromStr;

const K: u64 = 0x9E37_79B9_7F4A_7C15;
const N_USERS: usize = 4;
const N_GROUPS: usize = 4;
const N_CLIENTS: usize = 3;
const N_LOGINS: usize = 4;
/// Lifetime of an authorisation code ("The exchange must be performed in the next 60 seconds").
const CODE_TTL: u64 = 60;
/// Refresh-token / session lifetime when the client does not configure one.
const DEFAULT_REFRESH_EXPIRY: u64 = 16 * 3600;
const GRACE: u64 = 300;

const SCOPES: [&str; 8] = ["openid", "email", "profile", "groups", "read", "write", "admin_x", "audit"];
const SUP_SCOPES: [&str; 3] = ["sup1", "sup2", "read"];

// ------------------------------------------------------------------------------------------------
// Events
// ------------------------------------------------------------------------------------------------

#[derive(Serialize, Deserialize, Clone, Debug, PartialEq)]
pub struct ClientCfg {
    pub slot: usize,
    pub name: String,
    pub uuid: Uuid,
    pub public: bool,
    pub landing: String,
    pub origins: Vec<String>,
    pub localhost: bool,
    pub disable_pkce: bool,
    pub consent: bool,
    pub strict_attr: Option<bool>,
    /// group key ("og0".., "all_persons", "all_accounts") → scopes
    pub scope_maps: BTreeMap<String, BTreeSet<String>>,
    pub sup_maps: BTreeMap<String, BTreeSet<String>>,
    pub refresh_expiry: Option<u32>,
    pub legacy_crypto: bool,
}

#[derive(Serialize, Deserialize, Clone, Debug)]
#[serde(tag = "k", rename_all = "snake_case")]
pub enum Ev {
    Adv { id: u64, secs: u64 },
    Login { id: u64, slot: usize, user: String, good_pw: bool },
    Deliver { id: u64, rev: bool },
    DropDelayed { id: u64 },
    ClientSet { id: u64, c: ClientCfg },
    ClientDel { id: u64, slot: usize },
    Members { id: u64, group: usize, users: Vec<usize>, groups: Vec<usize> },
    Acct { id: u64, user: usize, expire: Option<u64>, valid_from: Option<u64> },
    Touch { id: u64, user: usize },
    Authz { id: u64, login: usize, req: J, resumed: bool },
    Permit { id: u64, authz: u64, login: usize },
    Exchange { id: u64, authz: u64, client: String, auth: String, redirect: String, verifier: Option<String> },
    Refresh { id: u64, tok: u64, client: String, auth: String, scope: Option<Vec<String>> },
    Introspect { id: u64, tok: u64, which: String },
    Userinfo { id: u64, tok: u64, client: String },
    Revoke { id: u64, tok: u64, which: String },
    Logout { id: u64, login: usize },
    Restart { id: u64 },
}

impl Ev {
    fn id(&self) -> u64 {
        match self {
            Ev::Adv { id, .. } | Ev::Login { id, .. } | Ev::Deliver { id, .. } | Ev::DropDelayed { id } | Ev::ClientSet { id, .. }
            | Ev::ClientDel { id, .. } | Ev::Members { id, .. } | Ev::Acct { id, .. } | Ev::Touch { id, .. } | Ev::Authz { id, .. }
            | Ev::Permit { id, .. } | Ev::Exchange { id, .. } | Ev::Refresh { id, .. } | Ev::Introspect { id, .. }
            | Ev::Userinfo { id, .. } | Ev::Revoke { id, .. } | Ev::Logout { id, .. } | Ev::Restart { id } => *id,
        }
    }
    fn kind(&self) -> &'static str {
        match self {
            Ev::Adv { .. } => "adv",
            Ev::Login { .. } => "login",
            Ev::Deliver { .. } => "deliver",
            Ev::DropDelayed { .. } => "drop_delayed",
            Ev::ClientSet { .. } => "client_set",
            Ev::ClientDel { .. } => "client_del",
            Ev::Members { .. } => "members",
            Ev::Acct { .. } => "acct",
            Ev::Touch { .. } => "touch",
            Ev::Authz { .. } => "authz",
            Ev::Permit { .. } => "permit",
            Ev::Exchange { .. } => "exchange",
            Ev::Refresh { .. } => "refresh",
            Ev::Introspect { .. } => "introspect",
            Ev::Userinfo { .. } => "userinfo",
            Ev::Revoke { .. } => "revoke",
            Ev::Logout { .. } => "logout",
            Ev::Restart { .. } => "restart",
        }
    }
}

// ------------------------------------------------------------------------------------------------
// Names, uuids, helpers
// ------------------------------------------------------------------------------------------------

fn user_name(i: usize) -> String {
    format!("ou{i}")
}
fn user_uuid(i: usize) -> Uuid {
    uuid_for(0xa, i as u64)
}
fn user_pw(i: usize) -> String {
    format!("sim-Passw0rd-for-ou{i}-x9")
}
fn group_name(i: usize) -> String {
    format!("og{i}")
}
fn group_uuid(i: usize) -> Uuid {
    uuid_for(0xb, i as u64)
}
fn client_name(slot: usize) -> String {
    format!("oc{slot}")
}
fn group_key_uuid(k: &str) -> Option<Uuid> {
    match k {
        "all_persons" => Some(UUID_IDM_ALL_PERSONS),
        "all_accounts" => Some(UUID_IDM_ALL_ACCOUNTS),
        _ => k.strip_prefix("og").and_then(|n| n.parse::<usize>().ok()).filter(|n| *n < N_GROUPS).map(group_uuid),
    }
}

pub fn s256_challenge_b64(verifier: &str) -> String {
    let d = Sha256::digest(verifier.as_bytes());
    base64::engine::general_purpose::URL_SAFE_NO_PAD.encode(d.as_slice())
}

fn norm_url(s: &str) -> Option<String> {
    Url::parse(s).ok().map(|u| u.as_str().to_string())
}

/// The oracle's own definition of a loopback redirect (RFC 8252 §7.3 plus the `localhost` name
/// kanidm documents): an http(s) URI whose host is 127.0.0.0/8, ::1 or exactly `localhost`.
fn loopback_class(u: &Url) -> (bool, bool) {
    let host_local = match u.host() {
        Some(url::Host::Ipv4(ip)) => ip.octets()[0] == 127,
        Some(url::Host::Ipv6(ip)) => ip == std::net::Ipv6Addr::LOCALHOST,
        Some(url::Host::Domain(d)) => d == "localhost",
        None => false,
    };
    let web = u.scheme() == "http" || u.scheme() == "https";
    (host_local, web)
}

fn cai_none() -> ClientAuthInfo {
    ClientAuthInfo::new(Source::Internal, None, None, None)
}
fn cai_bearer(tok: &str) -> Option<ClientAuthInfo> {
    JwsCompact::from_str(tok).ok().map(|j| ClientAuthInfo::new(Source::Internal, None, Some(j), None))
}

fn h(s: &str) -> u64 {
    fnv64(s.as_bytes())
}

// ------------------------------------------------------------------------------------------------
// Ledger (harness-side model)
// ------------------------------------------------------------------------------------------------

#[derive(Clone, Debug)]
struct MClient {
    cfg: ClientCfg,
    secret: Option<String>,
    changes: u32,
}

#[derive(Clone, Debug, Default)]
struct MLogin {
    user: String, // "ouN" or "anonymous"
    token: String,
    session_id: Uuid,
    #[allow(dead_code)]
    account: Uuid,
    issued: u64,
    uat_expiry: Option<u64>,
    delivered: bool,
    lost: bool,
    logged_out: bool,
}

/// What an authorisation request was evaluated against (terms at request time).
#[derive(Clone, Debug)]
struct MAuthz {
    login: usize,
    user: String,
    client_slot: usize,
    client_uuid: Uuid,
    redirect: String,
    challenge: Option<String>, // S256 challenge recorded with the request (raw b64url string)
    requested: BTreeSet<String>,
    expected_scopes: BTreeSet<String>,
    cfg_at: ClientCfg,
    consent_token: Option<String>,
    code: Option<String>,
    code_issued: u64,
}

#[derive(Clone, Debug)]
struct MSession {
    client_slot: usize,
    client_uuid: Uuid,
    user: usize,
    login: usize,
    from_authz: u64,
    orig_scopes: BTreeSet<String>,
    revoked: bool,
    /// a rotated refresh token was presented validly: the session must be dead from now on
    reuse: Option<&'static str>,
    last_issue: u64,
    last_rexp: u64,
    /// issue instant / expiry of the last issuance whose expiry exceeded every earlier one of this
    /// session (used only to categorise a finding's history, never to decide one)
    rec_issue: u64,
    rec_exp: u64,
}

#[derive(Clone, Debug)]
struct MTok {
    session: usize,
    access: String,
    refresh: Option<String>,
    iat: u64,
    expires_in: u64,
    rexp: u64,
    rotated: bool,
}

#[derive(Default)]
struct Model {
    clients: BTreeMap<usize, MClient>,
    members_u: BTreeMap<usize, BTreeSet<usize>>, // group → users
    members_g: BTreeMap<usize, BTreeSet<usize>>, // group → groups
    expire: BTreeMap<usize, u64>,
    valid_from: BTreeMap<usize, u64>,
    logins: BTreeMap<usize, MLogin>,
    authz: BTreeMap<u64, MAuthz>,
    sessions: Vec<MSession>,
    toks: BTreeMap<u64, MTok>,
}

impl Model {
    fn groups_of(&self, user: usize) -> BTreeSet<usize> {
        let mut out: BTreeSet<usize> = BTreeSet::new();
        for (g, us) in &self.members_u {
            if us.contains(&user) {
                out.insert(*g);
            }
        }
        loop {
            let mut add = vec![];
            for (g, gs) in &self.members_g {
                if !out.contains(g) && gs.iter().any(|x| out.contains(x)) {
                    add.push(*g);
                }
            }
            if add.is_empty() {
                break;
            }
            out.extend(add);
        }
        out
    }
    fn holds(&self, user: &str, key: &str) -> bool {
        if user == "anonymous" {
            return key == "all_accounts";
        }
        let Some(u) = user.strip_prefix("ou").and_then(|n| n.parse::<usize>().ok()) else { return false };
        match key {
            "all_persons" | "all_accounts" => true,
            _ => key.strip_prefix("og").and_then(|n| n.parse::<usize>().ok()).map(|g| self.groups_of(u).contains(&g)).unwrap_or(false),
        }
    }
    fn held_scopes(&self, user: &str, maps: &BTreeMap<String, BTreeSet<String>>) -> BTreeSet<String> {
        maps.iter().filter(|(k, _)| self.holds(user, k)).flat_map(|(_, v)| v.iter().cloned()).collect()
    }
    fn client_by_id(&self, client_id: &str) -> Option<&MClient> {
        let l = client_id.to_lowercase();
        self.clients.values().find(|c| c.cfg.name == l)
    }
    fn account_reason(&self, user: usize, ct: u64) -> Option<&'static str> {
        if let Some(e) = self.expire.get(&user) {
            if ct > *e {
                return Some("account_expired");
            }
        }
        if let Some(v) = self.valid_from.get(&user) {
            if ct < *v {
                return Some("account_not_yet_valid");
            }
        }
        None
    }
    fn digest(&self) -> u64 {
        let mut s = String::new();
        for (k, c) in &self.clients {
            s.push_str(&format!("c{k}:{};", serde_json::to_string(&c.cfg).unwrap_or_default()));
        }
        s.push_str(&format!("{:?}{:?}{:?}{:?}", self.members_u, self.members_g, self.expire, self.valid_from));
        for (k, l) in &self.logins {
            s.push_str(&format!("l{k}:{}:{}:{}:{};", l.user, l.delivered, l.lost, l.logged_out));
        }
        for (k, a) in &self.authz {
            s.push_str(&format!("a{k}:{}:{}:{:?};", a.consent_token.is_some(), a.code.is_some(), a.expected_scopes));
        }
        for x in &self.sessions {
            s.push_str(&format!("s{}:{}:{}:{:?}:{:?};", x.client_slot, x.user, x.revoked, x.reuse, x.orig_scopes));
        }
        for (k, t) in &self.toks {
            s.push_str(&format!("t{k}:{}:{};", t.session, t.rotated));
        }
        h(&s)
    }
}

// ------------------------------------------------------------------------------------------------
// World: the real server + the ledger
// ------------------------------------------------------------------------------------------------

struct World {
    seed: u64,
    now: u64,
    scratch: Option<Scratch>,
    idm: Option<Idm>,
    m: Model,
    out: Outcome,
    step: usize,
    kinds: Vec<u64>,
    codes_issued: u64,
    tokens_issued: u64,
    misuse: u64,
}

fn person(i: usize, ct: Duration) -> Result<Entry<EntryInit, EntryNew>, String> {
    let p = kanidm_lib_crypto::CryptoPolicy::danger_test_minimum();
    let cred = kanidmd_lib::credential::Credential::new_password_only(&p, &user_pw(i), time::OffsetDateTime::UNIX_EPOCH + ct)
        .map_err(|e| format!("cred: {e:?}"))?;
    let mut e: Entry<EntryInit, EntryNew> = entry_init!(
        (Attribute::Class, EntryClass::Object.to_value()),
        (Attribute::Class, EntryClass::Account.to_value()),
        (Attribute::Class, EntryClass::Person.to_value()),
        (Attribute::Name, Value::new_iname(&user_name(i))),
        (Attribute::Uuid, Value::Uuid(user_uuid(i))),
        (Attribute::Description, Value::new_utf8s("sim user")),
        (Attribute::DisplayName, Value::new_utf8s(&user_name(i)))
    );
    e.add_ava(Attribute::PrimaryCredential, Value::new_credential("primary", cred));
    Ok(e)
}

fn group_entry(i: usize) -> Entry<EntryInit, EntryNew> {
    entry_init!(
        (Attribute::Class, EntryClass::Object.to_value()),
        (Attribute::Class, EntryClass::Group.to_value()),
        (Attribute::Name, Value::new_iname(&group_name(i))),
        (Attribute::Uuid, Value::Uuid(group_uuid(i)))
    )
}

fn client_values(c: &ClientCfg) -> Result<Vec<(Attribute, Vec<Value>)>, String> {
    let mut v: Vec<(Attribute, Vec<Value>)> = vec![];
    v.push((Attribute::DisplayName, vec![Value::new_utf8s(&c.name)]));
    v.push((Attribute::OAuth2RsOriginLanding, vec![Value::new_url_s(&c.landing).ok_or("landing url")?]));
    let mut o = vec![];
    for s in &c.origins {
        o.push(Value::new_url_s(s).ok_or_else(|| format!("origin url {s}"))?);
    }
    v.push((Attribute::OAuth2RsOrigin, o));
    let mut sm = vec![];
    for (k, s) in &c.scope_maps {
        let u = group_key_uuid(k).ok_or("group key")?;
        sm.push(Value::new_oauthscopemap(u, s.clone()).ok_or("scope map")?);
    }
    v.push((Attribute::OAuth2RsScopeMap, sm));
    let mut sp = vec![];
    for (k, s) in &c.sup_maps {
        let u = group_key_uuid(k).ok_or("group key")?;
        sp.push(Value::new_oauthscopemap(u, s.clone()).ok_or("sup scope map")?);
    }
    v.push((Attribute::OAuth2RsSupScopeMap, sp));
    v.push((Attribute::OAuth2StrictRedirectUri, c.strict_attr.map(Value::new_bool).into_iter().collect()));
    v.push((Attribute::OAuth2RefreshTokenExpiry, c.refresh_expiry.map(Value::new_uint32).into_iter().collect()));
    v.push((Attribute::OAuth2JwtLegacyCryptoEnable, vec![Value::new_bool(c.legacy_crypto)]));
    if c.public {
        v.push((Attribute::OAuth2AllowLocalhostRedirect, vec![Value::new_bool(c.localhost)]));
    } else {
        v.push((Attribute::OAuth2AllowInsecureClientDisablePkce, vec![Value::new_bool(c.disable_pkce)]));
        v.push((Attribute::OAuth2ConsentPromptEnable, vec![Value::new_bool(c.consent)]));
    }
    Ok(v)
}

impl World {
    fn ct(&self) -> Duration {
        Duration::from_secs(self.now)
    }
    fn enter(&self, id: u64) {
        crate::entropy::swap_stream(Some(Rng::new(self.seed ^ id.wrapping_mul(K))));
    }
    fn idms(&self) -> &IdmServer {
        &self.idm.as_ref().expect("idm").idms
    }

    fn boot(&mut self) -> Result<(), String> {
        let ct = self.ct();
        let cfg = match &self.scratch {
            Some(s) => NodeCfg::file(&s.path().join("kanidm.db")),
            None => NodeCfg::mem(),
        };
        let qs = boot_qs(&cfg, ct).map_err(|e| format!("boot qs: {e:?}"))?;
        let idm = boot_idm(qs, ct).map_err(|e| format!("boot idm: {e:?}"))?;
        self.idm = Some(idm);
        Ok(())
    }

    fn new(seed: u64, file: bool) -> Result<World, String> {
        let scratch = if file { Some(Scratch::new(&format!("oa-{seed:x}"))) } else { None };
        let mut w = World {
            seed,
            now: BASE_EPOCH,
            scratch,
            idm: None,
            m: Model::default(),
            out: Outcome::default(),
            step: 0,
            kinds: vec![],
            codes_issued: 0,
            tokens_issued: 0,
            misuse: 0,
        };
        crate::entropy::swap_stream(Some(Rng::new(seed ^ 0xB007)));
        w.boot()?;
        let ct = w.ct();
        let mut es = vec![];
        for i in 0..N_USERS {
            es.push(person(i, ct)?);
        }
        for i in 0..N_GROUPS {
            es.push(group_entry(i));
        }
        let mut wr = block(w.idms().proxy_write(ct)).map_err(|e| format!("proxy_write: {e:?}"))?;
        wr.qs_write.internal_create(es).map_err(|e| format!("create users/groups: {e:?}"))?;
        wr.commit().map_err(|e| format!("commit setup: {e:?}"))?;
        for p in [
            "authz_permitted", "authz_consent", "authz_rejected", "authz_auth_required", "authz_reauth_required", "authz_decode_rejected",
            "authz_loopback_code", "authz_app_uri_code", "authz_accepted_malformed_challenge", "authz_after_reconfigure", "pkce_plain_dropped_by_decoder",
            "permit_ok", "permit_rejected", "permit_after_terms_changed", "exchange_ok", "exchange_rejected", "code_redeemed_twice",
            "code_exchange_ok_account_invalid", "refresh_ok", "refresh_rejected", "refresh_rotated_presented", "refresh_reuse_detected_valid",
            "introspect_active", "introspect_inactive", "userinfo_ok", "userinfo_rejected", "revoke_ok", "revoke_expired_token_noop",
            "logout_ok", "logout_rejected", "delayed_delivered", "delayed_late_over_grace", "restart", "client_reconfigured",
            "client_deleted", "client_set_rejected", "use_ok_parent_record_missing_in_grace", "use_ok_after_parent_uat_expiry",
            "token_ok_other_client",
        ] {
            w.out.probe0(p);
        }
        Ok(w)
    }

    fn violate(&mut self, prop: &str, oracle: &str, sig: &str, summary: String) {
        let step = self.step;
        self.out.violate(prop, oracle, sig, summary, step);
    }

    // ---- server operations ------------------------------------------------------------------

    fn do_login(&mut self, user: &str, pw: Option<String>) -> Result<String, String> {
        let ct = self.ct();
        let idms = self.idms();
        let mut a = block(idms.auth()).map_err(|e| format!("{e:?}"))?;
        let init = AuthEvent {
            ident: None,
            step: AuthEventStep::Init(AuthEventStepInit { username: user.to_string(), issue: AuthIssueSession::Token, privileged: false }),
        };
        let r1 = block(a.auth(&init, ct, cai_none())).map_err(|e| format!("init {e:?}"))?;
        let sid = r1.sessionid;
        let mech = if pw.is_some() { AuthMech::Password } else { AuthMech::Anonymous };
        let begin = AuthEvent { ident: None, step: AuthEventStep::Begin(AuthEventStepMech { sessionid: sid, mech }) };
        let r2 = block(a.auth(&begin, ct, cai_none())).map_err(|e| format!("begin {e:?}"))?;
        if !matches!(r2.state, AuthState::Continue(_)) {
            let _ = a.commit();
            return Err("begin: not continue".into());
        }
        a.commit().map_err(|e| format!("{e:?}"))?;
        let mut a = block(idms.auth()).map_err(|e| format!("{e:?}"))?;
        let cred = match pw {
            Some(p) => AuthCredential::Password(p),
            None => AuthCredential::Anonymous,
        };
        let step = AuthEvent { ident: None, step: AuthEventStep::Cred(AuthEventStepCred { sessionid: sid, cred }) };
        let r3 = block(a.auth(&step, ct, cai_none()));
        let res = match r3 {
            Ok(r) => match r.state {
                AuthState::Success(tok, _) => Ok(tok.to_string()),
                AuthState::Denied(s) => Err(format!("denied {s}")),
                _ => Err("unexpected auth state".into()),
            },
            Err(e) => Err(format!("cred {e:?}")),
        };
        let _ = a.commit();
        res
    }

    fn drain_delayed(&mut self) -> Vec<DelayedAction> {
        let mut all = vec![];
        if let Some(idm) = self.idm.as_mut() {
            loop {
                let mut buf: Vec<DelayedAction> = Vec::with_capacity(16);
                match poll_now(idm.delayed.recv_many(&mut buf)) {
                    Some(n) if n > 0 => all.append(&mut buf),
                    _ => break,
                }
            }
        }
        all
    }

    fn client_auth(&self, client: &str, auth: &str) -> (ClientAuthInfo, ClientPostAuth) {
        let secret = self.m.client_by_id(client).and_then(|c| c.secret.clone());
        let b64 = |s: String| base64::engine::general_purpose::STANDARD.encode(s.as_bytes());
        match auth {
            "basic" => (
                ClientAuthInfo::new(Source::Internal, None, None, Some(b64(format!("{client}:{}", secret.unwrap_or_else(|| "nosecret".into()))))),
                ClientPostAuth::default(),
            ),
            "badsecret" => (
                ClientAuthInfo::new(Source::Internal, None, None, Some(b64(format!("{client}:wrong-secret-000")))),
                ClientPostAuth::default(),
            ),
            "post" => (cai_none(), ClientPostAuth { client_id: Some(client.to_string()), client_secret: secret }),
            "post_nosecret" => (cai_none(), ClientPostAuth { client_id: Some(client.to_string()), client_secret: None }),
            _ => (cai_none(), ClientPostAuth::default()),
        }
    }

    /// Was the client authenticated the way the registered client would (model view)?
    fn auth_is_good(&self, client: &str, auth: &str) -> bool {
        match self.m.client_by_id(client) {
            None => false,
            Some(c) if c.cfg.public => matches!(auth, "post" | "post_nosecret" | "basic" | "badsecret"),
            Some(c) => c.secret.is_some() && matches!(auth, "basic" | "post"),
        }
    }

    fn token_exchange(&mut self, cai: &ClientAuthInfo, req: &AccessTokenRequest) -> Result<AccessTokenResponse, Oauth2Error> {
        let ct = self.ct();
        let mut w = block(self.idms().proxy_write(ct)).map_err(Oauth2Error::ServerError)?;
        let resp = w.check_oauth2_token_exchange(cai, req, ct);
        // same commit rule as kanidmd_core::actors::v1_write::handle_oauth2_token_exchange
        match &resp {
            Err(Oauth2Error::InvalidGrant) | Ok(_) => {
                w.commit().map_err(Oauth2Error::ServerError)?;
            }
            _ => {}
        }
        resp
    }
}

// ------------------------------------------------------------------------------------------------
// Event application, part 1: environment events
// ------------------------------------------------------------------------------------------------

impl World {
    fn ev_client_set(&mut self, c: &ClientCfg) -> String {
        let ct = self.ct();
        let existing = self.m.clients.get(&c.slot).map(|x| x.cfg.clone());
        let vals = match client_values(c) {
            Ok(v) => v,
            Err(e) => {
                self.out.harness_error = Some(format!("client cfg not encodable: {e}"));
                return "bad".into();
            }
        };
        let res: Result<(), OperationError> = (|| {
            let mut w = block(self.idms().proxy_write(ct))?;
            match &existing {
                Some(old) if old.uuid == c.uuid && old.public == c.public => {
                    let mut mods = vec![];
                    for (a, vs) in vals {
                        mods.push(Modify::Purged(a.clone()));
                        for v in vs {
                            mods.push(Modify::Present(a.clone(), v));
                        }
                    }
                    w.qs_write.internal_modify(&filter!(f_eq(Attribute::Uuid, PartialValue::Uuid(c.uuid))), &ModifyList::new_list(mods))?;
                }
                other => {
                    if let Some(old) = other {
                        w.qs_write.internal_delete(&filter!(f_eq(Attribute::Uuid, PartialValue::Uuid(old.uuid))))?;
                    }
                    let mut e: Entry<EntryInit, EntryNew> = entry_init!(
                        (Attribute::Class, EntryClass::Object.to_value()),
                        (Attribute::Class, EntryClass::Account.to_value()),
                        (Attribute::Class, EntryClass::OAuth2ResourceServer.to_value()),
                        (Attribute::Uuid, Value::Uuid(c.uuid)),
                        (Attribute::Name, Value::new_iname(&c.name))
                    );
                    e.add_ava(
                        Attribute::Class,
                        if c.public { EntryClass::OAuth2ResourceServerPublic.to_value() } else { EntryClass::OAuth2ResourceServerBasic.to_value() },
                    );
                    for (a, vs) in vals {
                        for v in vs {
                            e.add_ava(a.clone(), v);
                        }
                    }
                    w.qs_write.internal_create(vec![e])?;
                }
            }
            w.commit()
        })();
        match res {
            Ok(()) => {
                // read the generated basic secret back (it is registered state, not a prediction)
                let secret = if c.public {
                    None
                } else {
                    block(self.idms().proxy_read()).ok().and_then(|mut r| {
                        r.qs_read.internal_search_uuid(c.uuid).ok().and_then(|e| e.get_ava_single_secret(Attribute::OAuth2RsBasicSecret).map(str::to_string))
                    })
                };
                if existing.is_some() {
                    self.out.probe("client_reconfigured");
                }
                let changes = self.m.clients.get(&c.slot).map(|x| x.changes + 1).unwrap_or(0);
                self.m.clients.insert(c.slot, MClient { cfg: c.clone(), secret, changes });
                "ok".into()
            }
            Err(e) => {
                self.out.probe("client_set_rejected");
                format!("err:{e:?}")
            }
        }
    }

    fn ev_client_del(&mut self, slot: usize) -> String {
        let ct = self.ct();
        let Some(c) = self.m.clients.get(&slot).cloned() else { return "absent".into() };
        let res: Result<(), OperationError> = (|| {
            let mut w = block(self.idms().proxy_write(ct))?;
            w.qs_write.internal_delete(&filter!(f_eq(Attribute::Uuid, PartialValue::Uuid(c.cfg.uuid))))?;
            w.commit()
        })();
        match res {
            Ok(()) => {
                self.m.clients.remove(&slot);
                self.out.probe("client_deleted");
                "ok".into()
            }
            Err(e) => format!("err:{e:?}"),
        }
    }

    fn modify_uuid(&mut self, u: Uuid, mods: Vec<Modify>) -> Result<(), OperationError> {
        let ct = self.ct();
        let mut w = block(self.idms().proxy_write(ct))?;
        w.qs_write.internal_modify(&filter!(f_eq(Attribute::Uuid, PartialValue::Uuid(u))), &ModifyList::new_list(mods))?;
        w.commit()
    }

    fn ev_members(&mut self, group: usize, users: &[usize], groups: &[usize]) -> String {
        if group >= N_GROUPS {
            return "bad".into();
        }
        let mut mods = vec![Modify::Purged(Attribute::Member)];
        for u in users.iter().filter(|u| **u < N_USERS) {
            mods.push(Modify::Present(Attribute::Member, Value::Refer(user_uuid(*u))));
        }
        for g in groups.iter().filter(|g| **g < N_GROUPS && **g != group) {
            mods.push(Modify::Present(Attribute::Member, Value::Refer(group_uuid(*g))));
        }
        match self.modify_uuid(group_uuid(group), mods) {
            Ok(()) => {
                self.m.members_u.insert(group, users.iter().copied().filter(|u| *u < N_USERS).collect());
                self.m.members_g.insert(group, groups.iter().copied().filter(|g| *g < N_GROUPS && *g != group).collect());
                // cross-check the ledger's transitive membership against the server's memberOf
                if let Err(e) = self.check_memberof() {
                    self.out.harness_error = Some(e);
                }
                "ok".into()
            }
            Err(e) => format!("err:{e:?}"),
        }
    }

    fn check_memberof(&mut self) -> Result<(), String> {
        let mut r = block(self.idms().proxy_read()).map_err(|e| format!("{e:?}"))?;
        for u in 0..N_USERS {
            let e = r.qs_read.internal_search_uuid(user_uuid(u)).map_err(|e| format!("{e:?}"))?;
            let mo: BTreeSet<Uuid> = e.get_ava_refer(Attribute::MemberOf).cloned().unwrap_or_default();
            let want = self.m.groups_of(u);
            for g in 0..N_GROUPS {
                if mo.contains(&group_uuid(g)) != want.contains(&g) {
                    return Err(format!("ledger/server memberOf disagree for ou{u} og{g}: server={} ledger={}", mo.contains(&group_uuid(g)), want.contains(&g)));
                }
            }
            if !mo.contains(&UUID_IDM_ALL_PERSONS) || !mo.contains(&UUID_IDM_ALL_ACCOUNTS) {
                return Err(format!("ou{u} is not in idm_all_persons/idm_all_accounts"));
            }
        }
        Ok(())
    }

    fn ev_acct(&mut self, user: usize, expire: Option<u64>, valid_from: Option<u64>) -> String {
        if user >= N_USERS {
            return "bad".into();
        }
        let mut mods = vec![Modify::Purged(Attribute::AccountExpire), Modify::Purged(Attribute::AccountValidFrom)];
        if let Some(e) = expire {
            mods.push(Modify::Present(Attribute::AccountExpire, Value::new_datetime_epoch(Duration::from_secs(e))));
        }
        if let Some(v) = valid_from {
            mods.push(Modify::Present(Attribute::AccountValidFrom, Value::new_datetime_epoch(Duration::from_secs(v))));
        }
        match self.modify_uuid(user_uuid(user), mods) {
            Ok(()) => {
                match expire {
                    Some(e) => self.m.expire.insert(user, e),
                    None => self.m.expire.remove(&user),
                };
                match valid_from {
                    Some(v) => self.m.valid_from.insert(user, v),
                    None => self.m.valid_from.remove(&user),
                };
                "ok".into()
            }
            Err(e) => format!("err:{e:?}"),
        }
    }

    fn ev_touch(&mut self, id: u64, user: usize) -> String {
        if user >= N_USERS {
            return "bad".into();
        }
        let mods = vec![Modify::Purged(Attribute::Description), Modify::Present(Attribute::Description, Value::new_utf8s(&format!("touched {id}")))];
        match self.modify_uuid(user_uuid(user), mods) {
            Ok(()) => "ok".into(),
            Err(e) => format!("err:{e:?}"),
        }
    }

    fn ev_login(&mut self, slot: usize, user: &str, good_pw: bool) -> String {
        if self.m.logins.contains_key(&slot) {
            return "dup".into();
        }
        let pw = if user == "anonymous" {
            None
        } else {
            let Some(i) = user.strip_prefix("ou").and_then(|n| n.parse::<usize>().ok()).filter(|i| *i < N_USERS) else { return "bad".into() };
            Some(if good_pw { user_pw(i) } else { "definitely-wrong".to_string() })
        };
        match self.do_login(user, pw) {
            Ok(tok) => {
                let ct = self.ct();
                let uat = cai_bearer(&tok).and_then(|cai| {
                    block(self.idms().proxy_read()).ok().and_then(|mut r| r.validate_client_auth_info_to_uat(&cai, ct).ok())
                });
                let Some(uat) = uat else {
                    self.out.harness_error = Some("fresh UAT does not validate".into());
                    return "bad".into();
                };
                self.m.logins.insert(
                    slot,
                    MLogin {
                        user: user.to_string(),
                        token: tok,
                        session_id: uat.session_id,
                        account: uat.uuid,
                        issued: self.now,
                        uat_expiry: uat.expiry.map(|e| e.unix_timestamp().max(0) as u64),
                        delivered: user == "anonymous", // anonymous sessions are not recorded
                        lost: false,
                        logged_out: false,
                    },
                );
                "ok".into()
            }
            Err(e) => format!("err:{}", e.chars().take(40).collect::<String>()),
        }
    }

    fn ev_deliver(&mut self, rev: bool) -> String {
        let ct = self.ct();
        let mut das = self.drain_delayed();
        if das.is_empty() {
            return "none".into();
        }
        if rev {
            das.reverse();
        }
        let mut n = 0;
        let res: Result<(), OperationError> = (|| {
            let mut w = block(self.idms().proxy_write(ct))?;
            for da in &das {
                // same as kanidmd_core: a failing action is logged and skipped
                if w.process_delayedaction(da, ct).is_ok() {
                    n += 1;
                }
            }
            w.commit()
        })();
        if res.is_ok() {
            for da in &das {
                if let DelayedAction::AuthSessionRecord(asr) = da {
                    let now = self.now;
                    let mut late = false;
                    for l in self.m.logins.values_mut() {
                        if l.session_id == asr.session_id {
                            l.delivered = true;
                            late = now >= l.issued + GRACE;
                        }
                    }
                    self.out.probe("delayed_delivered");
                    if late {
                        self.out.probe("delayed_late_over_grace");
                        self.out.fault("session_record_late");
                    }
                }
            }
        }
        format!("{n}/{}:{}", das.len(), res.is_ok())
    }

    fn ev_drop_delayed(&mut self) -> String {
        let das = self.drain_delayed();
        for da in &das {
            if let DelayedAction::AuthSessionRecord(asr) = da {
                for l in self.m.logins.values_mut() {
                    if l.session_id == asr.session_id {
                        l.lost = true;
                    }
                }
                self.out.fault("session_record_lost");
            }
        }
        format!("dropped{}", das.len())
    }

    fn ev_restart(&mut self) -> String {
        if self.scratch.is_none() {
            return "mem".into();
        }
        let pending = self.drain_delayed();
        for da in &pending {
            if let DelayedAction::AuthSessionRecord(asr) = da {
                for l in self.m.logins.values_mut() {
                    if l.session_id == asr.session_id {
                        l.lost = true;
                    }
                }
                self.out.fault("session_record_lost_at_restart");
            }
        }
        self.idm = None;
        match self.boot() {
            Ok(()) => {
                self.out.probe("restart");
                self.out.fault("restart");
                // consent tokens are sealed with a per-process key: pending prompts die with it
                "ok".into()
            }
            Err(e) => {
                self.out.harness_error = Some(format!("restart failed: {e}"));
                "bad".into()
            }
        }
    }

    fn ev_logout(&mut self, login: usize) -> String {
        let ct = self.ct();
        let Some(l) = self.m.logins.get(&login).cloned() else { return "absent".into() };
        let res: Result<(), OperationError> = (|| {
            let cai = cai_bearer(&l.token).ok_or(OperationError::NotAuthenticated)?;
            let mut w = block(self.idms().proxy_write(ct))?;
            let ident = w.validate_client_auth_info_to_ident(cai, ct)?;
            let dte = DestroySessionTokenEvent { target: ident.get_uuid(), token_id: ident.get_session_id(), ident };
            w.account_destroy_session_token(&dte)?;
            w.commit()
        })();
        match res {
            Ok(()) => {
                if let Some(m) = self.m.logins.get_mut(&login) {
                    m.logged_out = true;
                }
                self.out.probe("logout_ok");
                "ok".into()
            }
            Err(e) => {
                self.out.probe("logout_rejected");
                format!("err:{e:?}")
            }
        }
    }
}

// ------------------------------------------------------------------------------------------------
// Event application, part 2: authorisation (C38 oracles)
// ------------------------------------------------------------------------------------------------

fn scope_set(s: &str) -> BTreeSet<String> {
    s.split(' ').filter(|x| !x.is_empty()).map(|x| x.to_string()).collect()
}

fn user_index(user: &str) -> Option<usize> {
    user.strip_prefix("ou").and_then(|n| n.parse::<usize>().ok()).filter(|i| *i < N_USERS)
}

impl World {
    /// C38: the request produced a code or a consent prompt — evaluate the registered terms as
    /// they stand in the ledger at this moment. `granted` = scopes shown by the consent prompt.
    fn check_terms(&mut self, id: u64, login: usize, l: &MLogin, req: &J, granted: Option<&BTreeSet<String>>, outcome: &str) -> Option<MAuthz> {
        let client_id = req["client_id"].as_str().unwrap_or("");
        let Some(c) = self.m.client_by_id(client_id).cloned() else {
            self.violate("C38", "client_registered", "unknown_client", format!("authz {id}: {outcome} for client_id {client_id:?} which is not registered"));
            return None;
        };
        let raw_redirect = req["redirect_uri"].as_str().unwrap_or("");
        let Ok(url) = Url::parse(raw_redirect) else {
            self.out.harness_error = Some(format!("authz {id}: accepted request has unparsable redirect {raw_redirect:?}"));
            return None;
        };
        let redirect = url.as_str().to_string();
        let registered: Vec<String> = std::iter::once(&c.cfg.landing).chain(c.cfg.origins.iter()).filter_map(|s| norm_url(s)).collect();
        let exact = registered.iter().any(|r| *r == redirect);
        let (host_local, web) = loopback_class(&url);
        let loop_ok = c.cfg.public && c.cfg.localhost && host_local && web;
        if !exact && !loop_ok {
            let same_origin = registered.iter().filter_map(|r| Url::parse(r).ok()).any(|r| r.origin() == url.origin() && r.origin().is_tuple());
            let sig = if host_local && !web && c.cfg.public && c.cfg.localhost {
                "loopback_host_non_http_scheme"
            } else if host_local && !(c.cfg.public && c.cfg.localhost) {
                "loopback_without_flag"
            } else if same_origin {
                "same_origin_not_exact"
            } else {
                "unregistered_uri"
            };
            self.violate(
                "C38",
                "redirect_uri",
                sig,
                format!("authz {id}: {outcome} for client {} (public={}, localhost_flag={}) with redirect_uri {redirect:?}; registered: {registered:?}", c.cfg.name, c.cfg.public, c.cfg.localhost),
            );
        } else if !exact {
            self.out.probe("authz_loopback_code");
        } else if !web {
            self.out.probe("authz_app_uri_code");
        }
        if l.user == "anonymous" {
            self.violate("C38", "not_anonymous", "anonymous_user", format!("authz {id}: {outcome} for the anonymous account at client {}", c.cfg.name));
        }
        let requested = scope_set(req["scope"].as_str().unwrap_or(""));
        let held = self.m.held_scopes(&l.user, &c.cfg.scope_maps);
        if !requested.is_subset(&held) {
            let missing: Vec<&String> = requested.difference(&held).collect();
            self.violate(
                "C38",
                "scopes_held",
                "requested_not_in_scope_maps",
                format!("authz {id}: {outcome} for {} at {}: requested {requested:?} but holds only {held:?} (missing {missing:?})", l.user, c.cfg.name),
            );
        }
        let need_pkce = c.cfg.public || !c.cfg.disable_pkce;
        let ch = req.get("code_challenge").and_then(|x| x.as_str());
        let s256 = ch.is_some() && req.get("code_challenge_method").and_then(|x| x.as_str()) == Some("S256");
        if s256 && ch.map(|c| c.len() != 43).unwrap_or(false) {
            // a challenge that is not 32 bytes can never be matched by a verifier: the code is unusable
            self.out.probe("authz_accepted_malformed_challenge");
        }
        if need_pkce && !s256 {
            let sig = if c.cfg.public { "public_client_without_s256" } else { "basic_client_without_s256" };
            self.violate("C38", "pkce_required", sig, format!("authz {id}: {outcome} at {} which requires PKCE, request had challenge={ch:?} method={:?}", c.cfg.name, req.get("code_challenge_method")));
        }
        let sup = self.m.held_scopes(&l.user, &c.cfg.sup_maps);
        let expected: BTreeSet<String> = requested.union(&sup).cloned().collect();
        if let Some(g) = granted {
            self.check_granted(id, "consent_prompt", g, &expected, &requested);
        }
        if c.changes > 0 {
            self.out.probe("authz_after_reconfigure");
        }
        Some(MAuthz {
            login,
            user: l.user.clone(),
            client_slot: c.cfg.slot,
            client_uuid: c.cfg.uuid,
            redirect,
            challenge: if s256 { ch.map(|s| s.to_string()) } else { None },
            requested,
            expected_scopes: expected,
            cfg_at: c.cfg.clone(),
            consent_token: None,
            code: None,
            code_issued: 0,
        })
    }

    fn check_granted(&mut self, id: u64, at: &str, got: &BTreeSet<String>, expected: &BTreeSet<String>, requested: &BTreeSet<String>) {
        if got != expected {
            let extra: Vec<&String> = got.difference(expected).collect();
            let missing: Vec<&String> = expected.difference(got).collect();
            let sig = if !extra.is_empty() { format!("{at}:extra_scopes") } else { format!("{at}:missing_scopes") };
            self.violate(
                "C38",
                "granted_scopes",
                &sig,
                format!("event {id}: granted {got:?}, expected requested {requested:?} + held supplementary = {expected:?} (extra {extra:?}, missing {missing:?})"),
            );
        }
    }

    fn ev_authz(&mut self, id: u64, login: usize, req: &J, resumed: bool) -> String {
        let Some(l) = self.m.logins.get(&login).cloned() else { return "nologin".into() };
        let ar: AuthorisationRequest = match serde_json::from_value(req.clone()) {
            Ok(a) => a,
            Err(_) => {
                self.out.probe("authz_decode_rejected");
                return "decode".into();
            }
        };
        if req.get("code_challenge").is_some() && ar.pkce_request.is_none() {
            self.out.probe("pkce_plain_dropped_by_decoder");
        }
        let ct = self.ct();
        let resp = {
            let Ok(mut r) = block(self.idms().proxy_read()) else { return "notxn".into() };
            // same composition as kanidmd_core::actors::v1_read::handle_oauth2_authorise
            let ident = cai_bearer(&l.token).and_then(|c| r.validate_client_auth_info_to_ident(c, ct).ok());
            let ctx = if resumed { AuthorisationRequestContext::resumed_session() } else { AuthorisationRequestContext::default() };
            r.check_oauth2_authorisation(ident.as_ref(), &ar, &ctx, ct)
        };
        match resp {
            Ok(AuthoriseResponse::Permitted(s)) => {
                self.out.probe("authz_permitted");
                if let Some(mut a) = self.check_terms(id, login, &l, req, None, "code issued") {
                    a.code = Some(s.code);
                    a.code_issued = self.now;
                    self.codes_issued += 1;
                    self.m.authz.insert(id, a);
                }
                "permitted".into()
            }
            Ok(AuthoriseResponse::ConsentRequested { scopes, consent_token, .. }) => {
                self.out.probe("authz_consent");
                if let Some(mut a) = self.check_terms(id, login, &l, req, Some(&scopes), "consent prompt") {
                    a.consent_token = Some(consent_token);
                    self.m.authz.insert(id, a);
                }
                "consent".into()
            }
            Ok(AuthoriseResponse::AuthenticationRequired { .. }) => {
                self.out.probe("authz_auth_required");
                "auth_required".into()
            }
            Ok(AuthoriseResponse::ReauthenticationRequired { .. }) => {
                self.out.probe("authz_reauth_required");
                "reauth_required".into()
            }
            Err(e) => {
                self.out.probe("authz_rejected");
                format!("err:{e:?}").chars().take(40).collect()
            }
        }
    }

    fn ev_permit(&mut self, id: u64, authz: u64, login: usize) -> String {
        let Some(a) = self.m.authz.get(&authz).cloned() else { return "noauthz".into() };
        let Some(tok) = a.consent_token.clone() else { return "noconsent".into() };
        let Some(l) = self.m.logins.get(&login).cloned() else { return "nologin".into() };
        let ct = self.ct();
        // same composition as kanidmd_core::actors::v1_write::handle_oauth2_authorise_permit
        let res: Result<String, OperationError> = (|| {
            let cai = cai_bearer(&l.token).ok_or(OperationError::NotAuthenticated)?;
            let mut w = block(self.idms().proxy_write(ct))?;
            let ident = w.validate_client_auth_info_to_ident(cai, ct)?;
            let s = w.check_oauth2_authorise_permit(&ident, &tok, ct)?;
            w.commit()?;
            Ok(s.code)
        })();
        match res {
            Ok(code) => {
                self.out.probe("permit_ok");
                if l.user != a.user {
                    // the code now belongs to another user: the statement's user conditions apply to them
                    if l.user == "anonymous" {
                        self.violate("C38", "not_anonymous", "anonymous_user_permit", format!("permit {id}: anonymous obtained a code from {}'s consent prompt", a.user));
                    }
                    let held = self.m.held_scopes(&l.user, &a.cfg_at.scope_maps);
                    if !a.requested.is_subset(&held) {
                        self.violate("C38", "scopes_held", "permit_by_other_user", format!("permit {id}: {} permitted {}'s prompt for {:?} but holds {held:?}", l.user, a.user, a.requested));
                    }
                }
                let now_cfg = self.m.clients.get(&a.client_slot).map(|c| c.cfg.clone());
                if now_cfg.as_ref() != Some(&a.cfg_at) {
                    self.out.probe("permit_after_terms_changed");
                }
                self.codes_issued += 1;
                if let Some(m) = self.m.authz.get_mut(&authz) {
                    m.code = Some(code);
                    m.code_issued = self.now;
                    m.login = login;
                    m.user = l.user.clone();
                }
                "ok".into()
            }
            Err(e) => {
                self.out.probe("permit_rejected");
                format!("err:{e:?}")
            }
        }
    }
}

// ------------------------------------------------------------------------------------------------
// Event application, part 3: token endpoint, introspection, userinfo, revocation (C39 oracles)
// ------------------------------------------------------------------------------------------------

impl World {
    /// Reasons known to the ledger for which any token of this session must be rejected now.
    fn dead_reason(&self, s: &MSession) -> Option<&'static str> {
        if self.m.clients.get(&s.client_slot).map(|c| c.cfg.uuid) != Some(s.client_uuid) {
            return Some("client_deleted");
        }
        if s.revoked {
            return Some("session_revoked");
        }
        if self.m.logins.get(&s.login).map(|l| l.logged_out).unwrap_or(false) {
            return Some("parent_login_revoked");
        }
        if let Some(r) = self.m.account_reason(s.user, self.now) {
            return Some(r);
        }
        None
    }

    fn session_expired(&self, s: &MSession) -> bool {
        self.now >= s.last_issue + s.last_rexp
    }

    fn use_probes(&mut self, s: &MSession) {
        if let Some(l) = self.m.logins.get(&s.login).cloned() {
            if !l.delivered {
                self.out.probe("use_ok_parent_record_missing_in_grace");
            }
            if l.uat_expiry.map(|e| self.now > e).unwrap_or(false) {
                self.out.probe("use_ok_after_parent_uat_expiry");
            }
        }
    }

    /// A token of session `si` was accepted at `endpoint`; `tok_expired` = the presented token's own lifetime is over.
    fn check_accept(&mut self, id: u64, endpoint: &str, si: usize, tok_expired: bool) {
        let s = self.m.sessions[si].clone();
        let reason = self.dead_reason(&s).or(if tok_expired { Some("token_expired") } else { None }).or(if self.session_expired(&s) { Some("session_expired") } else { None });
        if let Some(r) = reason {
            self.violate(
                "C39",
                "revoked_or_expired_rejected",
                &format!("{endpoint}:{r}"),
                format!("event {id}: {endpoint} accepted a token of session #{si} (user ou{}, client slot {}) at t={} although {r}; session last issued {} with lifetime {} s", s.user, s.client_slot, self.now, s.last_issue, s.last_rexp),
            );
        }
        if let Some(q) = s.reuse {
            self.violate(
                "C39",
                "refresh_reuse_revokes",
                &format!("session_alive_after_reuse:{endpoint}:{q}"),
                format!("event {id}: {endpoint} accepted a token of session #{si} after an already-rotated refresh token of that session had been presented ({q})"),
            );
        }
        self.use_probes(&s);
    }

    fn ev_exchange(&mut self, id: u64, authz: u64, client: &str, auth: &str, redirect: &str, verifier: &Option<String>) -> String {
        let Some(a) = self.m.authz.get(&authz).cloned() else { return "noauthz".into() };
        let Some(code) = a.code.clone() else { return "nocode".into() };
        let Ok(redirect_url) = Url::parse(redirect) else { return "badurl".into() };
        let (cai, post) = self.client_auth(client, auth);
        let req = AccessTokenRequest {
            grant_type: GrantTypeReq::AuthorizationCode { code, redirect_uri: redirect_url.clone(), code_verifier: verifier.clone() },
            client_post_auth: post,
        };
        let cur = self.m.client_by_id(client).cloned();
        let same_client = cur.as_ref().map(|c| c.cfg.uuid == a.client_uuid).unwrap_or(false);
        let good_auth = self.auth_is_good(client, auth);
        let honest = same_client && good_auth && redirect_url.as_str() == a.redirect && self.now < a.code_issued + CODE_TTL;
        if !honest {
            self.misuse += 1;
        }
        match self.token_exchange(&cai, &req) {
            Ok(resp) => {
                self.out.probe("exchange_ok");
                let mut bad: Vec<&'static str> = vec![];
                if !same_client {
                    bad.push("other_client");
                } else if !good_auth {
                    bad.push("bad_client_auth");
                }
                if self.now >= a.code_issued + CODE_TTL {
                    bad.push("expired_code");
                }
                if redirect_url.as_str() != a.redirect {
                    bad.push("redirect_mismatch");
                }
                if let Some(ch) = &a.challenge {
                    match verifier {
                        None => bad.push("verifier_missing"),
                        Some(v) if s256_challenge_b64(v) != *ch => bad.push("verifier_wrong"),
                        _ => {}
                    }
                }
                for b in bad {
                    self.violate(
                        "C39",
                        "code_redeem",
                        b,
                        format!("exchange {id}: code of authz {authz} (client slot {}, redirect {:?}, challenge {:?}, issued t={}) redeemed at client {client:?} auth={auth} redirect {:?} verifier {verifier:?} at t={}", a.client_slot, a.redirect, a.challenge, a.code_issued, redirect_url.as_str(), self.now),
                    );
                }
                // C38: what the code carried
                self.check_granted(id, "code", &resp.scope, &a.expected_scopes, &a.requested);
                if let Some(u) = user_index(&a.user) {
                    if self.m.account_reason(u, self.now).is_some() {
                        self.out.probe("code_exchange_ok_account_invalid");
                    }
                    let rexp = cur.as_ref().and_then(|c| c.cfg.refresh_expiry).map(|x| x as u64).unwrap_or(DEFAULT_REFRESH_EXPIRY);
                    if self.m.sessions.iter().any(|s| s.from_authz == authz) {
                        self.out.probe("code_redeemed_twice");
                    }
                    self.m.sessions.push(MSession {
                        client_slot: a.client_slot,
                        client_uuid: a.client_uuid,
                        user: u,
                        login: a.login,
                        from_authz: authz,
                        orig_scopes: resp.scope.clone(),
                        revoked: false,
                        reuse: None,
                        last_issue: self.now,
                        last_rexp: rexp,
                        rec_issue: self.now,
                        rec_exp: self.now + rexp,
                    });
                    let si = self.m.sessions.len() - 1;
                    self.m.toks.insert(
                        id,
                        MTok { session: si, access: resp.access_token.clone(), refresh: resp.refresh_token.clone(), iat: self.now, expires_in: resp.expires_in as u64, rexp, rotated: false },
                    );
                    self.tokens_issued += 1;
                }
                "ok".into()
            }
            Err(e) => {
                self.out.probe("exchange_rejected");
                format!("err:{e:?}").chars().take(40).collect()
            }
        }
    }

    fn ev_refresh(&mut self, id: u64, tok: u64, client: &str, auth: &str, scope: &Option<Vec<String>>) -> String {
        let Some(t) = self.m.toks.get(&tok).cloned() else { return "notok".into() };
        let Some(rt) = t.refresh.clone() else { return "norefresh".into() };
        let s = self.m.sessions[t.session].clone();
        let (cai, post) = self.client_auth(client, auth);
        let req_scope: Option<BTreeSet<String>> = scope.as_ref().map(|v| v.iter().cloned().collect());
        let req = AccessTokenRequest { grant_type: GrantTypeReq::RefreshToken { refresh_token: rt, scope: req_scope.clone() }, client_post_auth: post };
        let cur = self.m.client_by_id(client).cloned();
        let same_client = cur.as_ref().map(|c| c.cfg.uuid == s.client_uuid).unwrap_or(false);
        let good_auth = self.auth_is_good(client, auth);
        let tok_expired = self.now >= t.iat + t.rexp;
        let widened = req_scope.as_ref().map(|r| !r.is_subset(&s.orig_scopes)).unwrap_or(false);
        if t.rotated || widened || !same_client || !good_auth || tok_expired || self.dead_reason(&s).is_some() {
            self.misuse += 1;
        }
        let kind: &'static str = if t.iat >= s.last_issue {
            "rotated_within_its_issue_second"
        } else if t.iat >= s.rec_issue {
            "rotated_when_session_expiry_did_not_grow"
        } else {
            "rotated_earlier"
        };
        match self.token_exchange(&cai, &req) {
            Ok(resp) => {
                self.out.probe("refresh_ok");
                if !same_client {
                    self.out.probe("token_ok_other_client");
                }
                if t.rotated {
                    self.violate(
                        "C39",
                        "refresh_reuse_revokes",
                        &format!("rotated_token_accepted:{kind}"),
                        format!("refresh {id}: refresh token of event {tok} (iat {}) had already been rotated, yet it was accepted at t={} (session #{} last issued {})", t.iat, self.now, t.session, s.last_issue),
                    );
                }
                self.check_accept(id, "refresh", t.session, tok_expired);
                if !resp.scope.is_subset(&s.orig_scopes) {
                    let sig = if widened { "widened_request_granted" } else { "unrequested_scopes_added" };
                    self.violate("C39", "refresh_scope", sig, format!("refresh {id}: granted {:?} beyond the original grant {:?} (requested {req_scope:?})", resp.scope, s.orig_scopes));
                }
                let rexp = cur.as_ref().and_then(|c| c.cfg.refresh_expiry).map(|x| x as u64).unwrap_or(DEFAULT_REFRESH_EXPIRY);
                if let Some(m) = self.m.toks.get_mut(&tok) {
                    m.rotated = true;
                }
                let now = self.now;
                let ms = &mut self.m.sessions[t.session];
                ms.last_issue = now;
                ms.last_rexp = rexp;
                if now + rexp > ms.rec_exp {
                    ms.rec_issue = now;
                    ms.rec_exp = now + rexp;
                }
                self.m.toks.insert(
                    id,
                    MTok { session: t.session, access: resp.access_token.clone(), refresh: resp.refresh_token.clone(), iat: now, expires_in: resp.expires_in as u64, rexp, rotated: false },
                );
                self.tokens_issued += 1;
                "ok".into()
            }
            Err(e) => {
                self.out.probe("refresh_rejected");
                if t.rotated {
                    self.out.probe("refresh_rotated_presented");
                    let l = self.m.logins.get(&s.login).cloned();
                    let parent_ok = l.as_ref().map(|l| l.delivered && !l.uat_expiry.map(|e| self.now > e).unwrap_or(false)).unwrap_or(false);
                    let valid_presentation = same_client && good_auth && !tok_expired && self.dead_reason(&s).is_none() && !self.session_expired(&s) && parent_ok;
                    if valid_presentation {
                        self.out.probe("refresh_reuse_detected_valid");
                        if self.m.sessions[t.session].reuse.is_none() {
                            self.m.sessions[t.session].reuse = Some(kind);
                        }
                    }
                }
                format!("err:{e:?}").chars().take(40).collect()
            }
        }
    }

    fn ev_introspect(&mut self, id: u64, tok: u64, which: &str) -> String {
        let Some(t) = self.m.toks.get(&tok).cloned() else { return "notok".into() };
        let token = if which == "refresh" { t.refresh.clone().unwrap_or_default() } else { t.access.clone() };
        let s = self.m.sessions[t.session].clone();
        if self.dead_reason(&s).is_some() || s.reuse.is_some() {
            self.misuse += 1;
        }
        let ct = self.ct();
        let resp = {
            let Ok(mut r) = block(self.idms().proxy_read()) else { return "notxn".into() };
            r.check_oauth2_token_introspect(&AccessTokenIntrospectRequest { token, token_type_hint: None, client_post_auth: ClientPostAuth::default() }, ct)
        };
        match resp {
            Ok(r) if r.active => {
                self.out.probe("introspect_active");
                let tok_expired = if which == "refresh" { self.now >= t.iat + t.rexp } else { self.now >= t.iat + t.expires_in };
                self.check_accept(id, "introspect", t.session, tok_expired);
                if !r.scope.is_subset(&s.orig_scopes) {
                    self.violate("C39", "refresh_scope", "introspected_scopes_beyond_grant", format!("introspect {id}: active with {:?}, original grant {:?}", r.scope, s.orig_scopes));
                }
                "active".into()
            }
            Ok(_) => {
                self.out.probe("introspect_inactive");
                "inactive".into()
            }
            Err(e) => {
                self.out.probe("introspect_inactive");
                format!("err:{e:?}").chars().take(40).collect()
            }
        }
    }

    fn ev_userinfo(&mut self, id: u64, tok: u64, client: &str) -> String {
        let Some(t) = self.m.toks.get(&tok).cloned() else { return "notok".into() };
        let Ok(jws) = JwsCompact::from_str(&t.access) else { return "notjws".into() };
        let s = self.m.sessions[t.session].clone();
        if self.dead_reason(&s).is_some() || s.reuse.is_some() {
            self.misuse += 1;
        }
        let ct = self.ct();
        let resp = {
            let Ok(mut r) = block(self.idms().proxy_read()) else { return "notxn".into() };
            r.oauth2_openid_userinfo(client, &jws, ct)
        };
        match resp {
            Ok(_) => {
                self.out.probe("userinfo_ok");
                if self.m.client_by_id(client).map(|c| c.cfg.uuid) != Some(s.client_uuid) {
                    self.out.probe("token_ok_other_client");
                }
                self.check_accept(id, "userinfo", t.session, self.now >= t.iat + t.expires_in);
                "ok".into()
            }
            Err(e) => {
                self.out.probe("userinfo_rejected");
                format!("err:{e:?}").chars().take(40).collect()
            }
        }
    }

    fn ev_revoke(&mut self, tok: u64, which: &str) -> String {
        let Some(t) = self.m.toks.get(&tok).cloned() else { return "notok".into() };
        let token = if which == "refresh" { t.refresh.clone().unwrap_or_default() } else { t.access.clone() };
        let ct = self.ct();
        let res: Result<(), Oauth2Error> = (|| {
            let mut w = block(self.idms().proxy_write(ct)).map_err(Oauth2Error::ServerError)?;
            w.oauth2_token_revoke(&TokenRevokeRequest { token, token_type_hint: None, client_post_auth: ClientPostAuth::default() }, ct)?;
            w.commit().map_err(Oauth2Error::ServerError)
        })();
        match res {
            Ok(()) => {
                let expired = if which == "refresh" { self.now >= t.iat + t.rexp } else { self.now >= t.iat + t.expires_in };
                if expired {
                    // documented behaviour: revoking with an expired token is a no-op that answers OK
                    self.out.probe("revoke_expired_token_noop");
                } else {
                    self.out.probe("revoke_ok");
                    self.m.sessions[t.session].revoked = true;
                }
                "ok".into()
            }
            Err(e) => format!("err:{e:?}").chars().take(40).collect(),
        }
    }
}

// ------------------------------------------------------------------------------------------------
// Execute
// ------------------------------------------------------------------------------------------------

pub fn execute(plan: &Plan, prop: &str) -> Outcome {
    let file = plan.cfg.get("file").and_then(|x| x.as_bool()).unwrap_or(false);
    let mut w = match World::new(plan.seed, file) {
        Ok(w) => w,
        Err(e) => {
            crate::entropy::swap_stream(None);
            return Outcome { harness_error: Some(format!("setup: {e}")), ..Default::default() };
        }
    };
    for (i, ev) in plan.events.iter().enumerate() {
        w.step = i;
        let Ok(e) = serde_json::from_value::<Ev>(ev.clone()) else { continue };
        w.enter(e.id());
        let prof = std::env::var("VERIF_PROF").is_ok().then(std::time::Instant::now); // stderr diagnostics only
        let res = match &e {
            Ev::Adv { secs, .. } => {
                w.now += *secs;
                "ok".to_string()
            }
            Ev::Login { slot, user, good_pw, .. } => w.ev_login(*slot, user, *good_pw),
            Ev::Deliver { rev, .. } => w.ev_deliver(*rev),
            Ev::DropDelayed { .. } => w.ev_drop_delayed(),
            Ev::ClientSet { c, .. } => w.ev_client_set(c),
            Ev::ClientDel { slot, .. } => w.ev_client_del(*slot),
            Ev::Members { group, users, groups, .. } => w.ev_members(*group, users, groups),
            Ev::Acct { user, expire, valid_from, .. } => w.ev_acct(*user, *expire, *valid_from),
            Ev::Touch { id, user } => w.ev_touch(*id, *user),
            Ev::Authz { id, login, req, resumed } => w.ev_authz(*id, *login, req, *resumed),
            Ev::Permit { id, authz, login } => w.ev_permit(*id, *authz, *login),
            Ev::Exchange { id, authz, client, auth, redirect, verifier } => w.ev_exchange(*id, *authz, client, auth, redirect, verifier),
            Ev::Refresh { id, tok, client, auth, scope } => w.ev_refresh(*id, *tok, client, auth, scope),
            Ev::Introspect { id, tok, which } => w.ev_introspect(*id, *tok, which),
            Ev::Userinfo { id, tok, client } => w.ev_userinfo(*id, *tok, client),
            Ev::Revoke { tok, which, .. } => w.ev_revoke(*tok, which),
            Ev::Logout { login, .. } => w.ev_logout(*login),
            Ev::Restart { .. } => w.ev_restart(),
        };
        if let Some(t0) = prof {
            eprintln!("PROF {} {} {}us {} {}", e.id(), e.kind(), t0.elapsed().as_micros(), res, ev);
        }
        w.kinds.push(h(e.kind()));
        w.out.chain(h(&format!("{}:{}:{}", e.id(), e.kind(), res)));
        // token/code bytes are secrets (thread-local CSPRNG state outlives a run): never part of the trace
        let d = w.m.digest();
        if std::env::var("VERIF_PROF").is_ok() {
            eprintln!("PROF2 {} d={:x}", e.id(), d);
        }
        w.out.chain(d);
        w.out.states.push(d);
        w.out.events_run += 1;
        if w.out.harness_error.is_some() {
            break;
        }
    }
    crate::entropy::swap_stream(None);
    for t in w.kinds.windows(3) {
        w.out.trigrams.push(t[0].rotate_left(7) ^ t[1].rotate_left(3) ^ t[2]);
    }
    w.out.trigrams.sort();
    w.out.trigrams.dedup();
    w.out.states.sort();
    w.out.states.dedup();
    w.out.sim_secs = (w.now - BASE_EPOCH) as f64;
    w.out.nontrivial = w.out.events_run >= 3
        && match prop {
            "C38" => w.codes_issued >= 1,
            _ => w.tokens_issued >= 1 && w.misuse >= 1,
        };
    // drop the server before the scratch directory
    w.idm = None;
    w.out
}

// ------------------------------------------------------------------------------------------------
// Generation
// ------------------------------------------------------------------------------------------------

#[derive(Clone)]
struct GAuthz {
    id: u64,
    login: usize,
    slot: usize,
    redirect: String,
    verifier: Option<String>,
    scopes: BTreeSet<String>,
}

struct Gen {
    r: Rng,
    next: u64,
    evs: Vec<J>,
    now: u64,
    file: bool,
    clients: BTreeMap<usize, ClientCfg>,
    client_gen: u64,
    members_u: BTreeMap<usize, BTreeSet<usize>>,
    members_g: BTreeMap<usize, BTreeSet<usize>>,
    logins: Vec<(usize, String)>,
    authz: Vec<GAuthz>,
    /// token chains: each chain is the list of event ids that (optimistically) produced tokens
    chains: Vec<(usize, Vec<u64>, BTreeSet<String>)>,
    c39: bool,
}

impl Gen {
    fn id(&mut self) -> u64 {
        self.next += 1;
        self.next
    }
    fn push(&mut self, e: Ev) {
        self.evs.push(serde_json::to_value(&e).expect("event json"));
    }
    fn adv(&mut self, secs: u64) {
        let id = self.id();
        self.now += secs;
        self.push(Ev::Adv { id, secs });
    }
    fn adv_random(&mut self) {
        let table: [(u64, u32); 20] = [
            (1, 30), (2, 12), (5, 8), (30, 6), (59, 6), (60, 5), (61, 5), (120, 4), (299, 4), (300, 4), (301, 4), (600, 4), (899, 4),
            (900, 4), (901, 3), (1800, 3), (3600, 3), (7200, 2), (57600, 2), (86400, 2),
        ];
        let w: Vec<u32> = table.iter().map(|x| x.1).collect();
        let s = table[self.r.pick_weighted(&w)].0;
        self.adv(s);
    }

    fn groups_of(&self, user: usize) -> BTreeSet<usize> {
        let mut m = Model::default();
        m.members_u = self.members_u.clone();
        m.members_g = self.members_g.clone();
        m.groups_of(user)
    }
    fn held(&self, user: &str, maps: &BTreeMap<String, BTreeSet<String>>) -> BTreeSet<String> {
        let mut m = Model::default();
        m.members_u = self.members_u.clone();
        m.members_g = self.members_g.clone();
        m.held_scopes(user, maps)
    }

    fn gen_maps(&mut self, pool: &[&str], max_keys: u64, min_keys: u64) -> BTreeMap<String, BTreeSet<String>> {
        let keys = ["og0", "og1", "og2", "og3", "all_persons", "all_accounts"];
        let n = self.r.range(min_keys, max_keys);
        let mut out = BTreeMap::new();
        for _ in 0..n {
            let k = *self.r.pick(&keys);
            let ns = self.r.range(1, 3);
            let mut s = BTreeSet::new();
            for _ in 0..ns {
                s.insert(self.r.pick(pool).to_string());
            }
            out.insert(k.to_string(), s);
        }
        out
    }

    fn gen_client(&mut self, slot: usize) -> ClientCfg {
        let old = self.clients.get(&slot).cloned();
        // keep the client (uuid, type) most of the time: reconfiguration; sometimes replace it
        let replace = old.is_none() || self.r.chance(1, 8);
        let (uuid, public) = if replace {
            self.client_gen += 1;
            (uuid_for(0xc, self.client_gen), self.r.chance(2, 5))
        } else {
            let o = old.as_ref().expect("old");
            (o.uuid, o.public)
        };
        let host = format!("app{slot}.example.com");
        let landing = match self.r.below(3) {
            0 => format!("https://{host}"),
            1 => format!("https://{host}/"),
            _ => format!("https://{host}/home"),
        };
        let pool = [
            format!("https://{host}/oauth2/callback"),
            format!("https://{host}/cb?x=1"),
            format!("https://portal{slot}.example.com/login/cb"),
            format!("https://{host}:8443/cb"),
            format!("http://{host}/insecure/cb"),
            format!("app{slot}://callback"),
            format!("com.example.app{slot}:/oauth"),
            "http://localhost:8080/cb".to_string(),
            "http://127.0.0.1:9000/cb".to_string(),
        ];
        let w = [30u32, 10, 12, 6, 3, 10, 5, 5, 4];
        let mut origins: Vec<String> = vec![];
        for _ in 0..self.r.range(1, 3) {
            let s = pool[self.r.pick_weighted(&w)].clone();
            if !origins.contains(&s) {
                origins.push(s);
            }
        }
        let mut scope_maps = self.gen_maps(&SCOPES, 3, 1);
        if self.c39 || self.r.chance(1, 2) {
            // make sure ordinary users can usually obtain something
            scope_maps.entry("all_persons".into()).or_default().insert("openid".into());
        }
        let sup_maps = self.gen_maps(&SUP_SCOPES, 2, 0);
        let refresh_expiry = match self.r.below(20) {
            0..=9 => None,
            10..=13 => Some(300),
            14..=16 => Some(1800),
            _ => Some(7200),
        };
        ClientCfg {
            slot,
            name: client_name(slot),
            uuid,
            public,
            landing,
            origins,
            localhost: public && self.r.chance(1, 2),
            disable_pkce: !public && self.r.chance(if self.c39 { 2 } else { 1 }, 5),
            consent: public || self.r.chance(if self.c39 { 2 } else { 3 }, 5),
            strict_attr: match self.r.below(3) {
                0 => None,
                1 => Some(true),
                _ => Some(false),
            },
            scope_maps,
            sup_maps,
            refresh_expiry,
            legacy_crypto: self.r.chance(1, 24),
        }
    }

    fn ev_client_set(&mut self, slot: usize) {
        let c = self.gen_client(slot);
        let id = self.id();
        self.clients.insert(slot, c.clone());
        self.push(Ev::ClientSet { id, c });
    }

    fn ev_members(&mut self, group: usize) {
        let mut users = vec![];
        for u in 0..N_USERS {
            if self.r.chance(2, 5) {
                users.push(u);
            }
        }
        let mut groups = vec![];
        // nesting is kept acyclic (a group may only contain higher-numbered groups): with a membership
        // cycle kanidm's memberOf can keep stale values after a removal, which is not this engine's subject
        if self.r.chance(1, 4) && group + 1 < N_GROUPS {
            let g = group + 1 + self.r.below((N_GROUPS - group - 1) as u64) as usize;
            groups.push(g);
        }
        let id = self.id();
        self.members_u.insert(group, users.iter().copied().collect());
        self.members_g.insert(group, groups.iter().copied().collect());
        self.push(Ev::Members { id, group, users, groups });
    }

    fn ev_login(&mut self, deliver: bool) {
        let user = if self.r.chance(1, if self.c39 { 30 } else { 8 }) { "anonymous".to_string() } else { user_name(self.r.below(N_USERS as u64) as usize) };
        let id = self.id();
        let good_pw = !self.r.chance(1, 30);
        self.push(Ev::Login { id, slot: id as usize, user: user.clone(), good_pw });
        if good_pw {
            self.logins.push((id as usize, user));
        }
        if deliver {
            let id = self.id();
            let rev = self.r.chance(1, 4);
            self.push(Ev::Deliver { id, rev });
        }
    }

    fn mutate_uri(&mut self, base: &str) -> String {
        let Ok(u) = Url::parse(base) else { return base.to_string() };
        let scheme = u.scheme().to_string();
        let host = u.host_str().unwrap_or("").to_string();
        let port = u.port().map(|p| format!(":{p}")).unwrap_or_default();
        let path = u.path().to_string();
        let q = u.query().map(|q| format!("?{q}")).unwrap_or_default();
        let sep = if scheme == "http" || scheme == "https" || u.has_authority() { "://" } else { ":" };
        let mk = |s: &str, h: &str, po: &str, pa: &str, q: &str| format!("{s}{sep}{h}{po}{pa}{q}");
        match self.r.below(19) {
            0 => mk(&scheme, &host.to_uppercase(), &port, &path, &q),
            1 => mk(&scheme.to_uppercase(), &host, &port, &path, &q),
            2 => mk(&scheme, &host, if scheme == "https" { ":443" } else if scheme == "http" { ":80" } else { "" }, &path, &q),
            3 => mk(&scheme, &host, ":8444", &path, &q),
            4 => mk(&scheme, &host, &port, &format!("{path}/extra"), &q),
            5 => mk(&scheme, &host, &port, &format!("{path}/"), &q),
            6 => mk(&scheme, &host, &port, &path.to_uppercase(), &q),
            7 => mk(&scheme, &format!("user@{host}"), &port, &path, &q),
            8 => mk(&scheme, &format!("{host}."), &port, &path, &q),
            9 => mk(&scheme, &host, &port, &path, &if q.is_empty() { "?a=b".to_string() } else { format!("{q}&a=b") }),
            10 => format!("{}#frag", mk(&scheme, &host, &port, &path, &q)),
            11 => mk(&scheme, &host, &port, "/", ""),
            12 => mk(&scheme, &host, &port, "/evil", ""),
            13 => mk(if scheme == "https" { "http" } else { "https" }, &host, &port, &path, &q),
            14 => mk(&scheme, &format!("evil.{host}"), &port, &path, &q),
            15 => mk(&scheme, &format!("{host}.evil.example"), &port, &path, &q),
            16 => mk(&scheme, &host, &port, &path.replacen('c', "%63", 1), &q),
            17 => mk(&scheme, &host, &port, &format!("{path}/../evil"), &q),
            _ => mk(&scheme, &host, &port, &path, ""),
        }
    }

    fn loopback_uri(&mut self) -> String {
        let p = self.r.range(1024, 65000);
        let forms = [
            format!("http://127.0.0.1:{p}/cb"),
            format!("http://[::1]:{p}/cb"),
            format!("http://localhost:{p}/cb"),
            "http://localhost/cb".to_string(),
            format!("https://localhost:{p}/"),
            format!("http://127.0.0.2:{p}/"),
            format!("http://127.1:{p}/cb"),
            format!("http://localhost.:{p}/cb"),
            format!("http://LOCALHOST:{p}/cb"),
            "http://localhost.evil.example/cb".to_string(),
            format!("http://[::ffff:127.0.0.1]:{p}/"),
            "myapp://localhost/cb".to_string(),
            format!("http://user@127.0.0.1:{p}/"),
            format!("http://2130706433:{p}/"),
            "http://0x7f.1/cb".to_string(),
            "ftp://127.0.0.1/cb".to_string(),
            format!("http://[::2]:{p}/cb"),
            "http://localhost:8080/cb".to_string(),
            "http://127.0.0.1:9000/cb".to_string(),
        ];
        self.r.pick(&forms).clone()
    }

    /// Build an authorisation request; `good` biases every dimension towards the registered terms.
    fn ev_authz(&mut self, good: bool) -> Option<GAuthz> {
        if self.logins.is_empty() || self.clients.is_empty() {
            return None;
        }
        let (login, user) = if good {
            let persons: Vec<&(usize, String)> = self.logins.iter().filter(|l| l.1 != "anonymous").collect();
            if persons.is_empty() { self.r.pick(&self.logins).clone() } else { (*self.r.pick(&persons)).clone() }
        } else {
            self.r.pick(&self.logins).clone()
        };
        let slots: Vec<usize> = self.clients.keys().copied().collect();
        let slot = *self.r.pick(&slots);
        let c = self.clients.get(&slot).cloned().expect("client");
        let registered: Vec<String> = std::iter::once(c.landing.clone()).chain(c.origins.iter().cloned()).collect();
        // a non-good request mutates one dimension (sometimes two or three), the others stay on terms
        let (mut m_redirect, mut m_scope, mut m_pkce, mut m_misc) = (false, false, false, false);
        if !good {
            let n = 1 + self.r.pick_weighted(&[70, 22, 8]);
            for _ in 0..n {
                match self.r.pick_weighted(&[45, 22, 20, 13]) {
                    0 => m_redirect = true,
                    1 => m_scope = true,
                    2 => m_pkce = true,
                    _ => m_misc = true,
                }
            }
        }
        let q = if !m_redirect { 0 } else { 45 + self.r.below(55) };
        let redirect = if q < 45 {
            // prefer a supplementary origin over the landing page
            if registered.len() > 1 && self.r.chance(4, 5) { registered[1 + self.r.below(registered.len() as u64 - 1) as usize].clone() } else { registered[0].clone() }
        } else if q < 75 {
            let b = self.r.pick(&registered).clone();
            self.mutate_uri(&b)
        } else if q < 93 {
            self.loopback_uri()
        } else {
            let other = format!("app{}://callback", self.r.below(N_CLIENTS as u64));
            if self.r.chance(1, 2) { other } else { format!("{other}/x") }
        };
        let held = self.held(&user, &c.scope_maps);
        let all_reg: BTreeSet<String> = c.scope_maps.values().flatten().cloned().collect();
        let mut scopes: BTreeSet<String> = BTreeSet::new();
        let sq = if !m_scope { self.r.below(50) } else { 55 + self.r.below(45) };
        if sq < 55 {
            for s in &held {
                if self.r.chance(1, 2) {
                    scopes.insert(s.clone());
                }
            }
            if scopes.is_empty() {
                if let Some(s) = held.iter().next() {
                    scopes.insert(s.clone());
                }
            }
        } else if sq < 70 {
            scopes = held.clone();
            let not_held: Vec<&String> = all_reg.difference(&held).collect();
            if !not_held.is_empty() {
                scopes.insert((*self.r.pick(&not_held)).clone());
            } else {
                scopes.insert("admin_x".into());
            }
        } else if sq < 80 {
            scopes = held.clone();
            let sup: Vec<&String> = c.sup_maps.values().flatten().collect();
            if !sup.is_empty() {
                scopes.insert((*self.r.pick(&sup)).clone());
            }
        } else if sq < 85 {
            // empty
        } else if sq < 90 {
            scopes = held.iter().map(|s| s.to_uppercase()).collect();
        } else if sq < 93 {
            scopes = held.clone();
            scopes.insert("bad scope!".replace(' ', "+"));
        } else {
            scopes = all_reg.clone();
        }
        let id = self.id();
        let verifier = format!("ver-{id}-{:016x}{:016x}", self.r.next_u64(), self.r.next_u64());
        let need_pkce = c.public || !c.disable_pkce;
        let pq = if !m_pkce { if need_pkce || self.r.chance(1, 2) { 0 } else { 70 } } else { 60 + self.r.below(40) };
        let mut req = json!({
            "response_type": "code",
            "client_id": c.name,
            "state": format!("st{id}"),
            "redirect_uri": redirect,
            "scope": scopes.iter().cloned().collect::<Vec<_>>().join(" "),
            "nonce": format!("n{id}"),
        });
        let mut used_verifier = None;
        if pq < 60 {
            req["code_challenge"] = json!(s256_challenge_b64(&verifier));
            req["code_challenge_method"] = json!("S256");
            used_verifier = Some(verifier.clone());
        } else if pq < 85 {
            // no PKCE
        } else if pq < 94 {
            req["code_challenge"] = json!(verifier.clone());
            req["code_challenge_method"] = json!("plain");
        } else if pq < 97 {
            req["code_challenge"] = json!(s256_challenge_b64(&verifier));
        } else {
            req["code_challenge"] = json!("");
            req["code_challenge_method"] = json!("S256");
        }
        if m_misc {
            match self.r.below(17) {
                0 => req["prompt"] = json!("none"),
                1 => req["prompt"] = json!("login"),
                2 => req["prompt"] = json!("consent"),
                3 => req["prompt"] = json!("select_account"),
                4 => req["prompt"] = json!("bogus"),
                5 => req["prompt"] = json!("none login"),
                6 => req["prompt"] = json!("login consent select_account login consent"),
                7 => req["max_age"] = json!(0),
                8 => req["max_age"] = json!(300),
                9 => req["max_age"] = json!(-5),
                10 => req["response_type"] = json!("token"),
                11 => req["response_type"] = json!("id_token"),
                12 => req["response_mode"] = json!("fragment"),
                13 => req["response_mode"] = json!("form_post"),
                14 => req["response_mode"] = json!("weird"),
                15 => req["client_id"] = json!(c.name.to_uppercase()),
                16 => req["client_id"] = json!("oc9"),
                _ => {}
            }
        }
        let resumed = !good && self.r.chance(1, 10);
        self.push(Ev::Authz { id, login, req, resumed });
        let g = GAuthz { id, login, slot, redirect, verifier: used_verifier, scopes };
        self.authz.push(g.clone());
        Some(g)
    }

    fn ev_permit(&mut self, a: &GAuthz) {
        let id = self.id();
        let login = if self.r.chance(1, 12) && !self.logins.is_empty() { self.r.pick(&self.logins).0 } else { a.login };
        self.push(Ev::Permit { id, authz: a.id, login });
    }

    fn good_auth(&mut self, slot: usize) -> String {
        match self.clients.get(&slot) {
            Some(c) if c.public => "post_nosecret".into(),
            _ => if self.r.chance(1, 2) { "basic".into() } else { "post".into() },
        }
    }

    fn ev_exchange(&mut self, a: &GAuthz, honest: bool) -> u64 {
        let id = self.id();
        let mut slot = a.slot;
        let mut auth = self.good_auth(slot);
        let mut redirect = a.redirect.clone();
        let mut verifier = a.verifier.clone();
        if !honest {
            match self.r.below(10) {
                0 | 1 => {
                    let others: Vec<usize> = self.clients.keys().copied().filter(|s| *s != a.slot).collect();
                    if !others.is_empty() {
                        slot = *self.r.pick(&others);
                        auth = self.good_auth(slot);
                    }
                }
                2 => auth = (*self.r.pick(&["badsecret", "none", "post_nosecret"])).to_string(),
                3 | 4 => redirect = self.mutate_uri(&a.redirect),
                5 => {
                    if let Some(c) = self.clients.get(&a.slot) {
                        redirect = if self.r.chance(1, 2) { c.landing.clone() } else { self.r.pick(&c.origins).clone() };
                    }
                }
                6 => verifier = None,
                7 => verifier = Some(format!("wrong-{id}-verifier-000000000000000000000000000000")),
                8 => verifier = Some(verifier.map(|v| v.to_uppercase()).unwrap_or_else(|| format!("unsolicited-{id}-verifier-0000000000000000000000000"))),
                _ => {}
            }
        }
        let client = client_name(slot);
        self.push(Ev::Exchange { id, authz: a.id, client, auth, redirect, verifier });
        id
    }

    fn ev_refresh(&mut self, ci: usize) {
        let (slot, chain, scopes) = self.chains[ci].clone();
        let id = self.id();
        let tq = self.r.below(100);
        let tok = if tq < 55 || chain.len() == 1 {
            *chain.last().expect("chain")
        } else if tq < 90 {
            chain[self.r.below(chain.len() as u64 - 1) as usize]
        } else {
            *self.r.pick(&chain)
        };
        let mut cs = slot;
        let mut auth = self.good_auth(slot);
        match self.r.below(20) {
            0 => {
                let others: Vec<usize> = self.clients.keys().copied().filter(|s| *s != slot).collect();
                if !others.is_empty() {
                    cs = *self.r.pick(&others);
                    auth = self.good_auth(cs);
                }
            }
            1 => auth = (*self.r.pick(&["badsecret", "none"])).to_string(),
            _ => {}
        }
        let sv: Vec<String> = scopes.iter().cloned().collect();
        let scope = match self.r.below(20) {
            0..=9 => None,
            10..=13 => {
                let mut v: Vec<String> = sv.iter().filter(|_| self.r.chance(1, 2)).cloned().collect();
                if v.is_empty() {
                    v = sv.iter().take(1).cloned().collect();
                }
                Some(v)
            }
            14 | 15 => Some(sv.clone()),
            16..=18 => {
                let mut v = sv.clone();
                v.push((*self.r.pick(&["admin_x", "write", "audit", "sup1", "groups"])).to_string());
                Some(v)
            }
            _ => Some(vec!["audit".to_string()]),
        };
        self.push(Ev::Refresh { id, tok, client: client_name(cs), auth, scope });
        // optimistic: the newest token of the chain is now this event's
        if tok == *chain.last().expect("chain") && cs == slot {
            self.chains[ci].1.push(id);
        }
    }

    fn any_tok(&mut self) -> Option<(usize, u64)> {
        if self.chains.is_empty() {
            return None;
        }
        let ci = self.r.below(self.chains.len() as u64) as usize;
        let chain = self.chains[ci].1.clone();
        let tok = if self.r.chance(3, 5) { *chain.last().expect("chain") } else { *self.r.pick(&chain) };
        Some((self.chains[ci].0, tok))
    }

    fn flow(&mut self, honest_exchange: bool) {
        let Some(a) = self.ev_authz(true) else { return };
        self.ev_permit(&a);
        if self.r.chance(1, 6) {
            let s = *self.r.pick(&[1u64, 30, 59, 60, 61]);
            self.adv(s);
        }
        let x = self.ev_exchange(&a, honest_exchange);
        if honest_exchange {
            self.chains.push((a.slot, vec![x], a.scopes.clone()));
        }
        if self.r.chance(1, 2) {
            let s = self.r.range(1, 3);
            self.adv(s);
        }
    }
}

pub fn generate(prop: &'static str, seed: u64, tier: Tier) -> Plan {
    let c39 = prop == "C39";
    let mut k = Rng::stream(seed, "oauth-knobs");
    let file = k.chance(if c39 { 2 } else { 1 }, 5);
    let n_events = if tier == Tier::Quick { 36 + k.below(30) as usize } else { 40 + k.below(90) as usize };
    let mut g = Gen {
        r: Rng::stream(seed, "oauth-events"),
        next: 0,
        evs: vec![],
        now: BASE_EPOCH,
        file,
        clients: BTreeMap::new(),
        client_gen: 0,
        members_u: BTreeMap::new(),
        members_g: BTreeMap::new(),
        logins: vec![],
        authz: vec![],
        chains: vec![],
        c39,
    };
    // opening: memberships, clients, logins
    for grp in 0..N_GROUPS {
        g.ev_members(grp);
    }
    let nc = 2 + g.r.below(2) as usize;
    for s in 0..nc.min(N_CLIENTS) {
        g.ev_client_set(s);
    }
    for _ in 0..(2 + g.r.below(2)) {
        g.ev_login(true);
    }
    g.adv(1);
    // weights: authz, permit, exchange, flow, refresh, introspect, userinfo, revoke, logout, acct, client_set,
    //          client_del, members, login, deliver, drop, restart, adv, touch
    let w: [u32; 19] = if c39 {
        [4, 3, 6, 12, 22, 10, 7, 3, 2, 3, 3, 1, 1, 2, 2, 1, 2, 14, 2]
    } else {
        [40, 10, 8, 4, 1, 1, 1, 0, 1, 1, 12, 1, 7, 3, 2, 1, 1, 5, 1]
    };
    while g.evs.len() < n_events {
        match g.r.pick_weighted(&w) {
            0 => {
                let good = g.r.chance(if c39 { 3 } else { 1 }, 4);
                g.ev_authz(good);
            }
            1 => {
                if !g.authz.is_empty() {
                    let n = g.authz.len();
                    let a = g.authz[n - 1 - g.r.below(n.min(4) as u64) as usize].clone();
                    g.ev_permit(&a);
                }
            }
            2 => {
                if !g.authz.is_empty() {
                    let n = g.authz.len();
                    let a = g.authz[n - 1 - g.r.below(n.min(5) as u64) as usize].clone();
                    let honest = g.r.chance(if c39 { 2 } else { 4 }, 5);
                    let x = g.ev_exchange(&a, honest);
                    if honest {
                        g.chains.push((a.slot, vec![x], a.scopes.clone()));
                    }
                }
            }
            3 => {
                let honest = g.r.chance(4, 5);
                g.flow(honest);
            }
            4 => {
                if !g.chains.is_empty() {
                    let ci = g.r.below(g.chains.len() as u64) as usize;
                    g.ev_refresh(ci);
                }
            }
            5 => {
                if let Some((_, tok)) = g.any_tok() {
                    let id = g.id();
                    let which = if g.r.chance(1, 8) { "refresh" } else { "access" };
                    g.push(Ev::Introspect { id, tok, which: which.into() });
                }
            }
            6 => {
                if let Some((slot, tok)) = g.any_tok() {
                    let id = g.id();
                    let cs = if g.r.chance(1, 10) { g.r.below(N_CLIENTS as u64) as usize } else { slot };
                    g.push(Ev::Userinfo { id, tok, client: client_name(cs) });
                }
            }
            7 => {
                if let Some((_, tok)) = g.any_tok() {
                    let id = g.id();
                    let which = if g.r.chance(1, 2) { "refresh" } else { "access" };
                    g.push(Ev::Revoke { id, tok, which: which.into() });
                }
            }
            8 => {
                if !g.logins.is_empty() {
                    let l = g.r.pick(&g.logins).0;
                    let id = g.id();
                    g.push(Ev::Logout { id, login: l });
                }
            }
            9 => {
                let user = g.r.below(N_USERS as u64) as usize;
                let id = g.id();
                let now = g.now;
                let (expire, valid_from) = match g.r.below(6) {
                    0 => (Some(now - 10), None),
                    1 => (Some(now + *g.r.pick(&[30u64, 400, 1000, 4000])), None),
                    2 => (None, Some(now + *g.r.pick(&[30u64, 400, 4000]))),
                    3 => (Some(now + 100_000), Some(now - 100)),
                    _ => (None, None),
                };
                g.push(Ev::Acct { id, user, expire, valid_from });
            }
            10 => {
                let slot = g.r.below(N_CLIENTS as u64) as usize;
                g.ev_client_set(slot);
            }
            11 => {
                let slots: Vec<usize> = g.clients.keys().copied().collect();
                if slots.len() > 1 {
                    let slot = *g.r.pick(&slots);
                    let id = g.id();
                    g.clients.remove(&slot);
                    g.push(Ev::ClientDel { id, slot });
                }
            }
            12 => {
                let grp = g.r.below(N_GROUPS as u64) as usize;
                g.ev_members(grp);
            }
            13 => {
                let deliver = g.r.chance(3, 4);
                g.ev_login(deliver);
            }
            14 => {
                let id = g.id();
                let rev = g.r.chance(1, 3);
                g.push(Ev::Deliver { id, rev });
            }
            15 => {
                let id = g.id();
                g.push(Ev::DropDelayed { id });
            }
            16 => {
                if g.file {
                    let id = g.id();
                    g.push(Ev::Restart { id });
                }
            }
            17 => g.adv_random(),
            _ => {
                let user = g.r.below(N_USERS as u64) as usize;
                let id = g.id();
                g.push(Ev::Touch { id, user });
            }
        }
    }
    let _ = g.groups_of(0);
    Plan { property: prop.to_string(), seed, cfg: json!({"file": file, "users": N_USERS, "groups": N_GROUPS, "logins_hint": N_LOGINS}), events: g.evs }
}

// ------------------------------------------------------------------------------------------------
// Scenarios
// ------------------------------------------------------------------------------------------------

pub struct OauthScenario {
    pub id: &'static str,
}

impl Scenario for OauthScenario {
    fn property(&self) -> &'static str {
        self.id
    }
    fn engine(&self) -> &'static str {
        "E5 idm/oauth2"
    }
    fn budget(&self, tier: Tier) -> Budget {
        match tier {
            Tier::Quick => Budget { runs: 256, wall_cap_s: 55 },
            Tier::Thorough => Budget { runs: 30_000, wall_cap_s: 1500 },
        }
    }
    fn generate(&self, seed: u64, tier: Tier) -> Plan {
        generate(self.id, seed, tier)
    }
    fn execute(&self, plan: &Plan) -> Outcome {
        execute(plan, self.id)
    }
    fn rule(&self) -> String {
        let common = "A run = one seeded plan: 4 persons + anonymous, 4 groups (random, possibly nested membership), 2-3 OAuth2 clients with random registrations, then 36-130 explicit events against one real kanidm server (in-memory or file-backed) under a simulated clock. ";
        match self.id {
            "C38" => format!("{common}C38 plans are dominated by authorisation requests whose client_id, redirect URI (18 mutations of registered URIs, 19 loopback forms, app URIs), scope set, PKCE form (S256/none/plain/method missing/empty), prompt, max_age, response type/mode are drawn independently, interleaved with client reconfiguration/replacement/deletion, membership changes, logins (incl. anonymous), consent permits (also by another login), code exchanges (to read the scopes a code carries), restarts. A run is non-trivial if at least one code was issued; distinct = distinct digests of the ledger (registered terms, memberships, prompts/codes/sessions outstanding) reached after each event."),
            _ => format!("{common}C39 plans build complete flows (authorise, permit, exchange) and then misuse what was issued at random simulated times: exchange at another client / wrong or missing client secret / altered redirect URI / wrong, missing or unsolicited verifier / after 59-61 s; refresh with widened or disjoint scopes, with already-rotated tokens, at another client; introspection, userinfo and revocation of any token of any chain; logout of the parent login, account expiry/valid-from changes, client reconfiguration (refresh lifetime) / replacement / deletion, late, reordered or lost login-session records (delayed actions), account touches (session-consistency plugin), restarts. Non-trivial = at least one token set issued and at least one misuse attempted; distinct = distinct ledger digests."),
        }
    }
    fn components(&self) -> J {
        json!({
            "real": ["kanidmd_lib IdmServer (auth, proxy_read/proxy_write, oauth2.rs authorise/permit/token/introspect/userinfo/revoke, reload_oauth2 at commit and boot)", "QueryServer + backend + SQLite (memory or file)", "plugins incl. session consistency, memberof, refint, oauth2 secret generation", "key objects (JWE/JWS for codes and tokens)", "kanidm_proto request decoding (serde) of AuthorisationRequest/AccessTokenRequest"],
            "stub": ["HTTP layer: requests are built as the JSON the query/form decoder would see and decoded with the proto types; handler composition (identity from bearer, commit rule of the token endpoint) is re-stated from kanidmd_core actors", "delayed-action worker: the simulator drains IdmServerDelayed and decides delivery time/order/loss", "wall clock: ct parameter", "OS entropy: seeded stream"],
            "not_run": ["axum/HTTP/TLS", "web UI consent page", "replication (single node)", "device flow (feature off)"]
        })
    }
    fn assumptions(&self) -> Vec<String> {
        vec![
            "'Exactly matches' is evaluated on the WHATWG-parsed URL (the request type carries a url::Url; scheme/host case and default ports are normalised before kanidm sees the value); the landing URL counts as registered".into(),
            "A loopback URI is an http(s) URI whose host is 127.0.0.0/8, ::1 or 'localhost' (RFC 8252 s7.3 plus the localhost name kanidm documents)".into(),
            "Terms are evaluated at the authorisation request; a consent permit continues that request (reconfiguration between prompt and permit is counted by a probe, not judged)".into(),
            "Code lifetime 60 s, access token lifetime as announced in expires_in, refresh/session lifetime as registered on the client (16 h default) are taken as the issued terms".into(),
            "Reuse of a rotated refresh token creates the duty to revoke only when it was presented in an otherwise acceptable way (right client and secret, unexpired, account valid, session and parent login alive and recorded)".into(),
            "Code exchange after account expiry and use after the parent login's own expiry are outside the statement (probes only)".into(),
            "sampled, not exhaustive".into(),
        ]
    }
}

pub fn scenarios() -> Vec<Box<dyn Scenario>> {
    vec![Box::new(OauthScenario { id: "C38" }), Box::new(OauthScenario { id: "C39" })]
}
