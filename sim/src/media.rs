//! E1/media — values across the three media a run crosses (C12) and backup/restore (C13).
//! One file-backed source server (its Backend handle is kept so backup/restore and the database
//! identifiers are reachable exactly as kanidmd's backup/restore commands reach them), a history of
//! entries of many syntaxes incl. passwords imported in every supported format, recycled entries and
//! tombstones; events: restart (reload from disk), refresh of a fresh replica (replication
//! encoding), backup (compressed or not) and restore into a fresh database, tampered backups.
use crate::driver::{Budget, Outcome, Plan, Scenario, Tier};
use crate::dump::{Dump, EState};
use crate::node::{block, Scratch, DOMAIN_NAME};
use crate::rng::{fnv64, uuid_for, Rng};
use kanidm_proto::backup::BackupCompression;
use kanidm_proto::internal::FsType;
use kanidmd_lib::be::{Backend, BackendConfig, BackendTransaction};
use kanidmd_lib::entry::{Entry, EntryInit, EntryNew};
use kanidmd_lib::prelude::*;
use kanidmd_lib::repl::proto::ReplRefreshContext;
use kanidmd_lib::schema::Schema;
use kanidmd_lib::verif_hooks as vh;
use serde::{Deserialize, Serialize};
use serde_json::{json, Value as J};
use std::collections::BTreeMap;
use std::path::{Path, PathBuf};

/// (format name, hash as an administrator would import it, cleartext) — taken from the crate's own
/// unit-test vectors (libs/crypto/src/lib.rs) so that each is known to verify before storage.
pub const FIXTURES: [(&str, &str, &str); 17] = [
    ("django-pbkdf2-sha256", "pbkdf2_sha256$36000$xIEozuZVAoYm$uW1b35DUKyhvQAf1mBqMvoBDcqSD06juzyO/nmyV0+w=", "eicieY7ahchaoCh0eeTa"),
    ("ds-sha1", "{SHA}W6ph5Mm5Pz8GgiULbPgzG37mj9g=", "password"),
    ("ds-ssha1", "{SSHA}EyzbBiP4u4zxOrLpKTORI/RX3HC6TCTJtnVOCQ==", "password"),
    ("ds-sha256", "{SHA256}XohImNooBHFR0OVvjcYpJ3NgPQ1qq73WKhHvch0VQtg=", "password"),
    ("ds-ssha256", "{SSHA256}luYWfFJOZgxySTsJXHgIaCYww4yMpu6yest69j/wO5n5OycuHFV/GQ==", "password"),
    ("ds-sha512", "{SHA512}sQnzu7wkTrgkQZF+0G1hi5AI3Qmzvv0bXgc5THBqi7mAsdd4Xll27ASbRt9fEyavWi6m0QP9B8lThf+rDKy8hg==", "password"),
    ("ds-ssha512", "{SSHA512}JwrSUHkI7FTAfHRVR6KoFlSN0E3dmaQWARjZ+/UsShYlENOqDtFVU77HJLLrY2MuSp0jve52+pwtdVl2QUAHukQ0XUf5LDtM", "password"),
    ("openldap-pbkdf2", "{PBKDF2}10000$IlfapjA351LuDSwYC0IQ8Q$saHqQTuYnjJN/tmAndT.8mJt.6w", "password"),
    ("openldap-pbkdf2-sha1", "{PBKDF2-SHA1}10000$ZBEH6B07rgQpJSikyvMU2w$TAA03a5IYkz1QlPsbJKvUsTqNV", "password"),
    ("openldap-pbkdf2-sha256", "{PBKDF2-SHA256}10000$henZGfPWw79Cs8ORDeVNrQ$1dTJy73v6n3bnTmTZFghxHXHLsAzKaAy8SksDfZBPIw", "password"),
    ("openldap-pbkdf2-sha512", "{PBKDF2-SHA512}10000$Je1Uw19Bfv5lArzZ6V3EPw$g4T/1sqBUYWl9o93MVnyQ/8zKGSkPbKaXXsT8WmysXQJhWy8MRP2JFudSL.N9RklQYgDPxPjnfum/F2f/TrppA", "password"),
    ("ipa-nt-hash", "ipaNTHash: iEb36u6PsRetBr3YMLdYbA", "password"),
    ("samba-nt-hash", "sambaNTPassword: 8846F7EAEE8FB117AD06BDD830B7586C", "password"),
    ("crypt-md5", "{crypt}$1$zaRIAsoe$7887GzjDTrst0XbDPpF5m.", "password"),
    ("crypt-sha256", "{crypt}$5$3UzV7Sut8EHCUxlN$41V.jtMQmFAOucqI4ImFV43r.bRLjPlN.hyfoCdmGE2", "password"),
    ("crypt-sha512", "{crypt}$6$aXn8azL8DXUyuMvj$9aJJC/KEUwygIpf2MTqjQa.f0MEXNg2cGFc62Fet8XpuDVDedM05CweAlxW6GWxnmHqp14CRf6zU7OQoE/bCu0", "password"),
    ("openldap-argon2", "{ARGON2}$argon2id$v=19$m=65536,t=2,p=1$IyTQMsvzB2JHDiWx8fq7Ew$VhYOA7AL0kbRXI5g2kOyyp8St1epkNj7WZyUY4pAIQQ", "password"),
];

#[derive(Serialize, Deserialize, Clone, Debug)]
#[serde(tag = "op")]
pub enum Op {
    Import { u: Uuid, name: String, fmt: usize, unix: bool },
    Person { u: Uuid, name: String, mail: Option<String>, legal: Option<String> },
    Group { u: Uuid, name: String, members: Vec<Uuid> },
    SetDesc { u: Uuid, v: String },
    Delete { u: Uuid },
    Revive { u: Uuid },
    Advance { secs: u64 },
    PurgeRecycled,
    PurgeTombstones,
    Restart,
    Replica,
    Backup { slot: usize, gz: bool },
    Restore { slot: usize },
    RestoreTampered { slot: usize },
}

#[derive(Serialize, Deserialize, Clone, Debug)]
pub struct Cfg {
    pub arc: Option<usize>,
}

struct Server {
    be: Backend,
    qs: QueryServer,
}

fn open(path: Option<&Path>, ct: Duration, init: bool, arc: Option<usize>) -> Result<Server, OperationError> {
    let schema = Schema::new()?;
    let idxmeta = schema.write().reload_idxmeta();
    vh::set_arc_floor(arc);
    let be = Backend::new(BackendConfig::new(path, 4, FsType::Generic, None), idxmeta, false)?;
    vh::set_arc_floor(None);
    let qs = QueryServer::new(be.clone(), schema, DOMAIN_NAME.to_string(), ct)?;
    if init {
        block(qs.initialise_helper(ct, DOMAIN_TGT_LEVEL))?;
    }
    Ok(Server { be, qs })
}

struct Saved {
    bytes: Vec<u8>,
    gz: bool,
    dump: Dump,
    ruv: BTreeMap<Uuid, (Duration, Duration)>,
    s_uuid: Uuid,
    d_uuid: Uuid,
    ts_max: Duration,
    queries: Vec<(String, Vec<Uuid>)>,
}

struct World {
    srv: Option<Server>,
    path: PathBuf,
    scratch: PathBuf,
    arc: Option<usize>,
    t: u64,
    seed: u64,
    out: Outcome,
    step: usize,
    /// uuid -> (fixture index, attribute holding the credential)
    imported: BTreeMap<Uuid, (usize, bool)>,
    saved: BTreeMap<usize, Saved>,
    which: &'static str,
}

fn verdicts(e: &Entry<kanidmd_lib::entry::EntrySealed, kanidmd_lib::entry::EntryCommitted>, unix: bool, clear: &str) -> Option<(bool, bool)> {
    let attr = if unix { Attribute::UnixPassword } else { Attribute::PrimaryCredential };
    let cred = e.get_ava_single_credential(attr)?;
    let pw = cred.password_ref().ok()?;
    let right = pw.verify(clear).ok()?;
    let wrong = pw.verify(&format!("{clear}x")).ok()?;
    Some((right, wrong))
}

fn query_set<'a, T: QueryServerTransaction<'a>>(txn: &mut T) -> Vec<(String, Vec<Uuid>)> {
    let mut out = vec![];
    let fs: Vec<(String, Filter<FilterInvalid>)> = vec![
        ("class=person".into(), filter!(f_eq(Attribute::Class, EntryClass::Person.into()))),
        ("class=group".into(), filter!(f_eq(Attribute::Class, EntryClass::Group.into()))),
        ("name cnt imp".into(), filter!(f_sub(Attribute::Name, PartialValue::new_iname("imp")))),
        ("pres mail".into(), filter!(f_pres(Attribute::Mail))),
        ("recycled".into(), filter_rec!(f_pres(Attribute::Class))),
        ("all incl tombstones".into(), filter_all!(f_pres(Attribute::Class))),
    ];
    for (n, f) in fs {
        let mut v: Vec<Uuid> = txn.internal_search(f).map(|r| r.iter().map(|e| e.get_uuid()).collect()).unwrap_or_default();
        v.sort();
        out.push((n, v));
    }
    out
}

impl World {
    fn ct(&mut self) -> Duration {
        self.t += 1;
        Duration::from_secs(crate::cluster::BASE_EPOCH + self.t)
    }
    fn viol(&mut self, prop: &str, oracle: &str, sig: String, msg: String) {
        if prop != self.which && !(self.which == "C12" && prop == "C12") {
            // both properties share the engine; each check reports its own oracles
        }
        if !self.out.violations.iter().any(|v| v.signature == sig && v.oracle == oracle) && self.out.violations.len() < 16 {
            let step = self.step;
            self.out.violate(prop, oracle, &sig, msg, step);
        }
    }
    fn write<R>(&mut self, f: impl FnOnce(&mut QueryServerWriteTransaction<'_>) -> Result<R, OperationError>) -> Result<R, OperationError> {
        let ct = self.ct();
        let qs = self.srv.as_ref().ok_or(OperationError::InvalidState)?.qs.clone();
        let mut w = block(qs.write(ct))?;
        let r = f(&mut w)?;
        w.commit()?;
        Ok(r)
    }
    /// behaviour of every imported credential on a given server
    fn check_imports(&mut self, qs: &QueryServer, medium: &str) {
        let Ok(mut r) = block(qs.read()) else { return };
        let items: Vec<(Uuid, usize, bool)> = self.imported.iter().map(|(u, (f, x))| (*u, *f, *x)).collect();
        let mut found = vec![];
        for (u, fmt, unix) in items {
            let Ok(e) = r.internal_search_all_uuid(u) else { continue };
            if crate::dump::entry_state(&e) == EState::Tombstone {
                continue;
            }
            found.push((fmt, unix, verdicts(&e, unix, FIXTURES[fmt].2)));
        }
        drop(r);
        for (fmt, unix, v) in found {
            let name = FIXTURES[fmt].0;
            let kind = if unix { "unix password" } else { "primary credential" };
            match v {
                Some((true, false)) => self.out.probe(&format!("imported password verified after {medium}")),
                Some((right, wrong)) => {
                    let what = if !right { "right cleartext rejected" } else if wrong { "wrong cleartext accepted" } else { "?" };
                    self.viol("C12", "imported-password-behaviour", format!("format={name}; medium={medium}; {what}"), format!("{kind} imported as {name}: after {medium} the right cleartext verifies={right}, a wrong cleartext verifies={wrong}"));
                }
                None => self.viol("C12", "imported-password-behaviour", format!("format={name}; medium={medium}; credential unreadable"), format!("{kind} imported as {name}: after {medium} the credential cannot be read back")),
            }
        }
    }
    fn user_dump(d: &Dump) -> Dump {
        let mut d = d.clone();
        d.entries.retain(|u, _| u.as_bytes()[0] >= 0xe0);
        d
    }

    fn apply(&mut self, id: u64, op: &Op) {
        crate::entropy::swap_stream(Some(Rng::new(self.seed ^ id.wrapping_mul(0x9E37_79B9_7F4A_7C15))));
        self.out.events_run += 1;
        let r: Result<(), OperationError> = match op.clone() {
            Op::Import { u, name, fmt, unix } => {
                let mut e: Entry<EntryInit, EntryNew> = entry_init!(
                    (Attribute::Class, EntryClass::Object.to_value()),
                    (Attribute::Class, EntryClass::Account.to_value()),
                    (Attribute::Class, EntryClass::Person.to_value()),
                    (Attribute::Name, Value::new_iname(&name)),
                    (Attribute::Uuid, Value::Uuid(u)),
                    (Attribute::DisplayName, Value::new_utf8s(&name))
                );
                if unix {
                    e.add_ava(Attribute::Class, EntryClass::PosixAccount.to_value());
                    e.add_ava(Attribute::UnixPasswordImport, Value::new_utf8s(FIXTURES[fmt].1));
                } else {
                    e.add_ava(Attribute::PasswordImport, Value::new_utf8s(FIXTURES[fmt].1));
                }
                let r = self.write(|w| w.internal_create(vec![e]));
                if r.is_ok() {
                    self.imported.insert(u, (fmt, unix));
                    if let Some(qs) = self.srv.as_ref().map(|s| s.qs.clone()) {
                        self.check_imports(&qs, "import (same process)");
                    }
                } else {
                    self.out.probe("import refused");
                }
                r
            }
            Op::Person { u, name, mail, legal } => {
                let mut e: Entry<EntryInit, EntryNew> = entry_init!(
                    (Attribute::Class, EntryClass::Object.to_value()),
                    (Attribute::Class, EntryClass::Account.to_value()),
                    (Attribute::Class, EntryClass::Person.to_value()),
                    (Attribute::Name, Value::new_iname(&name)),
                    (Attribute::Uuid, Value::Uuid(u)),
                    (Attribute::Description, Value::new_utf8s("d")),
                    (Attribute::DisplayName, Value::new_utf8s(&name))
                );
                if let Some(m) = mail {
                    if let Some(v) = Value::new_email_address_primary_s(&m) {
                        e.add_ava(Attribute::Mail, v);
                    }
                }
                if let Some(l) = legal {
                    e.add_ava(Attribute::LegalName, Value::new_utf8s(&l));
                }
                self.write(|w| w.internal_create(vec![e]))
            }
            Op::Group { u, name, members } => {
                let mut e: Entry<EntryInit, EntryNew> = entry_init!((Attribute::Class, EntryClass::Object.to_value()), (Attribute::Class, EntryClass::Group.to_value()), (Attribute::Name, Value::new_iname(&name)), (Attribute::Uuid, Value::Uuid(u)));
                for m in members {
                    e.add_ava(Attribute::Member, Value::Refer(m));
                }
                self.write(|w| w.internal_create(vec![e]))
            }
            Op::SetDesc { u, v } => self.write(|w| w.internal_modify_uuid(u, &ModifyList::new_purge_and_set(Attribute::Description, Value::new_utf8s(&v)))),
            Op::Delete { u } => self.write(|w| w.internal_delete_uuid(u)),
            Op::Revive { u } => self.write(|w| vh::internal_revive_uuid(w, u)),
            Op::Advance { secs } => {
                self.t += secs;
                self.out.sim_secs += secs as f64;
                Ok(())
            }
            Op::PurgeRecycled => self.write(|w| w.purge_recycled()).map(|_| ()),
            Op::PurgeTombstones => self.write(|w| w.purge_tombstones()).map(|_| ()),
            Op::Restart => {
                let before = self.srv.as_ref().and_then(|s| block(s.qs.read()).ok().and_then(|mut r| Dump::take(&mut r).ok()));
                self.srv = None;
                let ct = self.ct();
                match open(Some(&self.path.clone()), ct, false, self.arc) {
                    Ok(raw) => {
                        // what is on disk, before start-up migrations touch it
                        let after = block(raw.qs.read()).ok().and_then(|mut r| Dump::take(&mut r).ok());
                        if let (Some(b), Some(a)) = (&before, &after) {
                            if let Some(d) = b.diff(a) {
                                self.viol("C12", "entries-equal-after-reload", format!("entry differs after reload from disk: {}", sig_of(&d)), format!("an entry read back from the database differs from what was committed: {d}"));
                            }
                        }
                        self.out.fault("restart");
                        drop(raw);
                    }
                    Err(e) => self.out.harness_error = Some(format!("raw open {e:?}")),
                }
                let ct = self.ct();
                match open(Some(&self.path.clone()), ct, true, self.arc) {
                    Ok(s) => {
                        let qs = s.qs.clone();
                        self.srv = Some(s);
                        self.check_imports(&qs, "restart (reload from database)");
                    }
                    Err(e) => self.out.harness_error = Some(format!("restart {e:?}")),
                }
                Ok(())
            }
            Op::Replica => {
                // a fresh replica refreshed from the source through the JSON replication encoding
                let Some(src) = self.srv.as_ref().map(|s| s.qs.clone()) else { return };
                let ct = self.ct();
                let ctx: Result<ReplRefreshContext, OperationError> = block(src.read()).and_then(|mut r| r.supplier_provide_refresh());
                if let (Ok(ctx), Ok(rep)) = (ctx, open(None, ct, true, None)) {
                    let wire = serde_json::to_string(&ctx).expect("json");
                    let ctx: ReplRefreshContext = serde_json::from_str(&wire).expect("json");
                    let ct = self.ct();
                    let ok = block(rep.qs.write(ct)).and_then(|mut w| w.consumer_apply_refresh(ctx).and_then(|_| w.commit())).is_ok();
                    if ok {
                        self.out.probe("replica refreshed");
                        let a = block(src.read()).ok().and_then(|mut r| Dump::take(&mut r).ok());
                        let b = block(rep.qs.read()).ok().and_then(|mut r| Dump::take(&mut r).ok());
                        if let (Some(a), Some(b)) = (a, b) {
                            // live and recycled user entries travel with every replicated attribute
                            let (a, b) = (Self::user_dump(&a).without_attrs(&["last_modified_cid", "created_at_cid"]), Self::user_dump(&b).without_attrs(&["last_modified_cid", "created_at_cid"]));
                            if let Some(d) = a.diff(&b) {
                                self.viol("C12", "entries-equal-after-replication", format!("entry differs on a refreshed replica: {}", sig_of(&d)), format!("source vs refreshed replica: {d}"));
                            }
                        }
                        let q = rep.qs.clone();
                        self.check_imports(&q, "replication (refresh of a new replica)");
                    } else {
                        self.out.probe("replica refresh failed");
                    }
                }
                Ok(())
            }
            Op::Backup { slot, gz } => {
                let Some(srv) = self.srv.as_ref() else { return };
                let (qs, be) = (srv.qs.clone(), srv.be.clone());
                let mut bytes: Vec<u8> = vec![];
                let comp = if gz { BackupCompression::Gzip } else { BackupCompression::NoCompression };
                let saved = (|| -> Result<Saved, OperationError> {
                    let mut r = block(qs.read())?;
                    r.get_be_txn().backup(&mut bytes, comp)?;
                    let dump = Dump::take(&mut r)?;
                    let ruv = vh::ruv_ranges(&mut r)?;
                    let queries = query_set(&mut r);
                    drop(r);
                    let mut bw = be.write()?;
                    let (s_uuid, d_uuid, ts_max) = (bw.get_db_s_uuid()?, bw.get_db_d_uuid()?, bw.get_db_ts_max(Duration::ZERO)?);
                    drop(bw);
                    Ok(Saved { bytes: vec![], gz, dump, ruv, s_uuid, d_uuid, ts_max, queries })
                })();
                match saved {
                    Ok(mut s) => {
                        s.bytes = bytes;
                        self.out.probe(if gz { "backup taken (gzip)" } else { "backup taken (plain)" });
                        self.saved.insert(slot, s);
                    }
                    Err(e) => self.out.probe(&format!("backup failed {e:?}")),
                }
                Ok(())
            }
            Op::Restore { slot } => {
                self.restore(slot, false);
                Ok(())
            }
            Op::RestoreTampered { slot } => {
                self.restore(slot, true);
                Ok(())
            }
        };
        self.out.chain(fnv64(format!("{:?}", r.map_err(|e| format!("{e:?}"))).as_bytes()));
        if let Some(qs) = self.srv.as_ref().map(|s| s.qs.clone()) {
            if let Ok(mut r) = block(qs.read()) {
                if let Ok(d) = Dump::take(&mut r) {
                    let h = d.digest_masked();
                    self.out.states.push(h);
                    self.out.chain(h);
                }
            }
        }
    }

    fn restore(&mut self, slot: usize, tamper: bool) {
        let Some(s) = self.saved.get(&slot) else { return };
        let comp = if s.gz { BackupCompression::Gzip } else { BackupCompression::NoCompression };
        let dir = self.scratch.join(format!("restore-{}-{}", slot, self.step));
        let _ = std::fs::create_dir_all(&dir);
        let dbp = dir.join("r.db");
        let (bytes, dump0, ruv0, s0, d0, ts0, q0) = (s.bytes.clone(), s.dump.clone(), s.ruv.clone(), s.s_uuid, s.d_uuid, s.ts_max, s.queries.clone());
        let gz = s.gz;
        let ct = self.ct();
        let r = (|| -> Result<Option<String>, String> {
            let schema = Schema::new().map_err(|e| format!("{e:?}"))?;
            let idxmeta = schema.write().reload_idxmeta();
            let be = Backend::new(BackendConfig::new(Some(&dbp), 4, FsType::Generic, None), idxmeta, false).map_err(|e| format!("{e:?}"))?;
            let input: Vec<u8> = if tamper {
                if gz {
                    return Ok(Some("skip".into()));
                }
                let mut v: J = serde_json::from_slice(&bytes).map_err(|e| e.to_string())?;
                match v.get_mut("version") {
                    Some(x) => *x = J::String("0.0.1-foreign".into()),
                    None => return Ok(Some("skip".into())),
                }
                serde_json::to_vec(&v).map_err(|e| e.to_string())?
            } else {
                bytes.clone()
            };
            let mut bw = be.write().map_err(|e| format!("{e:?}"))?;
            let res = bw.restore(std::io::Cursor::new(input), comp).and_then(|_| bw.commit());
            if tamper {
                return Ok(Some(if res.is_err() { "refused".into() } else { "accepted".into() }));
            }
            res.map_err(|e| format!("restore failed: {e:?}"))?;
            // kanidmd restore: reindex, boot, reindex
            let mut bw = be.write().map_err(|e| format!("{e:?}"))?;
            bw.reindex(true).and_then(|_| bw.commit()).map_err(|e| format!("reindex {e:?}"))?;
            // identifiers and raw content BEFORE start-up migrations
            let mut bw = be.write().map_err(|e| format!("{e:?}"))?;
            let (s1, d1, ts1) = (bw.get_db_s_uuid().map_err(|e| format!("{e:?}"))?, bw.get_db_d_uuid().map_err(|e| format!("{e:?}"))?, bw.get_db_ts_max(Duration::ZERO).map_err(|e| format!("{e:?}"))?);
            drop(bw);
            let mut problems = vec![];
            if s1 != s0 {
                problems.push(("server uuid differs".to_string(), format!("{s0} -> {s1}")));
            }
            if d1 != d0 {
                problems.push(("domain uuid differs".to_string(), format!("{d0} -> {d1}")));
            }
            if ts1 != ts0 {
                problems.push(("maximum change time differs".to_string(), format!("{ts0:?} -> {ts1:?}")));
            }
            let raw = QueryServer::new(be.clone(), schema, DOMAIN_NAME.to_string(), ct).map_err(|e| format!("{e:?}"))?;
            {
                let mut r = block(raw.read()).map_err(|e| format!("{e:?}"))?;
                let d = Dump::take(&mut r).map_err(|e| format!("{e:?}"))?;
                if let Some(df) = dump0.diff(&d) {
                    problems.push((format!("entries differ: {}", sig_of(&df)), df));
                }
                let ruv = vh::ruv_ranges(&mut r).map_err(|e| format!("{e:?}"))?;
                if ruv != ruv0 {
                    problems.push(("replication metadata (RUV ranges) differs".to_string(), format!("{ruv0:?} -> {ruv:?}")));
                }
            }
            block(raw.initialise_helper(ct, DOMAIN_TGT_LEVEL)).map_err(|e| format!("boot of restored db: {e:?}"))?;
            {
                let mut w = block(raw.write(ct)).map_err(|e| format!("{e:?}"))?;
                w.reindex(true).and_then(|_| w.commit()).map_err(|e| format!("reindex2 {e:?}"))?;
            }
            let mut r = block(raw.read()).map_err(|e| format!("{e:?}"))?;
            let errs: Vec<String> = vh::verify_read(&mut r).into_iter().filter_map(|x| x.err()).map(|e| format!("{e:?}")).collect();
            if !errs.is_empty() {
                problems.push((format!("consistency check fails: {}", errs[0].chars().take(28).collect::<String>()), format!("{errs:?}")));
            }
            let q1 = query_set(&mut r);
            for ((n0, a), (_, b)) in q0.iter().zip(q1.iter()) {
                if a != b {
                    problems.push((format!("query answers differ: {n0}"), format!("{a:?} -> {b:?}")));
                }
            }
            drop(r);
            Ok(Some(serde_json::to_string(&problems).unwrap_or_default()))
        })();
        let _ = std::fs::remove_dir_all(&dir);
        match r {
            Err(e) => self.viol("C13", "restore-succeeds", "restore of an own backup fails".into(), format!("restore of backup slot {slot} (gzip={gz}) failed: {e}")),
            Ok(Some(s)) if tamper => match s.as_str() {
                "refused" => self.out.probe("foreign-version backup refused"),
                "accepted" => self.viol("C13", "foreign-version-refused", "backup with a foreign version accepted".into(), "a backup whose version field was altered was restored without error".into()),
                _ => self.out.probe("tamper skipped (compressed)"),
            },
            Ok(Some(s)) => {
                let problems: Vec<(String, String)> = serde_json::from_str(&s).unwrap_or_default();
                self.out.probe("backup restored and compared");
                for (sig, detail) in problems {
                    self.viol("C13", "restore-reproduces-database", format!("{sig}; gzip={gz}"), format!("restored database vs source at backup time: {sig}: {detail}"));
                }
                // C12's backup medium: behaviour of imported credentials is part of C12; the dump equality above covers the values
            }
            Ok(None) => {}
        }
    }
}

fn sig_of(d: &str) -> String {
    if d.contains("only on") {
        "entry present on one side only".into()
    } else if d.contains(" state ") {
        "entry state differs".into()
    } else if let Some(i) = d.find("differs: ") {
        let path = d[i + 9..].split(' ').next().unwrap_or("");
        format!("attribute {}", path.trim_start_matches(".ent.V3.attrs.").split('.').next().unwrap_or(path))
    } else {
        "other".into()
    }
}

pub fn generate(which: &'static str, seed: u64, tier: Tier) -> Plan {
    let mut k = Rng::stream(seed, "knobs");
    let cfg = Cfg { arc: if k.chance(1, 2) { Some(*k.pick(&[4usize, 64])) } else { None } };
    let mut g = Rng::stream(seed, "workload");
    let n = if tier == Tier::Quick { 16 + g.below(16) } else { 20 + g.below(50) };
    let mut evs: Vec<Op> = vec![];
    let mut users: Vec<Uuid> = vec![];
    let mut next = 0u64;
    for _ in 0..n {
        let pick_user = |g: &mut Rng, users: &Vec<Uuid>| if users.is_empty() { uuid_for(1, 0) } else { *g.pick(users) };
        let r = g.below(if which == "C12" { 20 } else { 24 });
        let op = match r {
            0..=5 => {
                next += 1;
                let u = uuid_for(1, next);
                users.push(u);
                Op::Import { u, name: format!("imp{next}"), fmt: g.below(FIXTURES.len() as u64) as usize, unix: g.chance(1, 4) }
            }
            6 | 7 => {
                next += 1;
                let u = uuid_for(1, next);
                users.push(u);
                Op::Person { u, name: format!("per{next}"), mail: if g.chance(1, 2) { Some(format!("p{next}@example.com")) } else { None }, legal: if g.chance(1, 2) { Some(format!("Légal Ñame {next}")) } else { None } }
            }
            8 => {
                next += 1;
                let u = uuid_for(2, next);
                let ms = (0..g.below(3)).map(|_| pick_user(&mut g, &users)).collect();
                Op::Group { u, name: format!("grp{next}"), members: ms }
            }
            9 => Op::SetDesc { u: pick_user(&mut g, &users), v: format!("désc {}", g.below(5)) },
            10 => Op::Delete { u: pick_user(&mut g, &users) },
            11 => Op::Revive { u: pick_user(&mut g, &users) },
            12 => Op::Advance { secs: *g.pick(&[5u64, 3600, 8 * 86400]) },
            13 => {
                if g.chance(1, 2) {
                    Op::PurgeRecycled
                } else {
                    Op::PurgeTombstones
                }
            }
            14 | 15 => Op::Restart,
            16 | 17 => Op::Replica,
            18 | 19 => Op::Backup { slot: g.below(2) as usize, gz: g.chance(1, 2) },
            20 | 21 => Op::Backup { slot: g.below(2) as usize, gz: g.chance(1, 2) },
            22 => Op::RestoreTampered { slot: g.below(2) as usize },
            _ => Op::Restore { slot: g.below(2) as usize },
        };
        evs.push(op);
    }
    // always end with the media the property is about
    if which == "C12" {
        evs.push(Op::Restart);
        evs.push(Op::Replica);
    } else {
        evs.push(Op::Backup { slot: 0, gz: g.chance(1, 2) });
        evs.push(Op::SetDesc { u: uuid_for(1, 1), v: "after backup".into() });
        evs.push(Op::Restore { slot: 0 });
        evs.push(Op::RestoreTampered { slot: 0 });
        evs.push(Op::Restore { slot: 1 });
    }
    let events = evs
        .iter()
        .enumerate()
        .map(|(i, o)| {
            let mut v = serde_json::to_value(o).expect("json");
            v["id"] = json!(i as u64 + 1);
            v
        })
        .collect();
    Plan { property: which.into(), seed, cfg: serde_json::to_value(&cfg).expect("json"), events }
}

pub fn execute(which: &'static str, plan: &Plan) -> Outcome {
    let cfg: Cfg = match serde_json::from_value(plan.cfg.clone()) {
        Ok(c) => c,
        Err(e) => return Outcome { harness_error: Some(format!("bad cfg {e}")), ..Default::default() },
    };
    let scratch = Scratch::new(&format!("md-{:x}", plan.seed));
    let path = scratch.path().join("m.db");
    crate::entropy::swap_stream(Some(Rng::new(plan.seed ^ 0x3ed1a)));
    let mut w = World { srv: None, path: path.clone(), scratch: scratch.path().to_path_buf(), arc: cfg.arc, t: 0, seed: plan.seed, out: Outcome::default(), step: 0, imported: BTreeMap::new(), saved: BTreeMap::new(), which };
    let ct = w.ct();
    match open(Some(&path), ct, true, cfg.arc) {
        Ok(s) => w.srv = Some(s),
        Err(e) => return Outcome { harness_error: Some(format!("boot {e:?}")), ..Default::default() },
    }
    for p in ["backup restored and compared", "foreign-version backup refused", "replica refreshed", "imported password verified after restart (reload from database)", "imported password verified after replication (refresh of a new replica)"] {
        w.out.probe0(p);
    }
    for (i, ev) in plan.events.iter().enumerate() {
        w.step = i;
        let id = ev.get("id").and_then(|x| x.as_u64()).unwrap_or(i as u64);
        let Ok(op) = serde_json::from_value::<Op>(ev.clone()) else { continue };
        w.apply(id, &op);
        if w.out.harness_error.is_some() {
            break;
        }
    }
    crate::entropy::swap_stream(None);
    w.out.states.sort();
    w.out.states.dedup();
    w.out.nontrivial = w.out.events_run >= 5;
    w.out
}

pub struct MediaScenario {
    id: &'static str,
}

impl Scenario for MediaScenario {
    fn property(&self) -> &'static str {
        self.id
    }
    fn engine(&self) -> &'static str {
        "E1 media"
    }
    fn budget(&self, tier: Tier) -> Budget {
        match tier {
            Tier::Quick => Budget { runs: 64, wall_cap_s: 120 },
            Tier::Thorough => Budget { runs: 20_000, wall_cap_s: 1500 },
        }
    }
    fn generate(&self, seed: u64, tier: Tier) -> Plan {
        generate(self.id, seed, tier)
    }
    fn execute(&self, plan: &Plan) -> Outcome {
        execute(self.id, plan)
    }
    fn rule(&self) -> String {
        if self.id == "C12" {
            "A run = a file-backed server and a history of entries of several syntaxes (names, utf8 with non-ASCII, mail, references, recycled entries, tombstones) incl. passwords imported in each of 17 supported formats (primary or unix), interleaved with restarts, refreshes of a fresh replica through the JSON replication encoding, and backups. After each medium the entries must be equal to what was committed and every imported password must verify exactly its cleartext. distinct_nontrivial = distinct masked database digests.".into()
        } else {
            "A run = a file-backed server with a history incl. imported credentials, recycled entries and tombstones; backups (gzip or plain) taken at random points, the history continues, and each backup is restored into a fresh database exactly as kanidmd's restore does (restore, reindex, boot, reindex): entries, server uuid, domain uuid, RUV ranges and maximum change time must equal the values at backup time, verify() must be empty, a fixed query set must answer identically, and a backup with an altered version must be refused. distinct_nontrivial = distinct masked database digests.".into()
        }
    }
    fn components(&self) -> J {
        json!({"real": ["kanidmd_lib backend (SQLite on /dev/shm), dbvalue/dbentry encodings, replication refresh encoding, backup/restore, cred_import plugin, kanidm_lib_crypto password verification"], "stub": ["wall clock", "OS entropy", "replication transport (JSON handed over)"], "not_run": ["login front ends (credential behaviour is checked on the stored material directly)"]})
    }
    fn assumptions(&self) -> Vec<String> {
        vec!["password fixtures are the crate's own unit-test vectors".into(), "sampled, not exhaustive".into()]
    }
}

pub fn scenarios() -> Vec<Box<dyn Scenario>> {
    vec![Box::new(MediaScenario { id: "C12" }), Box::new(MediaScenario { id: "C13" })]
}
