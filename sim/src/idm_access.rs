//! E5 access engine — C23 (searches never disclose what the caller may not read) and
//! C24 (writes need matching grants; protected objects stay protected).
//!
//! A run boots one real kanidm `QueryServer` (in-memory or file-backed), then executes an explicit
//! event list: internal (administrative) edits that change the *grant state* — access control
//! profile entries, group memberships, entry managers, deletions, restarts — interleaved with
//! operations performed as ordinary users through the same event constructors the REST/LDAP
//! front-ends use. After every event the whole database is read back; the reference grant model is
//! rebuilt from the entries that are in the database at that moment (shipped and generated
//! profiles alike), never from kanidm's in-memory access-control state, and each user operation is
//! judged against it. Both oracles are one-sided: the model over-approximates grants wherever it
//! cannot decide (unknown filter syntax → "applies").
use crate::cluster::BASE_EPOCH;
use crate::driver::{Budget, Outcome, Plan, Scenario, Tier};
use crate::dump::{entry_state, EState, EntryArc};
use crate::entropy;
use crate::node::{block, boot_idm, boot_qs, Idm, NodeCfg, Scratch};
use crate::rng::{fnv64, uuid_for, Rng};
use kanidm_proto::internal::{CreateRequest, DeleteRequest, Modify as ProtoModify, ModifyList as ProtoModifyList, ModifyRequest, SearchRequest};
use kanidm_proto::v1::Entry as ProtoEntry;
use kanidmd_lib::event::ReviveRecycledEvent;
use kanidmd_lib::prelude::*;
use kanidmd_lib::schema::SchemaTransaction;
use kanidmd_lib::verif_hooks as vh;
use serde_json::{json, Value as J};
use std::collections::{BTreeMap, BTreeSet};

const K: u64 = 0x9E37_79B9_7F4A_7C15;

// ------------------------------------------------------------------------------------------------
// Reference model
// ------------------------------------------------------------------------------------------------

/// Model entry: attribute name → set of values as the proto layer prints them.
pub type ME = BTreeMap<String, BTreeSet<String>>;

/// Classes that may never be created or deleted by a user (property statement / protected.rs).
const PROT_ENTRY: [&str; 8] = ["system", "domain_info", "system_info", "system_config", "dyngroup", "sync_object", "tombstone", "recycled"];
/// Classes no user may add to any entry.
const PROT_PRES: [&str; 8] = PROT_ENTRY;
/// Classes no user may remove from any entry (`recycled` only through revive — handled as a state change).
const PROT_REM: [&str; 7] = ["system", "domain_info", "system_info", "system_config", "dyngroup", "sync_object", "tombstone"];

#[derive(Clone, Debug)]
enum Recv {
    Group(BTreeSet<Uuid>),
    EntryManager,
    None,
}

#[derive(Clone, Debug)]
enum Target {
    Filter(ProtoFilter),
    /// present but unreadable for the model: treated as "matches" (over-approximation)
    Unknown,
    None,
}

#[derive(Clone, Debug, Default)]
struct ModGrant {
    pres: BTreeSet<String>,
    rem: BTreeSet<String>,
    pres_cls: BTreeSet<String>,
    rem_cls: BTreeSet<String>,
}

#[derive(Clone, Debug)]
struct Acp {
    name: String,
    recv: Recv,
    target: Target,
    search: Option<BTreeSet<String>>,
    modify: Option<ModGrant>,
    create: Option<(BTreeSet<String>, BTreeSet<String>)>,
    delete: bool,
}

#[derive(Clone, Copy, Debug, PartialEq, Eq)]
enum Norm {
    Lower,
    Exact,
    Unmodelled,
}

/// Everything the oracles need, read back from the database after an event.
pub struct St {
    ents: BTreeMap<Uuid, (EState, ME)>,
    acps: Vec<Acp>,
    /// member → live groups listing it directly (member ∪ dynmember)
    up: BTreeMap<Uuid, BTreeSet<Uuid>>,
    norm: BTreeMap<String, Norm>,
    multi: BTreeMap<String, bool>,
    domain: String,
    /// whole database (every entry, every attribute)
    pub digest: u64,
    /// grant-relevant state only: generated entries without change ids, member lists of shipped groups
    pub gdigest: u64,
}

fn to_me(e: &EntryArc) -> ME {
    e.get_ava_iter().map(|(a, vs)| (a.as_str().to_string(), vs.to_proto_string_clone_iter().collect())).collect()
}

fn vals<'a>(e: &'a ME, a: &str) -> impl Iterator<Item = &'a String> {
    e.get(a).into_iter().flat_map(|s| s.iter())
}

fn uuids(e: &ME, a: &str) -> BTreeSet<Uuid> {
    vals(e, a).filter_map(|s| Uuid::parse_str(s).ok()).collect()
}

fn has(e: &ME, a: &str, v: &str) -> bool {
    e.get(a).map(|s| s.contains(v)).unwrap_or(false)
}

fn strset(e: &ME, a: &str) -> BTreeSet<String> {
    e.get(a).cloned().unwrap_or_default()
}

impl St {
    pub fn take<'a, T: QueryServerTransaction<'a>>(txn: &mut T) -> Result<St, OperationError> {
        let es = crate::dump::search_all(txn)?;
        let mut norm = BTreeMap::new();
        let mut multi = BTreeMap::new();
        for (a, sa) in txn.get_schema().get_attributes().iter() {
            let n = match sa.syntax {
                SyntaxType::Utf8StringInsensitive | SyntaxType::Utf8StringIname | SyntaxType::Uuid | SyntaxType::ReferenceUuid => Norm::Lower,
                SyntaxType::Utf8String | SyntaxType::Uint32 | SyntaxType::Boolean => Norm::Exact,
                _ => Norm::Unmodelled,
            };
            norm.insert(a.as_str().to_string(), n);
            multi.insert(a.as_str().to_string(), sa.multivalue);
        }
        let domain = txn.get_domain_name().to_string();
        let mut ents = BTreeMap::new();
        let mut acps = vec![];
        let mut up: BTreeMap<Uuid, BTreeSet<Uuid>> = BTreeMap::new();
        let mut digest = 0u64;
        let mut gdigest = 0u64;
        for e in es.iter() {
            let st = entry_state(e);
            let me = to_me(e);
            let u = e.get_uuid();
            let mut line = format!("{u}|{st:?}");
            for (a, vs) in &me {
                line.push('|');
                line.push_str(a);
                for v in vs {
                    line.push('=');
                    line.push_str(v);
                }
            }
            digest = digest.rotate_left(5) ^ fnv64(line.as_bytes());
            if u > UUID_ANONYMOUS {
                let mut g = format!("{u}|{st:?}");
                for (a, vs) in me.iter().filter(|(a, _)| !matches!(a.as_str(), "last_modified_cid" | "created_at_cid")) {
                    g.push_str(&format!("|{a}={vs:?}"));
                }
                gdigest = gdigest.rotate_left(5) ^ fnv64(g.as_bytes());
            } else if let Some(m) = me.get("member") {
                gdigest = gdigest.rotate_left(5) ^ fnv64(format!("{u}|{m:?}").as_bytes());
            }
            if st == EState::Live {
                if has(&me, "class", "group") {
                    for m in uuids(&me, "member").into_iter().chain(uuids(&me, "dynmember")) {
                        up.entry(m).or_default().insert(u);
                    }
                }
                if has(&me, "class", "access_control_profile") && !has(&me, "acp_enable", "false") {
                    let recv = if has(&me, "class", "access_control_receiver_group") {
                        Recv::Group(uuids(&me, "acp_receiver_group"))
                    } else if has(&me, "class", "access_control_receiver_entry_manager") {
                        Recv::EntryManager
                    } else {
                        Recv::None
                    };
                    let target = if has(&me, "class", "access_control_target_scope") {
                        match e.get_ava_set(Attribute::AcpTargetScope).and_then(|vs| vs.to_json_filter_single().cloned()) {
                            Some(f) => Target::Filter(f),
                            None => Target::Unknown,
                        }
                    } else {
                        Target::None
                    };
                    let search = has(&me, "class", "access_control_search").then(|| {
                        let mut s = strset(&me, "acp_search_attr");
                        if s.contains("memberof") {
                            s.insert("directmemberof".into());
                        }
                        s
                    });
                    let modify = has(&me, "class", "access_control_modify").then(|| {
                        let cls = strset(&me, "acp_modify_class");
                        ModGrant {
                            pres: strset(&me, "acp_modify_presentattr"),
                            rem: strset(&me, "acp_modify_removedattr"),
                            pres_cls: if me.contains_key("acp_modify_present_class") { strset(&me, "acp_modify_present_class") } else { cls.clone() },
                            rem_cls: if me.contains_key("acp_modify_remove_class") { strset(&me, "acp_modify_remove_class") } else { cls },
                        }
                    });
                    let create = has(&me, "class", "access_control_create").then(|| (strset(&me, "acp_create_attr"), strset(&me, "acp_create_class")));
                    let delete = has(&me, "class", "access_control_delete");
                    acps.push(Acp { name: vals(&me, "name").next().cloned().unwrap_or_default(), recv, target, search, modify, create, delete });
                }
            }
            ents.insert(u, (st, me));
        }
        Ok(St { ents, acps, up, norm, multi, domain, digest, gdigest })
    }

    /// Groups of `u`: upward closure over live groups, united with what the entry itself records.
    fn memberof(&self, u: Uuid, strict: bool) -> (BTreeSet<Uuid>, bool) {
        let mut mo: BTreeSet<Uuid> = BTreeSet::new();
        let mut stack: Vec<Uuid> = self.up.get(&u).map(|s| s.iter().cloned().collect()).unwrap_or_default();
        while let Some(g) = stack.pop() {
            if mo.insert(g) {
                if let Some(s) = self.up.get(&g) {
                    stack.extend(s.iter().cloned());
                }
            }
        }
        let recorded = self.ents.get(&u).map(|(_, me)| uuids(me, "memberof")).unwrap_or_default();
        let differs = recorded != mo;
        if differs && std::env::var("VERIF_TRACE").is_ok() {
            eprintln!("CLOSURE {u} only-closure={:?} only-recorded={:?}", mo.difference(&recorded).collect::<Vec<_>>(), recorded.difference(&mo).collect::<Vec<_>>());
        }
        if !strict {
            mo.extend(recorded);
        }
        (mo, differs)
    }

    /// Ordinary boolean evaluation of a proto filter on a model entry; None = not modelled.
    fn eval(&self, f: &ProtoFilter, e: &ME, self_uuid: Option<Uuid>) -> Option<bool> {
        let norm = |attr: &str, v: &str| -> Option<(String, String, bool)> {
            let a = attr.to_lowercase();
            match self.norm.get(&a)? {
                Norm::Lower => Some((a, v.to_lowercase(), true)),
                Norm::Exact => Some((a, v.to_string(), false)),
                Norm::Unmodelled => None,
            }
        };
        Some(match f {
            ProtoFilter::Eq(a, v) => {
                let (a, v, lower) = norm(a, v)?;
                if matches!(a.as_str(), "member" | "memberof" | "directmemberof" | "entry_managed_by" | "dynmember") && Uuid::parse_str(&v).is_err() {
                    return None; // reference given by name: resolution is kanidm's business
                }
                vals(e, &a).any(|x| if lower { x.to_lowercase() == v } else { *x == v })
            }
            ProtoFilter::Cnt(a, v) => {
                let (a, v, lower) = norm(a, v)?;
                vals(e, &a).any(|x| if lower { x.to_lowercase().contains(&v) } else { x.contains(&v) })
            }
            ProtoFilter::Pres(a) => {
                let a = a.to_lowercase();
                self.norm.get(&a)?;
                e.get(&a).map(|s| !s.is_empty()).unwrap_or(false)
            }
            ProtoFilter::And(v) => {
                let mut r = Some(true);
                for x in v {
                    match self.eval(x, e, self_uuid) {
                        Some(false) => return Some(false),
                        Some(true) => {}
                        None => r = None,
                    }
                }
                return r;
            }
            ProtoFilter::Or(v) => {
                let mut r = Some(false);
                for x in v {
                    match self.eval(x, e, self_uuid) {
                        Some(true) => return Some(true),
                        Some(false) => {}
                        None => r = None,
                    }
                }
                return r;
            }
            ProtoFilter::AndNot(x) => !self.eval(x, e, self_uuid)?,
            ProtoFilter::SelfUuid => self_uuid.map(|u| has(e, "uuid", &u.to_string())).unwrap_or(false),
        })
    }

    fn applies(&self, a: &Acp, iu: Uuid, imo: &BTreeSet<Uuid>, e: &ME) -> bool {
        let r = match &a.recv {
            Recv::Group(gs) => !gs.is_disjoint(imo),
            Recv::EntryManager => uuids(e, "entry_managed_by").iter().any(|m| *m == iu || imo.contains(m)),
            Recv::None => false,
        };
        if !r {
            return false;
        }
        match &a.target {
            Target::None => false,
            Target::Unknown => true,
            Target::Filter(f) => self.eval(f, e, Some(iu)).unwrap_or(true),
        }
    }

    fn readable(&self, iu: Uuid, imo: &BTreeSet<Uuid>, e: &ME) -> (BTreeSet<String>, usize) {
        let mut s = BTreeSet::new();
        let mut n = 0;
        for a in &self.acps {
            if let Some(attrs) = &a.search {
                if self.applies(a, iu, imo, e) {
                    n += 1;
                    s.extend(attrs.iter().cloned());
                }
            }
        }
        // Built-in visibility rule named by the statement: a synchronised account may see the sync
        // account it comes from (class, uuid, credential portal). The OAuth2-client and application
        // rules are not modelled: no such entries are generated.
        if let Some((_, ie)) = self.ents.get(&iu) {
            if has(ie, "class", "sync_object") && has(ie, "class", "account") && has(e, "class", "sync_account") && uuids(ie, "sync_parent_uuid") == uuids(e, "uuid") {
                n += 1;
                s.extend(["class", "uuid", "sync_credential_portal"].iter().map(|x| x.to_string()));
            }
        }
        (s, n)
    }

    fn mod_grant(&self, iu: Uuid, imo: &BTreeSet<Uuid>, e: &ME) -> (ModGrant, usize) {
        let mut g = ModGrant::default();
        let mut n = 0;
        for a in &self.acps {
            if let Some(m) = &a.modify {
                if self.applies(a, iu, imo, e) {
                    n += 1;
                    g.pres.extend(m.pres.iter().cloned());
                    g.rem.extend(m.rem.iter().cloned());
                    g.pres_cls.extend(m.pres_cls.iter().cloned());
                    g.rem_cls.extend(m.rem_cls.iter().cloned());
                }
            }
        }
        (g, n)
    }

    fn create_grant(&self, iu: Uuid, imo: &BTreeSet<Uuid>, e: &ME) -> (BTreeSet<String>, BTreeSet<String>, usize) {
        let (mut at, mut cl, mut n) = (BTreeSet::new(), BTreeSet::new(), 0);
        for a in &self.acps {
            if let Some((attrs, classes)) = &a.create {
                if self.applies(a, iu, imo, e) {
                    n += 1;
                    at.extend(attrs.iter().cloned());
                    cl.extend(classes.iter().cloned());
                }
            }
        }
        (at, cl, n)
    }

    fn delete_grant(&self, iu: Uuid, imo: &BTreeSet<Uuid>, e: &ME) -> Vec<String> {
        self.acps.iter().filter(|a| a.delete && self.applies(a, iu, imo, e)).map(|a| a.name.clone()).collect()
    }
}

/// Attributes named by a filter (SelfUuid names `uuid`).
fn filter_attrs(f: &ProtoFilter, out: &mut BTreeSet<String>) {
    match f {
        ProtoFilter::Eq(a, _) | ProtoFilter::Cnt(a, _) | ProtoFilter::Pres(a) => {
            out.insert(a.to_lowercase());
        }
        ProtoFilter::And(v) | ProtoFilter::Or(v) => v.iter().for_each(|x| filter_attrs(x, out)),
        ProtoFilter::AndNot(x) => filter_attrs(x, out),
        ProtoFilter::SelfUuid => {
            out.insert("uuid".into());
        }
    }
}

/// Hand-computed cases for the evaluator and the grant rules; run once per process.
fn self_test() -> Result<(), String> {
    let mut st = St { ents: BTreeMap::new(), acps: vec![], up: BTreeMap::new(), norm: BTreeMap::new(), multi: BTreeMap::new(), domain: "d".into(), digest: 0, gdigest: 0 };
    for a in ["class", "name", "uuid", "memberof", "entry_managed_by"] {
        st.norm.insert(a.into(), Norm::Lower);
    }
    st.norm.insert("description".into(), Norm::Exact);
    st.norm.insert("mail".into(), Norm::Unmodelled);
    let (i, g, g2, t) = (uuid_for(1, 1), uuid_for(2, 1), uuid_for(2, 2), uuid_for(3, 1));
    let mut e: ME = BTreeMap::new();
    e.insert("class".into(), ["person".to_string(), "object".to_string()].into());
    e.insert("name".into(), ["t1".to_string()].into());
    e.insert("uuid".into(), [t.to_string()].into());
    e.insert("entry_managed_by".into(), [g2.to_string()].into());
    let f = |j: J| serde_json::from_value::<ProtoFilter>(j).map_err(|e| e.to_string());
    let cases: Vec<(J, Option<bool>)> = vec![
        (json!({"eq": ["class", "Person"]}), Some(true)),
        (json!({"eq": ["class", "group"]}), Some(false)),
        (json!({"and": [{"eq": ["class", "person"]}, {"andnot": {"eq": ["name", "t1"]}}]}), Some(false)),
        (json!({"or": [{"eq": ["mail", "x"]}, {"pres": "name"}]}), Some(true)),
        (json!({"and": [{"eq": ["mail", "x"]}, {"pres": "name"}]}), None),
        (json!({"and": [{"eq": ["mail", "x"]}, {"pres": "description"}]}), Some(false)),
        (json!("self"), Some(false)),
        (json!({"cnt": ["name", "T"]}), Some(true)),
        (json!({"eq": ["memberof", "some_group_name"]}), None),
    ];
    for (j, want) in cases {
        let got = st.eval(&f(j.clone())?, &e, Some(i));
        if got != want {
            return Err(format!("eval {j}: got {got:?}, want {want:?}"));
        }
    }
    // membership closure: i ∈ g, g ∈ g2 ⇒ memberof(i) = {g, g2}
    st.up.insert(i, [g].into());
    st.up.insert(g, [g2].into());
    let (mo, _) = st.memberof(i, true);
    if mo != [g, g2].into() {
        return Err(format!("closure {mo:?}"));
    }
    let mk = |recv: Recv, tf: J| -> Result<Acp, String> {
        Ok(Acp { name: "a".into(), recv, target: Target::Filter(f(tf)?), search: Some(["name".to_string()].into()), modify: None, create: None, delete: false })
    };
    st.acps = vec![mk(Recv::EntryManager, json!({"eq": ["class", "person"]}))?];
    if st.readable(i, &mo, &e).0 != ["name".to_string()].into() {
        return Err("entry-manager receiver through nested group must grant".into());
    }
    if !st.readable(i, &BTreeSet::new(), &e).0.is_empty() {
        return Err("entry-manager receiver must not grant to a non-manager".into());
    }
    st.acps = vec![mk(Recv::Group([g2].into()), json!({"eq": ["class", "group"]}))?];
    if !st.readable(i, &mo, &e).0.is_empty() {
        return Err("target mismatch must not grant".into());
    }
    Ok(())
}

// ------------------------------------------------------------------------------------------------
// Executor
// ------------------------------------------------------------------------------------------------

fn juuid(j: &J) -> Option<Uuid> {
    j.as_str().and_then(|s| Uuid::parse_str(s).ok())
}

fn jfilter(j: &J) -> Option<ProtoFilter> {
    serde_json::from_value::<ProtoFilter>(j.clone()).ok()
}

fn jentry(j: &J) -> ProtoEntry {
    let mut attrs = BTreeMap::new();
    if let Some(m) = j.as_object() {
        for (k, v) in m {
            let vs: Vec<String> = v.as_array().map(|a| a.iter().filter_map(|x| x.as_str().map(|s| s.to_string())).collect()).unwrap_or_default();
            attrs.insert(k.clone(), vs);
        }
    }
    ProtoEntry { attrs }
}

fn spec_me(j: &J) -> ME {
    jentry(j).attrs.into_iter().filter(|(_, v)| !v.is_empty()).map(|(k, v)| (k.to_lowercase(), v.into_iter().collect())).collect()
}

fn build_modlist(w: &mut QueryServerWriteTransaction, mods: &[J]) -> Result<ModifyList<ModifyInvalid>, OperationError> {
    let mut out = vec![];
    for m in mods {
        let a = Attribute::from(m["a"].as_str().unwrap_or(""));
        let v = m["v"].as_str().unwrap_or("");
        out.push(match m["m"].as_str().unwrap_or("") {
            "present" => Modify::Present(a.clone(), w.clone_value(&a, v)?),
            "removed" => Modify::Removed(a.clone(), w.clone_partialvalue(&a, v)?),
            "purged" => Modify::Purged(a),
            "assert" => Modify::Assert(a.clone(), w.clone_partialvalue(&a, v)?),
            "set" => {
                let mut vs = vec![];
                for x in m["vs"].as_array().cloned().unwrap_or_default() {
                    vs.push(w.clone_value(&a, x.as_str().unwrap_or(""))?);
                }
                Modify::Set(a, kanidmd_lib::valueset::from_value_iter(vs.into_iter())?)
            }
            _ => return Err(OperationError::InvalidRequestState),
        });
    }
    Ok(ModifyList::new_list(out))
}

fn proto_modlist(mods: &[J]) -> Option<ProtoModifyList> {
    let mut out = vec![];
    for m in mods {
        let a = m["a"].as_str().unwrap_or("").to_string();
        let v = m["v"].as_str().unwrap_or("").to_string();
        out.push(match m["m"].as_str().unwrap_or("") {
            "present" => ProtoModify::Present(a, v),
            "removed" => ProtoModify::Removed(a, v),
            "purged" => ProtoModify::Purged(a),
            _ => return None,
        });
    }
    Some(ProtoModifyList::new_list(out))
}

struct Sim {
    file: Option<Scratch>,
    qs: Option<QueryServer>,
    idm: Option<Idm>,
    ldap: Option<kanidmd_lib::idm::ldap::LdapServer>,
    ct: u64,
    st: St,
    out: Outcome,
    step: usize,
    seed: u64,
    /// second oracle pass: membership = closure over member lists only (what kanidm recorded is ignored)
    strict: bool,
}

fn errs(e: &OperationError) -> String {
    let s = format!("{e:?}");
    s.chars().take(80).collect()
}

impl Sim {
    fn now(&self) -> Duration {
        Duration::from_secs(self.ct)
    }

    fn boot(&mut self) -> Result<(), String> {
        self.ldap = None;
        self.idm = None;
        self.qs = None;
        let cfg = match &self.file {
            Some(s) => NodeCfg::file(&s.path().join("kanidm.db")),
            None => NodeCfg::mem(),
        };
        let qs = boot_qs(&cfg, self.now()).map_err(|e| format!("boot: {e:?}"))?;
        self.qs = Some(qs);
        Ok(())
    }

    fn snapshot(&mut self) -> Result<(), String> {
        let qs = self.qs.clone().ok_or("no server")?;
        let mut r = block(qs.read()).map_err(|e| format!("read txn: {e:?}"))?;
        self.st = St::take(&mut r).map_err(|e| format!("snapshot: {e:?}"))?;
        Ok(())
    }

    fn iwrite<R>(&mut self, f: impl FnOnce(&mut QueryServerWriteTransaction<'_>) -> Result<R, OperationError>) -> Result<R, OperationError> {
        let qs = self.qs.clone().ok_or(OperationError::InvalidState)?;
        let mut w = block(qs.write(self.now()))?;
        let r = f(&mut w)?;
        w.commit()?;
        Ok(r)
    }

    /// Run an oracle with the lenient membership (member-list closure united with the memberof kanidm
    /// recorded). Only if that is clean and the two differ, run it again with the closure alone: an
    /// access that is justified solely by a recorded-but-unreachable group is reported separately.
    fn two_pass(&mut self, prop: &str, op: &str, differs: bool, f: &dyn Fn(&mut Sim)) {
        let n0 = self.out.violations.len();
        f(self);
        if self.out.violations.len() > n0 || !differs {
            return;
        }
        let probes = self.out.probes.clone();
        self.strict = true;
        f(self);
        self.strict = false;
        self.out.probes = probes;
        let extra: Vec<_> = self.out.violations.drain(n0..).collect();
        if let Some(v) = extra.first() {
            self.out.probe("an access was decided by a stale recorded membership");
            let summary = format!("{op}: justified only by a group that the caller's memberof records but that no member list reaches; with membership taken from the member lists this is `{}`: {}", v.oracle, v.summary);
            self.viol(prop, "access-through-stale-membership", "recorded memberof names a group that no member list reaches".into(), summary);
        }
    }

    fn viol(&mut self, prop: &str, oracle: &str, sig: String, summary: String) {
        let step = self.step;
        self.out.violate(prop, oracle, &sig, summary, step);
    }

    /// Build the caller's identity from its entry as it is in this transaction (what the token
    /// validation path does on every request).
    fn ident<'a, T: QueryServerTransaction<'a>>(txn: &mut T, spec: &J) -> Result<Identity, String> {
        let u = juuid(&spec["u"]).ok_or("bad ident uuid")?;
        let entry = txn.internal_search_uuid(u).map_err(|e| format!("{e:?}"))?;
        let rw = Identity::from_impersonate_entry_readwrite(entry);
        Ok(match spec["sc"].as_str().unwrap_or("rw") {
            "ro" => rw.project_with_scope(AccessScope::ReadOnly),
            "sync" => rw.project_with_scope(AccessScope::Synchronise),
            "synch" => {
                let mut i = rw.project_with_scope(AccessScope::Synchronise);
                i.origin = IdentType::Synch(u);
                i
            }
            _ => rw,
        })
    }

    fn apply(&mut self, id: u64, ev: &J) {
        entropy::swap_stream(Some(Rng::new(self.seed ^ id.wrapping_mul(K))));
        self.ct += 1;
        let kind = ev["k"].as_str().unwrap_or("").to_string();
        let res: String = match kind.as_str() {
            "icreate" => {
                let req = CreateRequest::new(vec![jentry(&ev["e"])]);
                let r = self.iwrite(|w| {
                    let ce = CreateEvent::from_message(vh::identity_internal(), &req, w)?;
                    w.create(&ce).map(|_| ())
                });
                r.map(|_| "ok".to_string()).unwrap_or_else(|e| errs(&e))
            }
            "imod" => {
                let mods = ev["mods"].as_array().cloned().unwrap_or_default();
                match juuid(&ev["u"]) {
                    Some(u) => self
                        .iwrite(|w| {
                            let ml = build_modlist(w, &mods)?;
                            w.internal_modify_uuid(u, &ml)
                        })
                        .map(|_| "ok".to_string())
                        .unwrap_or_else(|e| errs(&e)),
                    None => "bad".into(),
                }
            }
            "idel" => match juuid(&ev["u"]) {
                Some(u) => self.iwrite(|w| w.internal_delete_uuid(u)).map(|_| "ok".to_string()).unwrap_or_else(|e| errs(&e)),
                None => "bad".into(),
            },
            "irev" => match juuid(&ev["u"]) {
                Some(u) => self.iwrite(|w| vh::internal_revive_uuid(w, u)).map(|_| "ok".to_string()).unwrap_or_else(|e| errs(&e)),
                None => "bad".into(),
            },
            "purge" => {
                self.ct += ev["days"].as_u64().unwrap_or(8) * 86_400;
                self.out.sim_secs += (ev["days"].as_u64().unwrap_or(8) * 86_400) as f64;
                let r = self.iwrite(|w| w.purge_recycled());
                r.map(|n| format!("purged {n}")).unwrap_or_else(|e| errs(&e))
            }
            "restart" => {
                if self.file.is_some() {
                    let before = self.st.gdigest;
                    match self.boot() {
                        Ok(()) => {
                            self.out.fault("restart");
                            if let Err(e) = self.snapshot() {
                                self.out.harness_error = Some(e);
                            }
                            if self.st.gdigest != before {
                                self.out.probe("restart changed grant-relevant state");
                            }
                            "restarted".into()
                        }
                        Err(e) => {
                            self.out.harness_error = Some(e);
                            "boot failed".into()
                        }
                    }
                } else {
                    "skip".into()
                }
            }
            "search" => self.do_search(ev),
            "modify" | "create" | "delete" | "revive" => self.do_write(&kind, ev),
            _ => "unknown".into(),
        };
        self.out.events_run += 1;
        self.out.sim_secs += 1.0;
        // post-state: model input for the next event, state digest for the evidence
        if self.out.harness_error.is_none() && matches!(kind.as_str(), "icreate" | "imod" | "idel" | "irev" | "purge") {
            if let Err(e) = self.snapshot() {
                self.out.harness_error = Some(e);
            }
        }
        let h = fnv64(format!("{id}|{kind}|{res}|{:016x}", self.st.digest).as_bytes());
        if std::env::var("VERIF_TRACE").is_ok() {
            eprintln!("TRACE {id} {kind} {res} full={:016x} g={:016x} ev={ev}", self.st.digest, self.st.gdigest);
        }
        self.out.chain(h);
        self.out.states.push(self.st.gdigest);
    }
}

// ------------------------------------------------------------------------------------------------
// C23: searches
// ------------------------------------------------------------------------------------------------

impl Sim {
    fn do_search(&mut self, ev: &J) -> String {
        let via = ev["via"].as_str().unwrap_or("ext").to_string();
        if via == "ldap" || via == "ldapcmp" {
            return self.do_ldap(ev, &via);
        }
        let Some(pf) = jfilter(&ev["f"]) else { return "bad filter".into() };
        let req_attrs: Option<Vec<String>> = ev["attrs"].as_array().map(|a| a.iter().filter_map(|x| x.as_str().map(|s| s.to_string())).collect());
        let Some(qs) = self.qs.clone() else { return "down".into() };
        let mut r = match block(qs.read()) {
            Ok(r) => r,
            Err(e) => return errs(&e),
        };
        let ident = match Sim::ident(&mut r, &ev["i"]) {
            Ok(i) => i,
            Err(e) => return format!("no ident: {e}"),
        };
        let iu = juuid(&ev["i"]["u"]).unwrap_or(UUID_ANONYMOUS);
        let mut fattrs = BTreeSet::new();
        filter_attrs(&pf, &mut fattrs);
        if via == "exists" {
            let res = (|| -> Result<bool, OperationError> {
                let f = Filter::from_ro(&ident, &pf, &mut r)?;
                let filter_orig = f.validate(r.get_schema()).map_err(OperationError::SchemaViolation)?;
                let filter = filter_orig.clone().into_ignore_hidden();
                r.exists(&ExistsEvent { ident: ident.clone(), filter, filter_orig })
            })();
            drop(r);
            return match res {
                Ok(b) => {
                    if b {
                        self.out.probe("exists true");
                        let differs = self.st.memberof(iu, false).1;
                        self.two_pass("C23", "exists", differs, &|s: &mut Sim| s.check_exists(iu, &pf, &fattrs, "exists"));
                    }
                    format!("exists {b}")
                }
                Err(e) => errs(&e),
            };
        }
        let res = (|| -> Result<Vec<(Uuid, BTreeSet<String>)>, OperationError> {
            let se = if via == "recycle" {
                let f = Filter::from_ro(&ident, &pf, &mut r)?;
                SearchEvent::from_internal_recycle_message(ident.clone(), &f, req_attrs.as_deref(), &r)?
            } else if req_attrs.is_some() {
                let f = Filter::from_ro(&ident, &pf, &mut r)?;
                SearchEvent::from_internal_message(ident.clone(), &f, req_attrs.as_deref(), &mut r)?
            } else {
                SearchEvent::from_message(ident.clone(), &SearchRequest::new(pf.clone()), &mut r)?
            };
            let es = r.search_ext(&se)?;
            Ok(es.iter().map(|e| (e.get_uuid(), e.get_ava_names().map(|s| s.to_string()).collect())).collect())
        })();
        drop(r);
        match res {
            Ok(rows) => {
                if !rows.is_empty() {
                    self.out.probe("search returned entries");
                }
                let n = rows.len();
                let mut h = 0u64;
                let differs = self.st.memberof(iu, false).1;
                for (u, names) in &rows {
                    h ^= fnv64(format!("{u}{names:?}").as_bytes());
                    self.two_pass("C23", "search", differs, &|s: &mut Sim| s.check_row(iu, *u, names, &fattrs, req_attrs.as_deref(), &via));
                }
                format!("rows {n} {h:x}")
            }
            Err(e) => errs(&e),
        }
    }

    /// One returned entry: state, filter attributes, returned attributes.
    fn check_row(&mut self, iu: Uuid, u: Uuid, names: &BTreeSet<String>, fattrs: &BTreeSet<String>, req: Option<&[String]>, via: &str) {
        let Some((state, me)) = self.st.ents.get(&u).cloned() else {
            self.viol("C23", "unknown-entry-returned", format!("via={via}"), format!("search as {iu} returned {u} which is not in the database snapshot"));
            return;
        };
        if via != "recycle" && state != EState::Live {
            self.viol("C23", "hidden-entry-returned", format!("state={state:?}; via={via}"), format!("search ({via}) as {iu} returned {u} which is {state:?}"));
        }
        if via == "recycle" {
            self.out.probe(match state {
                EState::Recycled => "recycle search returned recycled entry",
                _ => "recycle search returned non-recycled entry",
            });
        }
        let (imo, differs) = self.st.memberof(iu, self.strict);
        if differs {
            self.out.probe("identity memberof differs from group closure");
            if std::env::var("VERIF_TRACE").is_ok() {
                let rec = self.st.ents.get(&iu).map(|(s, me)| (*s, uuids(me, "memberof"), uuids(me, "directmemberof")));
                eprintln!("MODIFF step={} ident={iu} recorded={rec:?} closure+recorded={imo:?} up={:?}", self.step, self.st.up.get(&iu));
            }
        }
        let (readable, n_acp) = self.st.readable(iu, &imo, &me);
        let why = if n_acp == 0 { "no-applicable-profile" } else { "not-in-applicable-profiles" };
        let miss: Vec<&String> = fattrs.iter().filter(|a| !readable.contains(*a)).collect();
        if !miss.is_empty() {
            self.viol(
                "C23",
                "entry-revealed-through-unreadable-filter-attribute",
                format!("why={why}; via={via}"),
                format!("search ({via}) as {iu} (memberof {imo:?}) returned {u}; filter names {fattrs:?} but the applicable search profiles ({n_acp}) grant only {readable:?}; unreadable: {miss:?}"),
            );
        }
        let req_norm: Option<BTreeSet<String>> = req.map(|v| v.iter().map(|s| s.to_lowercase()).collect());
        for a in names {
            if !readable.contains(a) {
                self.viol(
                    "C23",
                    "attribute-returned-without-grant",
                    format!("why={why}; via={via}"),
                    format!("search ({via}) as {iu} returned attribute {a} of {u}; applicable search profiles ({n_acp}) grant {readable:?}"),
                );
            } else if let Some(rq) = &req_norm {
                if !rq.contains(a) {
                    self.viol("C23", "attribute-returned-not-requested", format!("via={via}"), format!("search ({via}) as {iu} returned attribute {a} of {u}, requested only {rq:?}"));
                }
            }
        }
        if !names.is_empty() {
            self.out.probe("returned attribute sets checked");
        }
        if req.is_none() && names.len() < me.len() {
            self.out.probe("entry returned with reduced attribute set");
        }
    }

    /// `exists`/compare said yes: some live entry must match and have every filter attribute readable.
    fn check_exists(&mut self, iu: Uuid, pf: &ProtoFilter, fattrs: &BTreeSet<String>, via: &str) {
        let (imo, _) = self.st.memberof(iu, self.strict);
        let mut matching = 0;
        for (_, (state, me)) in self.st.ents.iter() {
            if *state != EState::Live {
                continue;
            }
            if self.st.eval(pf, me, Some(iu)) == Some(false) {
                continue;
            }
            matching += 1;
            let (readable, _) = self.st.readable(iu, &imo, me);
            if fattrs.iter().all(|a| readable.contains(a)) {
                return;
            }
        }
        let why = if matching == 0 { "no-live-entry-matches" } else { "matching-entries-not-readable" };
        self.viol(
            "C23",
            "existence-disclosed",
            format!("why={why}; via={via}"),
            format!("{via} as {iu} answered true for {pf:?}; {matching} live entries match, none with all of {fattrs:?} readable by the caller"),
        );
    }
}

// ------------------------------------------------------------------------------------------------
// C24: writes
// ------------------------------------------------------------------------------------------------

impl Sim {
    fn do_write(&mut self, kind: &str, ev: &J) -> String {
        let Some(qs) = self.qs.clone() else { return "down".into() };
        let ct = self.now();
        let spec = ev["i"].clone();
        let mods = ev["mods"].as_array().cloned().unwrap_or_default();
        let res = (|| -> Result<(), String> {
            let mut w = block(qs.write(ct)).map_err(|e| errs(&e))?;
            let ident = Sim::ident(&mut w, &spec).map_err(|e| format!("no ident: {e}"))?;
            let r: Result<(), OperationError> = (|| match kind {
                "modify" => {
                    let pf = jfilter(&ev["f"]).ok_or(OperationError::InvalidRequestState)?;
                    let me = match proto_modlist(&mods) {
                        Some(pml) if ev["typed"].as_bool() != Some(true) => ModifyEvent::from_message(ident.clone(), &ModifyRequest::new(pf, pml), &mut w)?,
                        _ => {
                            let f = Filter::from_rw(&ident, &pf, &mut w)?;
                            let ml = build_modlist(&mut w, &mods)?;
                            ModifyEvent::from_internal_parts(ident.clone(), &ml, &f, &w)?
                        }
                    };
                    w.modify(&me)
                }
                "create" => {
                    let ce = CreateEvent::from_message(ident.clone(), &CreateRequest::new(vec![jentry(&ev["e"])]), &mut w)?;
                    w.create(&ce).map(|_| ())
                }
                "delete" => {
                    let pf = jfilter(&ev["f"]).ok_or(OperationError::InvalidRequestState)?;
                    let de = DeleteEvent::from_message(ident.clone(), &DeleteRequest::new(pf), &mut w)?;
                    w.delete(&de)
                }
                _ => {
                    let pf = jfilter(&ev["f"]).ok_or(OperationError::InvalidRequestState)?;
                    let f = Filter::from_rw(&ident, &pf, &mut w)?;
                    let re = ReviveRecycledEvent::from_parts(ident.clone(), &f, &w)?;
                    w.revive_recycled(&re)
                }
            })();
            match r {
                Ok(()) => w.commit().map_err(|e| format!("commit: {}", errs(&e))),
                Err(e) => Err(errs(&e)), // transaction dropped, as the server's request handlers do
            }
        })();
        let post = match self.qs.clone().ok_or("no server".to_string()).and_then(|qs| {
            let mut r = block(qs.read()).map_err(|e| format!("{e:?}"))?;
            St::take(&mut r).map_err(|e| format!("{e:?}"))
        }) {
            Ok(p) => p,
            Err(e) => {
                self.out.harness_error = Some(format!("snapshot after {kind}: {e}"));
                return "snapshot failed".into();
            }
        };
        let pre = std::mem::replace(&mut self.st, post);
        if res.as_ref().err().map(|e| e.starts_with("no ident")).unwrap_or(false) {
            return res.err().unwrap_or_default();
        }
        let iu = juuid(&ev["i"]["u"]).unwrap_or(UUID_ANONYMOUS);
        let differs = pre.memberof(iu, false).1;
        if differs {
            self.out.probe("identity memberof differs from group closure");
        }
        let ok = res.is_ok();
        self.two_pass("C24", kind, differs, &|s: &mut Sim| s.check_write(kind, ev, &pre, ok));
        match res {
            Ok(()) => {
                self.out.probe(&format!("{kind} by a user succeeded"));
                "ok".into()
            }
            Err(e) => {
                let variant: String = e.chars().take_while(|c| c.is_ascii_alphanumeric() || *c == ':' || *c == ' ').take(28).collect();
                self.out.probe(&format!("{kind} refused: {}", variant.trim()));
                e
            }
        }
    }

    fn check_write(&mut self, kind: &str, ev: &J, pre: &St, ok: bool) {
        let sc = ev["i"]["sc"].as_str().unwrap_or("rw").to_string();
        let iu = juuid(&ev["i"]["u"]).unwrap_or(UUID_ANONYMOUS);
        if !ok {
            if pre.digest != self.st.digest {
                self.viol("C24", "failed-operation-changed-database", format!("op={kind}"), format!("{kind} as {iu} ({sc}) returned an error but the database content changed"));
            }
            return;
        }
        if sc != "rw" {
            self.viol("C24", "non-readwrite-identity-wrote", format!("op={kind}; scope={sc}"), format!("{kind} as {iu} with scope {sc} succeeded"));
        }
        let (imo, _) = pre.memberof(iu, self.strict);
        let mods = ev["mods"].as_array().cloned().unwrap_or_default();
        let mod_attrs: BTreeSet<String> = mods.iter().filter_map(|m| m["a"].as_str().map(|s| s.to_lowercase())).collect();
        let has_present = |a: &str| mods.iter().any(|m| m["a"].as_str().map(|s| s.to_lowercase()) == Some(a.to_string()) && m["m"].as_str() == Some("present"));
        if kind == "modify" && mods.iter().any(|m| m["m"].as_str() == Some("purged") && m["a"].as_str().map(|s| s.to_lowercase()) == Some("class".into())) {
            self.viol("C24", "class-purged", "op=modify".into(), format!("modify as {iu} containing a purge of `class` succeeded"));
        }
        let spec = if kind == "create" { spec_me(&ev["e"]) } else { ME::new() };
        let all: BTreeSet<Uuid> = pre.ents.keys().chain(self.st.ents.keys()).cloned().collect();
        let post_ents = self.st.ents.clone();
        let mut found_created = false;
        for u in all {
            match (pre.ents.get(&u), post_ents.get(&u)) {
                (None, Some((_, m1))) => {
                    if kind != "create" {
                        self.out.probe("entry appeared during a non-create user operation");
                        continue;
                    }
                    let is_it = match spec.get("uuid").and_then(|s| s.iter().next()) {
                        Some(su) => su.to_lowercase() == u.to_string(),
                        None => spec.get("name").map(|n| m1.get("name") == Some(n)).unwrap_or(false),
                    };
                    if !is_it {
                        self.out.probe("entry appeared beside the created one");
                        continue;
                    }
                    found_created = true;
                    let classes = strset(&spec, "class");
                    for c in classes.iter().filter(|c| PROT_ENTRY.contains(&c.as_str())) {
                        self.viol("C24", "protected-class-created", format!("class={c}"), format!("create as {iu} of {u} with protected class {c} succeeded"));
                    }
                    if u <= UUID_ANONYMOUS {
                        self.viol("C24", "builtin-range-entry-created", "uuid<=anonymous".into(), format!("create as {iu} of {u} inside the built-in uuid range succeeded"));
                    }
                    let (at, cl, n) = pre.create_grant(iu, &imo, &spec);
                    let why = if n == 0 { "no-applicable-profile" } else { "not-listed" };
                    let miss_a: Vec<&String> = spec.keys().filter(|a| !at.contains(*a)).collect();
                    let miss_c: Vec<&String> = classes.iter().filter(|c| !cl.contains(*c)).collect();
                    if !miss_a.is_empty() || !miss_c.is_empty() {
                        self.viol(
                            "C24",
                            "create-without-grant",
                            format!("what={}; why={why}", if !miss_a.is_empty() { "attribute" } else { "class" }),
                            format!("create as {iu} (memberof {imo:?}) of {u} succeeded; {n} create profiles apply granting attrs {at:?} classes {cl:?}; not granted: attrs {miss_a:?} classes {miss_c:?}"),
                        );
                    }
                }
                (Some((s0, _)), None) => {
                    self.viol("C24", "entry-vanished", format!("op={kind}; state={s0:?}"), format!("{kind} as {iu}: entry {u} ({s0:?}) no longer exists"));
                }
                (Some((s0, m0)), Some((s1, m1))) => {
                    if *s0 == EState::Tombstone {
                        if m0 != m1 || s0 != s1 {
                            self.viol("C24", "tombstone-modified", format!("op={kind}"), format!("{kind} as {iu} changed tombstone {u}"));
                        }
                    } else if *s0 == EState::Live && *s1 == EState::Recycled {
                        if kind != "delete" {
                            self.viol("C24", "protected-class-added", format!("class=recycled; op={kind}"), format!("{kind} as {iu} turned live entry {u} into a recycled one"));
                            continue;
                        }
                        if u <= UUID_ANONYMOUS || has(m0, "class", "builtin") {
                            self.viol("C24", "builtin-entry-deleted", "builtin".into(), format!("delete as {iu} removed built-in entry {u}"));
                        }
                        for c in strset(m0, "class").iter().filter(|c| PROT_ENTRY.contains(&c.as_str())) {
                            self.viol("C24", "protected-entry-deleted", format!("class={c}"), format!("delete as {iu} removed {u} which has protected class {c}"));
                        }
                        if pre.delete_grant(iu, &imo, m0).is_empty() {
                            self.viol("C24", "delete-without-grant", "no-applicable-profile".into(), format!("delete as {iu} (memberof {imo:?}) removed {u} ({:?}) but no delete profile matches caller and entry", m0.get("class")));
                        }
                    } else if *s0 == EState::Recycled && *s1 == EState::Live {
                        if kind != "revive" {
                            self.viol("C24", "protected-class-removed", format!("class=recycled; op={kind}"), format!("{kind} as {iu} brought recycled entry {u} back"));
                            continue;
                        }
                        let (g, n) = pre.mod_grant(iu, &imo, m0);
                        if !(g.rem.contains("class") && g.rem_cls.contains("recycled")) {
                            let why = if n == 0 { "no-applicable-profile" } else { "not-listed" };
                            self.viol("C24", "revive-without-grant", format!("why={why}"), format!("revive as {iu} (memberof {imo:?}) of {u} succeeded; {n} modify profiles apply, removable attrs {:?}, removable classes {:?}", g.rem, g.rem_cls));
                        }
                    } else if s0 != s1 {
                        self.viol("C24", "illegal-state-change", format!("{s0:?}->{s1:?}; op={kind}"), format!("{kind} as {iu}: entry {u} went {s0:?} -> {s1:?}"));
                    } else if kind == "modify" {
                        self.check_modified(iu, &imo, u, m0, m1, &mod_attrs, &has_present, pre);
                    }
                }
                (None, None) => {}
            }
        }
        if kind == "create" && !found_created {
            self.out.probe("created entry not identified");
        }
    }

    #[allow(clippy::too_many_arguments)]
    fn check_modified(&mut self, iu: Uuid, imo: &BTreeSet<Uuid>, u: Uuid, m0: &ME, m1: &ME, mod_attrs: &BTreeSet<String>, has_present: &dyn Fn(&str) -> bool, pre: &St) {
        let mut grant: Option<(ModGrant, usize)> = None;
        for a in mod_attrs {
            let (v0, v1) = (strset(m0, a), strset(m1, a));
            if v0 == v1 {
                continue;
            }
            let (g, n) = grant.get_or_insert_with(|| pre.mod_grant(iu, imo, m0)).clone();
            let why = if n == 0 { "no-applicable-profile" } else { "not-listed" };
            let mut added: Vec<&String> = v1.difference(&v0).collect();
            let mut removed: Vec<&String> = v0.difference(&v1).collect();
            if a == "class" {
                // the member-of plugin owns this marker class
                added.retain(|c| c.as_str() != "memberof");
                removed.retain(|c| c.as_str() != "memberof");
                for c in &added {
                    if PROT_PRES.contains(&c.as_str()) {
                        self.viol("C24", "protected-class-added", format!("class={c}; op=modify"), format!("modify as {iu} added protected class {c} to {u}"));
                    } else if !(g.pres.contains("class") && g.pres_cls.contains(*c)) {
                        self.viol("C24", "modify-without-grant", format!("what=add-class; why={why}"), format!("modify as {iu} (memberof {imo:?}) added class {c} to {u}; {n} modify profiles apply: present attrs {:?}, present classes {:?}", g.pres, g.pres_cls));
                    }
                }
                for c in &removed {
                    if PROT_REM.contains(&c.as_str()) {
                        self.viol("C24", "protected-class-removed", format!("class={c}; op=modify"), format!("modify as {iu} removed protected class {c} from {u}"));
                    } else if !(g.rem.contains("class") && g.rem_cls.contains(*c)) {
                        self.viol("C24", "modify-without-grant", format!("what=remove-class; why={why}"), format!("modify as {iu} (memberof {imo:?}) removed class {c} from {u}; {n} modify profiles apply: removed attrs {:?}, removed classes {:?}", g.rem, g.rem_cls));
                    }
                }
                continue;
            }
            if !added.is_empty() && !g.pres.contains(a) {
                self.viol("C24", "modify-without-grant", format!("what=add-value; why={why}"), format!("modify as {iu} (memberof {imo:?}) added {a}={added:?} on {u}; {n} modify profiles apply granting present {:?}", g.pres));
            }
            if !removed.is_empty() && !g.rem.contains(a) {
                // A `present` on a single-valued attribute replaces the old value; kanidm counts that as a
                // present only, and so does the statement ("adds").
                let replaced = has_present(a) && pre.multi.get(a) == Some(&false) && g.pres.contains(a);
                if !replaced {
                    self.viol("C24", "modify-without-grant", format!("what=remove-value; why={why}"), format!("modify as {iu} (memberof {imo:?}) removed {a}={removed:?} on {u}; {n} modify profiles apply granting removed {:?}", g.rem));
                }
            }
            self.out.probe("modified attribute checked against grants");
        }
    }
}

// ------------------------------------------------------------------------------------------------
// C23 through the LDAP front-end (search and compare)
// ------------------------------------------------------------------------------------------------

use kanidm_proto::internal::{UatPurpose, UserAuthToken};
use kanidmd_lib::idm::ldap::{LdapBoundToken, LdapResponseState, LdapServer, LdapSession};
use ldap3_proto::proto::LdapOp;
use ldap3_proto::simple::{CompareRequest, LdapFilter, LdapSearchScope, SearchRequest as LdapSearchRequest, ServerOps};

/// LDAP attribute name → the kanidm attribute its values come from (own table, from the LDAP
/// gateway documentation; unknown names map to themselves).
fn ldap_source(a: &str) -> String {
    match a.to_lowercase().as_str() {
        "cn" | "uid" => "name".into(),
        "gecos" => "displayname".into(),
        "email" | "emailaddress" | "emailalternative" | "emailprimary" | "mail;primary" | "mail;alternative" => "mail".into(),
        "entryuuid" | "homedirectory" => "uuid".into(),
        "keys" | "sshpublickey" => "ssh_publickey".into(),
        "objectclass" => "class".into(),
        "uidnumber" => "gidnumber".into(),
        x => x.to_string(),
    }
}

fn to_ldap_filter(f: &ProtoFilter) -> LdapFilter {
    match f {
        ProtoFilter::Eq(a, v) => LdapFilter::Equality(a.clone(), v.clone()),
        ProtoFilter::Cnt(a, _) | ProtoFilter::Pres(a) => LdapFilter::Present(a.clone()),
        ProtoFilter::And(v) => LdapFilter::And(v.iter().map(to_ldap_filter).collect()),
        ProtoFilter::Or(v) => LdapFilter::Or(v.iter().map(to_ldap_filter).collect()),
        ProtoFilter::AndNot(x) => LdapFilter::Not(Box::new(to_ldap_filter(x))),
        ProtoFilter::SelfUuid => LdapFilter::Present("class".into()),
    }
}

fn ldap_filter_attrs(f: &LdapFilter, out: &mut BTreeSet<String>) {
    match f {
        LdapFilter::Equality(a, _) | LdapFilter::Present(a) => {
            out.insert(ldap_source(a));
        }
        LdapFilter::And(v) | LdapFilter::Or(v) => v.iter().for_each(|x| ldap_filter_attrs(x, out)),
        LdapFilter::Not(x) => ldap_filter_attrs(x, out),
        _ => {}
    }
}

impl Sim {
    fn ensure_ldap(&mut self) -> Result<(), String> {
        if self.ldap.is_some() {
            return Ok(());
        }
        let qs = self.qs.clone().ok_or("no server")?;
        let idm = boot_idm(qs, self.now()).map_err(|e| format!("idm boot: {e:?}"))?;
        let ldap = block(LdapServer::new(&idm.idms)).map_err(|e| format!("ldap boot: {e:?}"))?;
        self.idm = Some(idm);
        self.ldap = Some(ldap);
        self.snapshot()
    }

    fn do_ldap(&mut self, ev: &J, via: &str) -> String {
        if let Err(e) = self.ensure_ldap() {
            self.out.harness_error = Some(e);
            return "ldap unavailable".into();
        }
        let iu = juuid(&ev["i"]["u"]).unwrap_or(UUID_ANONYMOUS);
        let now = time::OffsetDateTime::UNIX_EPOCH + self.now();
        // A session token as the bind step hands out; no session record exists yet, which the server
        // accepts inside the token grace window (the delayed session write has not landed).
        let uat = UserAuthToken {
            session_id: uuid_for(9, self.ct),
            issued_at: now,
            expiry: None,
            purpose: UatPurpose::ReadOnly,
            uuid: iu,
            displayname: "sim".into(),
            spn: "sim".into(),
            mail_primary: None,
            ui_hints: BTreeSet::new(),
            limit_search_max_results: None,
            limit_search_max_filter_test: None,
        };
        let tok = LdapBoundToken { spn: "sim".into(), session_id: uat.session_id, effective_session: LdapSession::UserAuthToken(uat) };
        let basedn = "dc=example,dc=com";
        let ip = std::net::IpAddr::V4(std::net::Ipv4Addr::new(127, 0, 0, 1));
        vh::set_sim_now(Some(self.now()));
        let op = if via == "ldap" {
            let Some(pf) = jfilter(&ev["f"]) else { return "bad filter".into() };
            let attrs: Vec<String> = ev["attrs"].as_array().map(|a| a.iter().filter_map(|x| x.as_str().map(|s| s.to_string())).collect()).unwrap_or_else(|| vec!["*".into()]);
            ServerOps::Search(LdapSearchRequest { msgid: 1, base: basedn.into(), scope: LdapSearchScope::Subtree, filter: to_ldap_filter(&pf), attrs })
        } else {
            ServerOps::Compare(CompareRequest {
                msgid: 1,
                entry: format!("{}={},{basedn}", ev["rdn_a"].as_str().unwrap_or("name"), ev["rdn_v"].as_str().unwrap_or("x")),
                atype: ev["a"].as_str().unwrap_or("name").into(),
                val: ev["v"].as_str().unwrap_or("").into(),
            })
        };
        let filter_for_oracle = match &op {
            ServerOps::Search(sr) => Some(sr.filter.clone()),
            _ => None,
        };
        let res = {
            let idm = self.idm.as_ref().expect("idm");
            let ldap = self.ldap.as_ref().expect("ldap");
            block(ldap.do_op(&idm.idms, op, Some(tok), ip, uuid_for(10, self.ct)))
        };
        vh::set_sim_now(None);
        let msgs = match res {
            Ok(LdapResponseState::MultiPartResponse(v)) | Ok(LdapResponseState::BindMultiPartResponse(_, v)) => v,
            Ok(LdapResponseState::Respond(m)) => vec![m],
            Ok(_) => vec![],
            Err(e) => return errs(&e),
        };
        if via == "ldapcmp" {
            let txt = msgs.iter().map(|m| format!("{:?}", m.op)).collect::<Vec<_>>().join(" ");
            let verdict = if txt.contains("CompareTrue") {
                "true"
            } else if txt.contains("CompareFalse") {
                "false"
            } else {
                "other"
            };
            if verdict != "other" {
                self.out.probe("ldap compare answered true or false");
                let rdn_a = ldap_source(ev["rdn_a"].as_str().unwrap_or("name"));
                let mut terms = vec![ProtoFilter::Eq(rdn_a, ev["rdn_v"].as_str().unwrap_or("").to_string())];
                if verdict == "true" {
                    terms.push(ProtoFilter::Eq(ldap_source(ev["a"].as_str().unwrap_or("name")), ev["v"].as_str().unwrap_or("").to_string()));
                }
                let pf = ProtoFilter::And(terms);
                let mut fa = BTreeSet::new();
                filter_attrs(&pf, &mut fa);
                let differs = self.st.memberof(iu, false).1;
                let via = format!("ldap-compare-{verdict}");
                self.two_pass("C23", "ldap-compare", differs, &|s: &mut Sim| s.check_exists(iu, &pf, &fa, &via));
            }
            return format!("compare {verdict}");
        }
        let mut fattrs = BTreeSet::new();
        if let Some(f) = &filter_for_oracle {
            ldap_filter_attrs(f, &mut fattrs);
        }
        let mut n = 0;
        let mut h = 0u64;
        for m in &msgs {
            let LdapOp::SearchResultEntry(r) = &m.op else { continue };
            n += 1;
            let names: BTreeSet<String> = r.attributes.iter().filter(|a| !matches!(a.atype.as_str(), "dn" | "entrydn")).map(|a| ldap_source(&a.atype)).collect();
            h ^= fnv64(format!("{}{names:?}", r.dn).as_bytes());
            let rdn = r.dn.split(',').next().unwrap_or("").to_string();
            let found = self.st.ents.iter().find(|(u, (_, me))| {
                rdn == format!("uuid={u}") || rdn.strip_prefix("spn=").map(|s| has(me, "spn", s)).unwrap_or(false) || rdn.strip_prefix("name=").map(|s| has(me, "name", s)).unwrap_or(false)
            });
            let Some((u, (_, me))) = found.map(|(u, x)| (*u, x.clone())) else {
                self.viol("C23", "unknown-entry-returned", "via=ldap".into(), format!("ldap search as {iu} returned dn {} which names no entry in the snapshot", r.dn));
                continue;
            };
            let differs = self.st.memberof(iu, false).1;
            self.two_pass("C23", "ldap-search", differs, &|s: &mut Sim| s.check_row(iu, u, &names, &fattrs, None, "ldap"));
            if !rdn.starts_with("uuid=") {
                let (imo, _) = self.st.memberof(iu, self.strict);
                let (readable, _) = self.st.readable(iu, &imo, &me);
                if !readable.contains("spn") && !readable.contains("name") {
                    self.out.probe("ldap dn spells the name of an entry whose name and spn the caller cannot read");
                }
            }
        }
        if n > 0 {
            self.out.probe("ldap search returned entries");
        }
        format!("ldap rows {n} {h:x}")
    }
}

// ------------------------------------------------------------------------------------------------
// Generator
// ------------------------------------------------------------------------------------------------

const ALPHA: [&str; 12] = ["class", "uuid", "name", "displayname", "description", "mail", "legalname", "member", "memberof", "entry_managed_by", "spn", "sync_parent_uuid"];
const MODA: [&str; 9] = ["displayname", "description", "name", "mail", "legalname", "member", "class", "entry_managed_by", "sync_parent_uuid"];
const CLS: [&str; 10] = ["object", "person", "account", "group", "service_account", "system", "sync_object", "recycled", "tombstone", "dyngroup"];

#[derive(Clone)]
struct GAcp {
    uuid: Uuid,
    kinds: Vec<&'static str>,
    groups: Vec<Uuid>, // empty = entry-manager (or none)
    em: bool,
    attrs: Vec<String>,
    pres: Vec<String>,
    rem: Vec<String>,
    classes: Vec<String>,
    hint: Option<Uuid>,
    enabled: bool,
}

struct Gen {
    r: Rng,
    next_id: u64,
    k: u64,
    events: Vec<J>,
    users: Vec<Uuid>,
    groups: Vec<Uuid>,
    targets: Vec<Uuid>,
    created: Vec<Uuid>,
    names: BTreeMap<Uuid, String>,
    class_of: BTreeMap<Uuid, &'static str>,
    members: BTreeMap<Uuid, BTreeSet<Uuid>>,
    mgr: BTreeMap<Uuid, Uuid>,
    acps: Vec<GAcp>,
    recycled: Vec<Uuid>,
    sync_acct: Uuid,
    write_heavy: bool,
}

fn us(u: Uuid) -> String {
    u.to_string()
}

impl Gen {
    fn push(&mut self, mut ev: J) {
        ev["id"] = json!(self.next_id);
        self.next_id += 1;
        self.events.push(ev);
    }
    fn kk(&mut self) -> u64 {
        self.k += 1;
        self.k
    }
    fn shipped_groups() -> Vec<Uuid> {
        vec![UUID_IDM_PEOPLE_ADMINS, UUID_IDM_RECYCLE_BIN_ADMINS, UUID_IDM_GROUP_ADMINS, UUID_IDM_ACCESS_CONTROL_ADMINS, UUID_IDM_SERVICE_ACCOUNT_ADMINS, UUID_IDM_PEOPLE_PII_READ]
    }
    fn builtin_targets() -> Vec<Uuid> {
        vec![UUID_ADMIN, UUID_IDM_ADMIN, UUID_ANONYMOUS, UUID_DOMAIN_INFO, UUID_SYSTEM_CONFIG, UUID_IDM_ALL_PERSONS, UUID_IDM_PEOPLE_ADMINS, UUID_SYSTEM_INFO]
    }
    fn any_entity(&mut self) -> Uuid {
        let pools: [&Vec<Uuid>; 4] = [&self.targets, &self.users, &self.groups, &self.created];
        let w = [50, 20, 20, if self.created.is_empty() { 0 } else { 10 }];
        let p = pools[self.r.pick_weighted(&w)];
        if p.is_empty() {
            return self.users[0];
        }
        *self.r.pick(p)
    }
    fn op_target(&mut self) -> Uuid {
        match self.r.below(100) {
            0..=7 => *self.r.pick(&Self::builtin_targets()),
            8..=11 if !self.acps.is_empty() => self.r.pick(&self.acps).uuid,
            12..=19 if !self.recycled.is_empty() => *self.r.pick(&self.recycled),
            _ => self.any_entity(),
        }
    }
    fn subset(&mut self, from: &[&str], lo: usize, hi: usize) -> Vec<String> {
        let n = self.r.range(lo as u64, hi as u64) as usize;
        let mut v: Vec<&str> = from.to_vec();
        self.r.shuffle(&mut v);
        v.truncate(n.min(from.len()));
        v.sort();
        v.into_iter().map(|s| s.to_string()).collect()
    }

    fn person(&mut self, u: Uuid, name: &str) -> J {
        let mut e = json!({"class": ["object", "account", "person"], "name": [name], "uuid": [us(u)], "displayname": [format!("D {name}")]});
        if self.r.chance(1, 2) {
            e["mail"] = json!([format!("{name}@example.com")]);
        }
        if self.r.chance(1, 2) {
            e["legalname"] = json!([format!("Legal {name}")]);
        }
        if self.r.chance(1, 3) {
            e["description"] = json!([format!("about {name}")]);
        }
        e
    }

    fn leaf(&mut self, for_search: bool) -> J {
        let w = [26, 10, 14, 8, 5, 7, 6, 4, 6, if for_search { 8 } else { 0 }];
        match self.r.pick_weighted(&w) {
            0 => {
                let c = *self.r.pick(&["person", "group", "account", "service_account", "object", "object", "recycled"]);
                json!({"eq": ["class", c]})
            }
            1 => json!({"pres": *self.r.pick(&["class", "uuid", "name"])}),
            2 => json!({"eq": ["uuid", us(self.any_entity())]}),
            3 => {
                let u = self.any_entity();
                json!({"eq": ["name", self.names.get(&u).cloned().unwrap_or("nobody".into())]})
            }
            4 => json!({"cnt": ["name", *self.r.pick(&["t", "u", "g", "1"])]}),
            5 => json!("self"),
            6 => {
                let g = if self.r.chance(1, 4) { *self.r.pick(&Self::shipped_groups()) } else { *self.r.pick(&self.groups) };
                json!({"eq": ["memberof", us(g)]})
            }
            7 => {
                let m = if self.r.chance(1, 2) { *self.r.pick(&self.users) } else { *self.r.pick(&self.groups) };
                json!({"eq": ["entry_managed_by", us(m)]})
            }
            8 => json!({"pres": *self.r.pick(&["entry_managed_by", "mail", "description", "member", "legalname"])}),
            _ => {
                let u = self.any_entity();
                let n = self.names.get(&u).cloned().unwrap_or("nobody".into());
                match self.r.below(3) {
                    0 => json!({"eq": ["displayname", format!("D {n}")]}),
                    1 => json!({"eq": ["mail", format!("{n}@example.com")]}),
                    _ => json!({"eq": ["legalname", format!("Legal {n}")]}),
                }
            }
        }
    }

    fn filter(&mut self, depth: u32, for_search: bool) -> J {
        if depth >= 2 || self.r.chance(55, 100) {
            return self.leaf(for_search);
        }
        match self.r.below(3) {
            0 => json!({"and": [self.filter(depth + 1, for_search), self.filter(depth + 1, for_search)]}),
            1 => json!({"or": [self.filter(depth + 1, for_search), self.filter(depth + 1, for_search)]}),
            _ => json!({"and": [self.filter(depth + 1, for_search), {"andnot": self.leaf(for_search)}]}),
        }
    }

    /// Target filter built around a concrete entity (so that aligned operations have something to hit).
    fn hinted_filter(&mut self, x: Uuid) -> J {
        let cls = self.class_of.get(&x).copied().unwrap_or("object");
        match self.r.below(5) {
            0 => json!({"eq": ["uuid", us(x)]}),
            1 => json!({"eq": ["class", cls]}),
            2 => json!({"and": [{"eq": ["class", cls]}, {"andnot": self.leaf(false)}]}),
            3 => json!({"or": [{"eq": ["uuid", us(x)]}, self.leaf(false)]}),
            _ => json!({"pres": "class"}),
        }
    }

    fn gen_acp(&mut self) {
        let n = self.kk();
        let uuid = uuid_for(6, n);
        let name = format!("acp{n}");
        let mut kinds: Vec<&'static str> = vec![];
        let primary = if self.write_heavy { *self.r.pick(&["modify", "modify", "modify", "create", "delete", "search"]) } else { *self.r.pick(&["search", "search", "search", "search", "modify", "delete", "create"]) };
        kinds.push(primary);
        if primary != "search" && self.r.chance(60, 100) {
            kinds.push("search");
        }
        if self.r.chance(1, 8) {
            let extra = *self.r.pick(&["modify", "create", "delete"]);
            if !kinds.contains(&extra) {
                kinds.push(extra);
            }
        }
        let mut classes = vec!["object".to_string(), "access_control_profile".to_string()];
        for k in &kinds {
            classes.push(format!("access_control_{k}"));
        }
        let mut e = json!({"name": [name], "uuid": [us(uuid)], "description": ["generated"]});
        // receiver
        let mut groups = vec![];
        let mut em = false;
        match self.r.below(100) {
            0..=69 => {
                let g = if self.r.chance(1, 10) { *self.r.pick(&Self::shipped_groups()) } else { *self.r.pick(&self.groups) };
                groups.push(g);
                if self.r.chance(1, 5) {
                    let g2 = *self.r.pick(&self.groups);
                    if g2 != g {
                        groups.push(g2);
                    }
                }
                classes.push("access_control_receiver_group".into());
                e["acp_receiver_group"] = json!(groups.iter().map(|g| us(*g)).collect::<Vec<_>>());
            }
            70..=94 => {
                em = true;
                classes.push("access_control_receiver_entry_manager".into());
            }
            _ => {}
        }
        // target
        let mut hint = None;
        if !self.r.chance(1, 25) {
            classes.push("access_control_target_scope".into());
            let f = if self.r.chance(55, 100) {
                let x = if em && !self.mgr.is_empty() && self.r.chance(2, 3) {
                    let ks: Vec<Uuid> = self.mgr.keys().cloned().collect();
                    *self.r.pick(&ks)
                } else if kinds.contains(&"modify") && !self.recycled.is_empty() && self.r.chance(1, 4) {
                    *self.r.pick(&self.recycled)
                } else {
                    self.any_entity()
                };
                hint = Some(x);
                self.hinted_filter(x)
            } else {
                self.filter(0, false)
            };
            e["acp_targetscope"] = json!([f.to_string()]);
        }
        // attributes and classes
        let wide = self.r.chance(1, 3);
        let mut attrs: Vec<String> = if wide { ALPHA.iter().map(|s| s.to_string()).collect() } else { self.subset(&ALPHA, 1, 6) };
        if kinds.len() > 1 || self.r.chance(1, 2) {
            for must in ["uuid", "class"] {
                if !attrs.iter().any(|a| a == must) {
                    attrs.push(must.into());
                }
            }
        }
        let cls: Vec<String> = if wide || self.r.chance(1, 4) { CLS.iter().map(|s| s.to_string()).collect() } else { self.subset(&CLS, 1, 4) };
        let (mut g_pres, mut g_rem) = (vec![], vec![]);
        for k in &kinds {
            match *k {
                "search" => e["acp_search_attr"] = json!(attrs),
                "modify" => {
                    let pres = if self.r.chance(2, 3) { attrs.clone() } else { self.subset(&MODA, 1, 4) };
                    let rem = if self.r.chance(2, 3) { attrs.clone() } else { self.subset(&MODA, 0, 4) };
                    g_pres = pres.clone();
                    g_rem = rem.clone();
                    e["acp_modify_presentattr"] = json!(pres);
                    if !rem.is_empty() {
                        e["acp_modify_removedattr"] = json!(rem);
                    }
                    match self.r.below(3) {
                        0 => e["acp_modify_class"] = json!(cls),
                        1 => {
                            e["acp_modify_present_class"] = json!(cls);
                            e["acp_modify_remove_class"] = json!(self.subset(&CLS, 1, 5));
                        }
                        _ => {
                            e["acp_modify_class"] = json!(self.subset(&CLS, 1, 3));
                            e["acp_modify_remove_class"] = json!(cls);
                        }
                    }
                }
                "create" => {
                    e["acp_create_attr"] = json!(attrs);
                    e["acp_create_class"] = json!(cls);
                }
                _ => {}
            }
        }
        let mut enabled = true;
        if self.r.chance(15, 100) {
            e["acp_enable"] = json!(["false"]);
            enabled = false;
        } else if self.r.chance(1, 2) {
            e["acp_enable"] = json!(["true"]);
        }
        e["class"] = json!(classes);
        self.acps.push(GAcp { uuid, kinds, groups, em, attrs, pres: g_pres, rem: g_rem, classes: cls, hint, enabled });
        self.push(json!({"k": "icreate", "t": "acp_new", "e": e}));
    }

    fn gen_acp_edit(&mut self) {
        if self.acps.is_empty() {
            return self.gen_acp();
        }
        let i = self.r.below(self.acps.len() as u64) as usize;
        let a = self.acps[i].clone();
        let mods: Vec<J> = match self.r.below(6) {
            0 => {
                self.acps[i].enabled = false;
                vec![json!({"m": "purged", "a": "acp_enable"}), json!({"m": "present", "a": "acp_enable", "v": "false"})]
            }
            1 => {
                self.acps[i].enabled = true;
                vec![json!({"m": "purged", "a": "acp_enable"}), json!({"m": "present", "a": "acp_enable", "v": "true"})]
            }
            2 => {
                // replace the attribute list of one kind
                let attrs = self.subset(&ALPHA, 1, 5);
                let attr = match a.kinds[0] {
                    "search" => "acp_search_attr",
                    "modify" => *self.r.pick(&["acp_modify_presentattr", "acp_modify_removedattr"]),
                    "create" => "acp_create_attr",
                    _ => "description",
                };
                if attr == "description" {
                    vec![json!({"m": "present", "a": "description", "v": "edited"})]
                } else {
                    self.acps[i].attrs = attrs.clone();
                    vec![json!({"m": "set", "a": attr, "vs": attrs})]
                }
            }
            3 => {
                let f = self.filter(0, false);
                self.acps[i].hint = None;
                vec![json!({"m": "purged", "a": "acp_targetscope"}), json!({"m": "present", "a": "acp_targetscope", "v": f.to_string()})]
            }
            4 if !a.groups.is_empty() => {
                let g = *self.r.pick(&self.groups);
                self.acps[i].groups = vec![g];
                vec![json!({"m": "set", "a": "acp_receiver_group", "vs": [us(g)]})]
            }
            _ => {
                let one = self.r.pick(&ALPHA).to_string();
                let attr = if a.kinds.contains(&"search") { "acp_search_attr" } else if a.kinds.contains(&"modify") { "acp_modify_presentattr" } else { "description" };
                if self.r.chance(1, 2) {
                    vec![json!({"m": "present", "a": attr, "v": one})]
                } else {
                    vec![json!({"m": "removed", "a": attr, "v": one})]
                }
            }
        };
        self.push(json!({"k": "imod", "t": "acp_edit", "u": us(a.uuid), "mods": mods}));
    }

    fn gen_member(&mut self) {
        let g = if self.r.chance(1, 5) { *self.r.pick(&Self::shipped_groups()) } else { *self.r.pick(&self.groups) };
        let m = if self.r.chance(4, 5) { *self.r.pick(&self.users) } else { *self.r.pick(&self.groups) };
        if m == g {
            return;
        }
        let add = !self.members.get(&g).map(|s| s.contains(&m)).unwrap_or(false) || self.r.chance(1, 5);
        if add {
            self.members.entry(g).or_default().insert(m);
        } else {
            self.members.entry(g).or_default().remove(&m);
        }
        self.push(json!({"k": "imod", "t": "member", "u": us(g), "mods": [{"m": if add { "present" } else { "removed" }, "a": "member", "v": us(m)}]}));
    }

    fn gen_manager(&mut self) {
        let t = self.any_entity();
        if self.r.chance(1, 5) {
            self.mgr.remove(&t);
            self.push(json!({"k": "imod", "t": "manager", "u": us(t), "mods": [{"m": "purged", "a": "entry_managed_by"}]}));
        } else {
            let m = if self.r.chance(3, 5) { *self.r.pick(&self.users) } else { *self.r.pick(&self.groups) };
            self.mgr.insert(t, m);
            self.push(json!({"k": "imod", "t": "manager", "u": us(t), "mods": [{"m": "purged", "a": "entry_managed_by"}, {"m": "present", "a": "entry_managed_by", "v": us(m)}]}));
        }
    }

    /// closure of group membership as the generator believes it to be (only used to bias choices)
    fn users_in(&self, g: Uuid) -> Vec<Uuid> {
        let mut seen = BTreeSet::new();
        let mut stack = vec![g];
        let mut out = vec![];
        while let Some(x) = stack.pop() {
            if !seen.insert(x) {
                continue;
            }
            for m in self.members.get(&x).into_iter().flatten() {
                if self.users.contains(m) {
                    out.push(*m);
                } else {
                    stack.push(*m);
                }
            }
        }
        out.sort();
        out.dedup();
        out
    }

    fn scope(&mut self, rw: u32) -> &'static str {
        ["rw", "ro", "sync", "synch"][self.r.pick_weighted(&[rw, (100 - rw) * 5 / 10, (100 - rw) * 3 / 10, (100 - rw) * 2 / 10])]
    }

    /// (identity, profile it was chosen for) — with `aligned` the caller is someone the chosen profile names.
    fn pick_ident(&mut self, kind: &str, rw: u32) -> (J, Option<GAcp>) {
        let akind = if kind == "revive" { "modify" } else { kind };
        // someone holding a shipped administrative role that covers this kind of operation
        if self.r.chance(if kind == "revive" { 35 } else { 10 }, 100) {
            let g = match kind {
                "revive" => UUID_IDM_RECYCLE_BIN_ADMINS,
                "search" => *self.r.pick(&[UUID_IDM_PEOPLE_PII_READ, UUID_IDM_RECYCLE_BIN_ADMINS, UUID_IDM_PEOPLE_ADMINS]),
                _ => *self.r.pick(&[UUID_IDM_PEOPLE_ADMINS, UUID_IDM_GROUP_ADMINS, UUID_IDM_SERVICE_ACCOUNT_ADMINS]),
            };
            let pool = self.users_in(g);
            if !pool.is_empty() {
                let u = *self.r.pick(&pool);
                let sc = self.scope(88);
                return (json!({"u": us(u), "sc": sc}), None);
            }
        }
        let mut cands: Vec<GAcp> = self.acps.iter().filter(|a| a.kinds.contains(&akind)).cloned().collect();
        if self.r.chance(4, 5) {
            let good: Vec<GAcp> = cands.iter().filter(|a| a.enabled && a.hint.is_some()).cloned().collect();
            if !good.is_empty() {
                cands = good;
            }
        }
        if !cands.is_empty() && self.r.chance(70, 100) {
            let a = self.r.pick(&cands).clone();
            let pool: Vec<Uuid> = if a.em {
                a.hint.and_then(|h| self.mgr.get(&h).cloned()).map(|m| if self.users.contains(&m) { vec![m] } else { self.users_in(m) }).unwrap_or_default()
            } else {
                a.groups.iter().flat_map(|g| self.users_in(*g)).collect()
            };
            if !pool.is_empty() {
                let u = *self.r.pick(&pool);
                let sc = self.scope(rw.max(80));
                return (json!({"u": us(u), "sc": sc}), Some(a));
            }
        }
        let u = match self.r.below(100) {
            0..=4 => UUID_ANONYMOUS,
            5..=9 => self.any_entity(),
            _ => *self.r.pick(&self.users),
        };
        let sc = self.scope(rw);
        (json!({"u": us(u), "sc": sc}), None)
    }

    fn value_for(&mut self, a: &str) -> String {
        let k = self.kk();
        match a {
            "displayname" => format!("D{k}"),
            "description" => format!("d{k}"),
            "name" => format!("n{k}"),
            "mail" => format!("m{k}@example.com"),
            "legalname" => format!("L{k}"),
            "member" | "entry_managed_by" => us(if self.r.chance(1, 2) { *self.r.pick(&self.users) } else { *self.r.pick(&self.groups) }),
            "class" => self.r.pick(&CLS).to_string(),
            "sync_parent_uuid" => us(self.sync_acct),
            "uuid" => us(uuid_for(7, k)),
            _ => format!("v{k}"),
        }
    }

    fn gen_search(&mut self) {
        let (ident, acp) = self.pick_ident("search", 50);
        let via = ["ext", "exists", "recycle", "ldap", "ldapcmp"][self.r.pick_weighted(&[52, 18, 10, 13, 7])];
        let aligned_attrs: Vec<String> = acp.as_ref().map(|a| a.attrs.clone()).unwrap_or_default();
        let hint = acp.as_ref().and_then(|a| a.hint);
        if via == "ldapcmp" {
            let x = hint.unwrap_or_else(|| self.any_entity());
            let n = self.names.get(&x).cloned().unwrap_or("nobody".into());
            let (a, v) = match self.r.below(4) {
                0 => ("name".to_string(), n.clone()),
                1 => ("displayname".to_string(), format!("D {n}")),
                2 => ("class".to_string(), self.class_of.get(&x).copied().unwrap_or("object").to_string()),
                _ => ("description".to_string(), format!("about {n}")),
            };
            let (ra, rv) = if self.r.chance(3, 4) { ("name", n) } else { ("uuid", us(x)) };
            return self.push(json!({"k": "search", "via": via, "i": ident, "rdn_a": ra, "rdn_v": rv, "a": a, "v": v}));
        }
        let f = if let (Some(x), true) = (hint, self.r.chance(60, 100)) {
            // a filter over attributes the chosen profile lists, aimed at the entity it was built around
            let n = self.names.get(&x).cloned().unwrap_or("nobody".into());
            let usable: Vec<&String> = aligned_attrs.iter().filter(|a| matches!(a.as_str(), "uuid" | "name" | "class" | "displayname")).collect();
            if usable.is_empty() {
                self.filter(0, true)
            } else {
                let a = (*self.r.pick(&usable)).clone();
                let leaf = match a.as_str() {
                    "uuid" => json!({"eq": ["uuid", us(x)]}),
                    "name" => json!({"eq": ["name", n]}),
                    "class" => json!({"eq": ["class", self.class_of.get(&x).copied().unwrap_or("object")]}),
                    _ => json!({"eq": ["displayname", format!("D {n}")]}),
                };
                if self.r.chance(1, 4) {
                    json!({"or": [leaf, self.leaf(true)]})
                } else {
                    leaf
                }
            }
        } else {
            self.filter(0, true)
        };
        let attrs = if self.r.chance(40, 100) {
            J::Null
        } else if via == "ldap" {
            let mut v = self.subset(&["cn", "uid", "mail", "displayname", "objectclass", "entryuuid", "memberof", "description", "legalname", "name", "spn", "gecos"], 1, 4);
            if self.r.chance(1, 3) {
                v.push("*".into());
            }
            json!(v)
        } else {
            let mut v = self.subset(&ALPHA, 1, 4);
            if !aligned_attrs.is_empty() && self.r.chance(1, 2) {
                v.push(self.r.pick(&aligned_attrs).clone());
            }
            v.sort();
            v.dedup();
            json!(v)
        };
        self.push(json!({"k": "search", "via": via, "i": ident, "f": f, "attrs": attrs}));
    }

    fn uuid_filter(&mut self, x: Uuid) -> J {
        match self.r.below(100) {
            0..=79 => json!({"eq": ["uuid", us(x)]}),
            80..=87 => json!({"eq": ["name", self.names.get(&x).cloned().unwrap_or("nobody".into())]}),
            88..=93 => json!({"or": [{"eq": ["uuid", us(x)]}, {"eq": ["uuid", us(self.any_entity())]}]}),
            _ => json!({"eq": ["class", self.class_of.get(&x).copied().unwrap_or("person")]}),
        }
    }

    fn gen_modify(&mut self) {
        if !self.acps.is_empty() && self.r.chance(6, 100) {
            // a profile edited by a user (the shipped access-control administrators' grant)
            let pool = self.users_in(UUID_IDM_ACCESS_CONTROL_ADMINS);
            let u = if !pool.is_empty() && self.r.chance(4, 5) { *self.r.pick(&pool) } else { *self.r.pick(&self.users) };
            let sc = self.scope(85);
            let i = self.r.below(self.acps.len() as u64) as usize;
            let a = self.acps[i].clone();
            let mods = match self.r.below(3) {
                0 => {
                    let on = self.r.chance(1, 2);
                    self.acps[i].enabled = on;
                    vec![json!({"m": "purged", "a": "acp_enable"}), json!({"m": "present", "a": "acp_enable", "v": if on { "true" } else { "false" }})]
                }
                1 => vec![json!({"m": "present", "a": if a.kinds.contains(&"search") { "acp_search_attr" } else { "acp_modify_presentattr" }, "v": self.r.pick(&ALPHA).to_string()})],
                _ => vec![json!({"m": "present", "a": "description", "v": "edited by a user"})],
            };
            return self.push(json!({"k": "modify", "t": "modify-acp", "i": {"u": us(u), "sc": sc}, "f": {"eq": ["uuid", us(a.uuid)]}, "mods": mods, "typed": false}));
        }
        let (ident, acp) = self.pick_ident("modify", 72);
        let x = match acp.as_ref().and_then(|a| a.hint) {
            Some(h) if self.r.chance(3, 4) => h,
            _ => self.op_target(),
        };
        let f = self.uuid_filter(x);
        let pool: Vec<String> = match &acp {
            Some(a) if self.r.chance(3, 4) => {
                let v: Vec<String> = a.attrs.iter().filter(|s| MODA.contains(&s.as_str())).cloned().collect();
                if v.is_empty() {
                    MODA.iter().map(|s| s.to_string()).collect()
                } else {
                    v
                }
            }
            _ => MODA.iter().map(|s| s.to_string()).collect(),
        };
        let mut mods: Vec<J> = vec![];
        let mut typed = false;
        match self.r.below(100) {
            0..=5 => mods.push(json!({"m": "present", "a": "class", "v": *self.r.pick(&["system", "recycled", "tombstone", "domain_info", "dyngroup"])})),
            6..=10 => {
                mods.push(json!({"m": "present", "a": "class", "v": "sync_object"}));
                mods.push(json!({"m": "present", "a": "sync_parent_uuid", "v": us(self.sync_acct)}));
            }
            11..=13 => mods.push(json!({"m": "purged", "a": "class"})),
            14..=17 => mods.push(json!({"m": "removed", "a": "class", "v": *self.r.pick(&["recycled", "sync_object", "system", "tombstone", "person", "account"])})),
            18..=69 if acp.is_some() => {
                let a = acp.clone().expect("acp");
                let pres: Vec<String> = a.pres.iter().filter(|s| MODA.contains(&s.as_str()) && s.as_str() != "class").cloned().collect();
                let rem: Vec<String> = a.rem.iter().filter(|s| MODA.contains(&s.as_str()) && s.as_str() != "class").cloned().collect();
                match self.r.below(100) {
                    0..=64 if !pres.is_empty() => {
                        let at = self.r.pick(&pres).clone();
                        let v = self.value_for(&at);
                        mods.push(json!({"m": "present", "a": at, "v": v}));
                    }
                    65..=84 if !rem.is_empty() => {
                        let at = self.r.pick(&rem).clone();
                        if at == "name" || self.r.chance(1, 2) {
                            let v = self.value_for(&at);
                            mods.push(json!({"m": "removed", "a": at, "v": v}));
                        } else {
                            mods.push(json!({"m": "purged", "a": at}));
                        }
                    }
                    _ => {
                        let c = if a.classes.is_empty() { "group".to_string() } else { self.r.pick(&a.classes).clone() };
                        mods.push(json!({"m": if self.r.chance(3, 4) { "present" } else { "removed" }, "a": "class", "v": c}));
                    }
                }
            }
            _ => {
                let n = self.r.range(1, 3);
                for _ in 0..n {
                    let mut a = self.r.pick(&pool).clone();
                    if a == "class" && self.r.chance(1, 2) {
                        a = "description".into();
                    }
                    let v = self.value_for(&a);
                    match self.r.pick_weighted(&[40, 14, 12, 14, 8]) {
                        0 => mods.push(json!({"m": "present", "a": a, "v": v})),
                        1 => mods.push(json!({"m": "removed", "a": a, "v": v})),
                        2 => {
                            if a != "class" || self.r.chance(1, 4) {
                                mods.push(json!({"m": "purged", "a": a}))
                            } else {
                                mods.push(json!({"m": "present", "a": a, "v": v}))
                            }
                        }
                        3 => {
                            typed = true;
                            let vs: Vec<String> = if a == "class" {
                                let base = self.class_of.get(&x).copied().unwrap_or("person");
                                let mut c = match base {
                                    "person" => vec!["object", "account", "person"],
                                    "group" => vec!["object", "group"],
                                    _ => vec!["object", "account", "service_account"],
                                }
                                .into_iter()
                                .map(|s| s.to_string())
                                .collect::<Vec<_>>();
                                c.push(v);
                                c
                            } else {
                                vec![v]
                            };
                            mods.push(json!({"m": "set", "a": a, "vs": vs}))
                        }
                        _ => {
                            typed = true;
                            mods.push(json!({"m": "assert", "a": a, "v": v}));
                            let a2 = self.r.pick(&pool).clone();
                            let v2 = self.value_for(&a2);
                            mods.push(json!({"m": "present", "a": a2, "v": v2}));
                        }
                    }
                }
            }
        }
        if self.r.chance(1, 6) {
            typed = true;
        }
        if mods.iter().any(|m| m["a"] == "name" && m["m"] == "present") {
            // keep the generator's idea of names roughly current (bias only)
        }
        self.push(json!({"k": "modify", "i": ident, "f": f, "mods": mods, "typed": typed}));
    }

    fn gen_create(&mut self) {
        let (ident, acp) = self.pick_ident("create", 75);
        let k = self.kk();
        let u = uuid_for(5, k);
        let name = format!("c{k}");
        let mut kind = *self.r.pick(&["person", "person", "group", "service_account"]);
        if let Some(h) = acp.as_ref().and_then(|a| a.hint) {
            if self.r.chance(3, 4) {
                kind = self.class_of.get(&h).copied().unwrap_or(kind);
            }
        }
        let allowed = |a: &str| acp.as_ref().map(|p| p.attrs.iter().any(|x| x == a)).unwrap_or(true);
        let mut e = match kind {
            "person" => json!({"class": ["object", "account", "person"], "name": [name], "displayname": [format!("D {name}")]}),
            "group" => json!({"class": ["object", "group"], "name": [name]}),
            _ => json!({"class": ["object", "account", "service_account"], "name": [name], "displayname": [format!("D {name}")]}),
        };
        if self.r.chance(4, 5) && (allowed("uuid") || self.r.chance(1, 5)) {
            e["uuid"] = json!([us(u)]);
        }
        if self.r.chance(1, 4) && (allowed("description") || self.r.chance(1, 5)) {
            e["description"] = json!([format!("about {name}")]);
        }
        if kind == "person" && self.r.chance(1, 4) && (allowed("mail") || self.r.chance(1, 5)) {
            e["mail"] = json!([format!("{name}@example.com")]);
        }
        if self.r.chance(1, 5) && (allowed("entry_managed_by") || self.r.chance(1, 5)) {
            let m = *self.r.pick(&self.users);
            e["entry_managed_by"] = json!([us(m)]);
        }
        match self.r.below(100) {
            0..=7 => e["class"].as_array_mut().expect("class").push(json!(*self.r.pick(&["system", "recycled", "tombstone", "dyngroup"]))),
            8..=11 => {
                e["class"].as_array_mut().expect("class").push(json!("sync_object"));
                e["sync_parent_uuid"] = json!([us(self.sync_acct)]);
            }
            12..=13 => e["uuid"] = json!(["00000000-0000-0000-0000-00000000fe01"]),
            _ => {}
        }
        self.created.push(u);
        self.names.insert(u, name);
        self.class_of.insert(u, if kind == "person" { "person" } else if kind == "group" { "group" } else { "service_account" });
        self.push(json!({"k": "create", "i": ident, "e": e}));
    }

    fn gen_delete(&mut self) {
        let (ident, acp) = self.pick_ident("delete", 75);
        let x = match acp.as_ref().and_then(|a| a.hint) {
            Some(h) if self.r.chance(3, 4) => h,
            _ => self.op_target(),
        };
        let f = self.uuid_filter(x);
        self.recycled.push(x);
        self.push(json!({"k": "delete", "i": ident, "f": f}));
    }

    fn gen_revive(&mut self) {
        let (ident, acp) = self.pick_ident("modify", 75);
        let x = match acp.as_ref().and_then(|a| a.hint) {
            Some(h) if self.recycled.contains(&h) => h,
            _ if !self.recycled.is_empty() && self.r.chance(4, 5) => *self.r.pick(&self.recycled),
            _ => self.op_target(),
        };
        let f = if self.r.chance(9, 10) { json!({"eq": ["uuid", us(x)]}) } else { json!({"eq": ["class", "person"]}) };
        self.push(json!({"k": "revive", "i": ident, "f": f}));
    }
}

pub fn generate(property: &str, seed: u64, tier: Tier) -> Plan {
    let write_heavy = property == "C24";
    let mut k = Rng::stream(seed, "knobs");
    let file = k.chance(35, 100);
    let n_users = k.range(3, 5);
    let n_groups = k.range(3, 5);
    let n_targets = k.range(4, 7);
    let n_events = match tier {
        Tier::Quick => k.range(70, 120),
        Tier::Thorough => k.range(80, 200),
    } as usize;
    let mut g = Gen {
        r: Rng::stream(seed, "events"),
        next_id: 1,
        k: 0,
        events: vec![],
        users: vec![],
        groups: vec![],
        targets: vec![],
        created: vec![],
        names: BTreeMap::new(),
        class_of: BTreeMap::new(),
        members: BTreeMap::new(),
        mgr: BTreeMap::new(),
        acps: vec![],
        recycled: vec![],
        sync_acct: uuid_for(4, 0),
        write_heavy,
    };
    // population (ordinary, droppable events)
    for i in 0..n_users {
        let u = uuid_for(1, i);
        let name = format!("u{i}");
        let e = g.person(u, &name);
        g.users.push(u);
        g.names.insert(u, name);
        g.class_of.insert(u, "person");
        g.push(json!({"k": "icreate", "t": "user", "e": e}));
    }
    for i in 0..n_groups {
        let u = uuid_for(2, i);
        let name = format!("g{i}");
        let mut members: Vec<Uuid> = vec![];
        for x in g.users.clone() {
            if g.r.chance(if i == 0 { 70 } else { 40 }, 100) {
                members.push(x);
            }
        }
        if i > 0 && g.r.chance(1, 2) {
            members.push(uuid_for(2, g.r.below(i))); // nesting
        }
        g.groups.push(u);
        g.names.insert(u, name.clone());
        g.class_of.insert(u, "group");
        g.members.insert(u, members.iter().cloned().collect());
        let mut e = json!({"class": ["object", "group"], "name": [name], "uuid": [us(u)]});
        if !members.is_empty() {
            e["member"] = json!(members.iter().map(|m| us(*m)).collect::<Vec<_>>());
        }
        g.push(json!({"k": "icreate", "t": "group", "e": e}));
    }
    g.push(json!({"k": "icreate", "t": "syncacct", "e": {"class": ["object", "sync_account"], "name": ["sync0"], "uuid": [us(g.sync_acct)]}}));
    for i in 0..n_targets {
        let u = uuid_for(3, i);
        let name = format!("t{i}");
        let kind = *g.r.pick(&["person", "person", "group", "service_account", "syncperson"]);
        let mut e = match kind {
            "person" | "syncperson" => g.person(u, &name),
            "group" => json!({"class": ["object", "group"], "name": [name], "uuid": [us(u)], "description": [format!("about {name}")]}),
            _ => json!({"class": ["object", "account", "service_account"], "name": [name], "uuid": [us(u)], "displayname": [format!("D {name}")]}),
        };
        if kind == "syncperson" {
            e["class"].as_array_mut().expect("class").push(json!("sync_object"));
            e["sync_parent_uuid"] = json!([us(g.sync_acct)]);
        }
        if g.r.chance(1, 2) {
            let m = if g.r.chance(3, 5) { *g.r.pick(&g.users.clone()) } else { *g.r.pick(&g.groups.clone()) };
            e["entry_managed_by"] = json!([us(m)]);
            g.mgr.insert(u, m);
        }
        g.targets.push(u);
        g.names.insert(u, name);
        g.class_of.insert(u, if kind == "group" { "group" } else if kind == "service_account" { "service_account" } else { "person" });
        g.push(json!({"k": "icreate", "t": "target", "e": e}));
    }
    for sg in Gen::shipped_groups() {
        if g.r.chance(1, 2) {
            let m = *g.r.pick(&g.users.clone());
            g.members.entry(sg).or_default().insert(m);
            g.push(json!({"k": "imod", "t": "member", "u": us(sg), "mods": [{"m": "present", "a": "member", "v": us(m)}]}));
        }
    }
    if g.r.chance(70, 100) {
        // a broad reader profile, so that write operations find their candidates
        let n = g.kk();
        let uuid = uuid_for(6, n);
        let rg = g.groups[0];
        let attrs: Vec<String> = ["uuid", "class", "name", "spn", "displayname"].iter().map(|s| s.to_string()).collect();
        let tf = if g.r.chance(1, 2) { json!({"pres": "class"}) } else { json!({"or": [{"eq": ["class", "person"]}, {"eq": ["class", "group"]}, {"eq": ["class", "service_account"]}]}) };
        g.acps.push(GAcp { uuid, kinds: vec!["search"], groups: vec![rg], em: false, attrs: attrs.clone(), pres: vec![], rem: vec![], classes: vec![], hint: None, enabled: true });
        g.push(json!({"k": "icreate", "t": "acp_new", "e": {
            "class": ["object", "access_control_profile", "access_control_search", "access_control_receiver_group", "access_control_target_scope"],
            "name": [format!("acp{n}")], "uuid": [us(uuid)], "acp_receiver_group": [us(rg)], "acp_targetscope": [tf.to_string()], "acp_search_attr": attrs
        }}));
    }
    for _ in 0..g.r.range(3, 6) {
        g.gen_acp();
    }
    let w: [u32; 14] = if write_heavy {
        //  acp  edit acpdel member mgr idel irev purge search modify create delete revive restart
        [9, 8, 1, 6, 4, 4, 2, 1, 8, 26, 10, 9, 7, if file { 3 } else { 0 }]
    } else {
        [10, 10, 1, 8, 4, 4, 2, 1, 44, 5, 2, 3, 2, if file { 3 } else { 0 }]
    };
    // Group cycle with an outer edge that is cut later (nested membership is state the grant
    // decision depends on; cycles are legal in kanidm).
    let mut cut: Option<(usize, Uuid, Uuid)> = None;
    if g.groups.len() >= 3 && g.r.chance(40, 100) {
        let mut gs = g.groups.clone();
        g.r.shuffle(&mut gs);
        let (x, y, z) = (gs[0], gs[1], gs[2]);
        for (grp, m) in [(y, x), (x, y), (z, x)] {
            g.members.entry(grp).or_default().insert(m);
            g.push(json!({"k": "imod", "t": "member", "u": us(grp), "mods": [{"m": "present", "a": "member", "v": us(m)}]}));
        }
        cut = Some((n_events / 4 + g.r.below((n_events / 2) as u64) as usize, z, x));
    }
    for i in 0..n_events {
        if let Some((at, z, x)) = cut {
            if at == i {
                g.members.entry(z).or_default().remove(&x);
                g.push(json!({"k": "imod", "t": "member", "u": us(z), "mods": [{"m": "removed", "a": "member", "v": us(x)}]}));
            }
        }
        match g.r.pick_weighted(&w) {
            0 => g.gen_acp(),
            1 => g.gen_acp_edit(),
            2 => {
                if !g.acps.is_empty() {
                    let i = g.r.below(g.acps.len() as u64) as usize;
                    let a = g.acps.remove(i);
                    g.push(json!({"k": "idel", "t": "acp_delete", "u": us(a.uuid)}));
                }
            }
            3 => g.gen_member(),
            4 => g.gen_manager(),
            5 => {
                let x = g.any_entity();
                g.recycled.push(x);
                g.push(json!({"k": "idel", "u": us(x)}));
            }
            6 => {
                if !g.recycled.is_empty() {
                    let x = *g.r.pick(&g.recycled.clone());
                    g.push(json!({"k": "irev", "u": us(x)}));
                }
            }
            7 => g.push(json!({"k": "purge", "days": 8})),
            8 => g.gen_search(),
            9 => g.gen_modify(),
            10 => g.gen_create(),
            11 => g.gen_delete(),
            12 => g.gen_revive(),
            _ => g.push(json!({"k": "restart"})),
        }
    }
    Plan { property: property.to_string(), seed, cfg: json!({"file": file}), events: g.events }
}

pub fn execute(plan: &Plan) -> Outcome {
    static SELF_TEST: std::sync::OnceLock<Result<(), String>> = std::sync::OnceLock::new();
    if let Err(e) = SELF_TEST.get_or_init(self_test) {
        return Outcome { harness_error: Some(format!("access model self-test failed: {e}")), ..Default::default() };
    }
    let file = plan.cfg["file"].as_bool().unwrap_or(false);
    entropy::swap_stream(Some(Rng::new(plan.seed ^ 0xacce55)));
    let empty = St { ents: BTreeMap::new(), acps: vec![], up: BTreeMap::new(), norm: BTreeMap::new(), multi: BTreeMap::new(), domain: String::new(), digest: 0, gdigest: 0 };
    let mut sim = Sim {
        file: file.then(|| Scratch::new(&format!("acc-{:x}", plan.seed))),
        qs: None,
        idm: None,
        ldap: None,
        ct: BASE_EPOCH,
        st: empty,
        out: Outcome::default(),
        step: 0,
        seed: plan.seed,
        strict: false,
    };
    for p in [
        "search returned entries",
        "exists true",
        "entry returned with reduced attribute set",
        "recycle search returned recycled entry",
        "ldap search returned entries",
        "ldap compare answered true or false",
        "modify by a user succeeded",
        "create by a user succeeded",
        "delete by a user succeeded",
        "revive by a user succeeded",
        "modify refused: AccessDenied",
        "modified attribute checked against grants",
        "identity memberof differs from group closure",
        "an access was decided by a stale recorded membership",
    ] {
        sim.out.probe0(p);
    }
    if let Err(e) = sim.boot().and_then(|_| sim.snapshot()) {
        entropy::swap_stream(None);
        return Outcome { harness_error: Some(e), ..Default::default() };
    }
    if std::env::var("VERIF_TRACE").map(|v| v == "2").unwrap_or(false) {
        eprintln!("BOOT full={:016x} g={:016x} draws={}", sim.st.digest, sim.st.gdigest, entropy::draws());
        for (u, (st, me)) in &sim.st.ents {
            eprintln!("ENT {u} {st:?} {:016x} {:?}", fnv64(format!("{me:?}").as_bytes()), me.get("class"));
        }
    }
    let mut kinds: Vec<u64> = vec![];
    for (i, ev) in plan.events.iter().enumerate() {
        sim.step = i;
        let id = ev["id"].as_u64().unwrap_or(i as u64);
        sim.apply(id, ev);
        let label = ev["t"].as_str().or(ev["k"].as_str()).unwrap_or("");
        let label = if ev["k"] == "search" { format!("search-{}", ev["via"].as_str().unwrap_or("ext")) } else { label.to_string() };
        kinds.push(fnv64(label.as_bytes()));
        if kinds.len() >= 3 {
            let n = kinds.len();
            sim.out.trigrams.push(kinds[n - 3].rotate_left(21) ^ kinds[n - 2].rotate_left(7) ^ kinds[n - 1]);
        }
        if sim.out.harness_error.is_some() {
            break;
        }
    }
    vh::set_sim_now(None);
    entropy::swap_stream(None);
    let mut out = std::mem::take(&mut sim.out);
    let p = |k: &str| out.probes.get(k).copied().unwrap_or(0);
    out.nontrivial = p("search returned entries") + p("exists true") + p("modify by a user succeeded") + p("create by a user succeeded") + p("delete by a user succeeded") + p("revive by a user succeeded") > 0;
    out.states.sort();
    out.states.dedup();
    drop(sim);
    out
}

// ------------------------------------------------------------------------------------------------
// Scenarios
// ------------------------------------------------------------------------------------------------

pub struct AccessScenario {
    id: &'static str,
}

impl Scenario for AccessScenario {
    fn property(&self) -> &'static str {
        self.id
    }
    fn engine(&self) -> &'static str {
        "E5 access"
    }
    fn budget(&self, tier: Tier) -> Budget {
        match tier {
            Tier::Quick => Budget { runs: 320, wall_cap_s: 100 },
            Tier::Thorough => Budget { runs: 30_000, wall_cap_s: 1500 },
        }
    }
    fn generate(&self, seed: u64, tier: Tier) -> Plan {
        generate(self.id, seed, tier)
    }
    fn execute(&self, plan: &Plan) -> Outcome {
        execute(plan)
    }
    fn rule(&self) -> String {
        let focus = if self.id == "C23" {
            "search-heavy mix (search_ext with and without requested attributes, exists, recycle-bin search, LDAP search, LDAP compare)"
        } else {
            "write-heavy mix (modify with present/removed/purged/set/assert incl. class edits, create, delete, revive)"
        };
        format!(
            "A run = one real kanidm server (in-memory or file-backed with restarts) + an explicit event list: a generated population (persons, nested groups, service accounts, a sync-owned person, entry managers), generated access control profiles (group or entry-manager receiver, random target filters, attribute/class sets, enabled or not), administrative edits of profiles/memberships/managers/deletions between user operations, and user operations as identities of every scope ({focus}). After every event the whole database is read back and the reference grant model is rebuilt from the profile entries found there (shipped and generated). A run is non-trivial when at least one user search returned entries / answered true or one user write succeeded (so a grant was positively evaluated); distinct = distinct digests of the grant-relevant database state (generated entries, profile entries, shipped groups' member lists) reached after events."
        )
    }
    fn components(&self) -> J {
        json!({
            "real": ["kanidmd_lib QueryServer (access controls, filter resolve cache, plugins incl. member-of/refint/protected rules, backend, SQLite)", "event constructors used by the REST actors (SearchEvent::from_message/from_internal_message/from_internal_recycle_message, ExistsEvent, ModifyEvent::from_message/from_internal_parts, CreateEvent::from_message, DeleteEvent::from_message, ReviveRecycledEvent::from_parts)", "IdmServer + LdapServer::do_op for LDAP search/compare"],
            "stub": ["token validation: identities are built from the caller's current entry with Identity::from_impersonate_entry_readwrite + project_with_scope (LDAP: a hand-built session token inside its grace window)"],
            "not_run": ["HTTP layer", "SCIM endpoints", "replication (profiles are only changed locally)", "OAuth2/application/sync-account built-in visibility rules (no such entries or callers are generated)"]
        })
    }
    fn assumptions(&self) -> Vec<String> {
        vec![
            "The reference model reads profiles, memberships and managers from the committed database; kanidm's in-memory profile set must agree with it after every commit and restart — that agreement is part of what is tested.".into(),
            "Where the model cannot evaluate a target filter (unmodelled syntax, reference given by name) the profile counts as applicable: the oracles can miss a leak there but cannot raise a false alarm.".into(),
            "A `present` on a single-valued attribute that replaces the old value is counted as an addition only (kanidm's and the statement's reading).".into(),
            "Plugin-maintained data (memberof, directmemberof, spn, dynmember, the `memberof` marker class, change ids) changing on other entries is not attributed to the caller.".into(),
            "sampled, not exhaustive: a clean batch is evidence, not proof".into(),
        ]
    }
}

pub fn scenarios() -> Vec<Box<dyn Scenario>> {
    vec![Box::new(AccessScenario { id: "C23" }), Box::new(AccessScenario { id: "C24" })]
}
