//! E5 — IDM front ends under a simulated clock.
//!
//! * C40 "E5 idm/ldap": the LDAP gateway (`LdapServer::do_op`, driven exactly as
//!   `kanidmd_core::ldaps` + `QueryServerReadV1::handle_ldaprequest` drive it: wire codec round trip,
//!   `ServerOps::try_from`, per-connection bound token) is read-only, yields only anonymous-level
//!   rights for password / application binds, honours the unix-bind flag and the application's linked
//!   group, and answers searches exactly like the native search path does for the same identity.
//! * C49 "E5 idm/validity": no front end authenticates, or releases a credential of, an account that
//!   is outside its validity window — whoever asks.
//!
//! One real `IdmServer` (production boot path) per run; everything a run does is in cfg + events.
use crate::driver::{Budget, Outcome, Plan, Scenario, Tier};
use crate::dump::Dump;
use crate::node::{block, boot_idm, boot_qs, poll_now, Idm, NodeCfg, Scratch};
use crate::rng::{fnv64, uuid_for, Rng};
use bytes::BytesMut;
use compact_jwt::JwsCompact;
use kanidm_proto::internal::{Filter as ProtoFilter, SearchRequest as ProtoSearchRequest};
use kanidm_proto::oauth2::{
    AccessTokenIntrospectRequest, AccessTokenRequest, AuthorisationRequest, ClientPostAuth, GrantTypeReq, ResponseType,
};
use kanidm_proto::v1::{AuthCredential, AuthIssueSession, AuthMech, AuthStep};
use kanidmd_lib::credential::Credential;
use kanidmd_lib::entry::{Entry, EntryInit, EntryNew};
use kanidmd_lib::event::SearchEvent;

use kanidmd_lib::idm::application::GenerateApplicationPasswordEvent;
use kanidmd_lib::idm::authentication::{AuthState, ClientAuthInfo, ReauthRequest};
use kanidmd_lib::idm::delayed::DelayedAction;
use kanidmd_lib::idm::event::{
    AuthEvent, RadiusAuthTokenEvent, RegenerateRadiusSecretEvent, UnixPasswordChangeEvent, UnixUserAuthEvent, UnixUserTokenEvent,
};
use kanidmd_lib::idm::ldap::{LdapBoundToken, LdapResponseState, LdapServer};
use kanidmd_lib::idm::oauth2::{AuthorisationRequestContext, AuthoriseResponse};
use kanidmd_lib::idm::server::IdmServerTransaction;
use kanidmd_lib::idm::serviceaccount::GenerateApiTokenEvent;
use kanidmd_lib::prelude::*;
use kanidmd_lib::verif_hooks as vh;
use ldap3_proto::proto::{
    LdapAddRequest, LdapBindCred, LdapBindRequest, LdapCompareRequest, LdapDerefAliases, LdapExtendedRequest, LdapFilter, LdapModify,
    LdapModifyDNRequest, LdapModifyRequest, LdapModifyType, LdapMsg, LdapOp, LdapPartialAttribute, LdapResultCode, LdapSearchRequest,
    LdapSearchScope, LdapSubstringFilter, SaslCredentials,
};
use ldap3_proto::simple::{DisconnectionNotice, ServerOps};
use ldap3_proto::LdapCodec;
use serde::{Deserialize, Serialize};
use serde_json::{json, Value as J};
use std::collections::BTreeMap;
use std::net::{IpAddr, Ipv4Addr};
use std::path::PathBuf;
use std::str::FromStr;
use std::time::Duration;
use time::OffsetDateTime;
use tokio_util::codec::{Decoder, Encoder};

pub const BASE_EPOCH: u64 = crate::cluster::BASE_EPOCH;
const DAY: u64 = 86_400;
const BASEDN: &str = "dc=example,dc=com";
const DOMAIN: &str = "example.com";
const K: u64 = 0x9E37_79B9_7F4A_7C15;
const HIDDEN_CLASSES: [&str; 3] = ["classtype", "attributetype", "access_control_profile"];

// ------------------------------------------------------------------------------------------------
// Plan vocabulary
// ------------------------------------------------------------------------------------------------

#[derive(Clone, Debug, Serialize, Deserialize)]
pub struct PersonSpec {
    pub u: Uuid,
    pub name: String,
    pub gid: Option<u32>,
    pub mail: Vec<String>,
    pub pw: Option<String>,
    pub unix_pw: Option<String>,
    pub radius: bool,
    pub from: Option<u64>,
    pub to: Option<u64>,
}

#[derive(Clone, Debug, Serialize, Deserialize)]
pub struct GroupSpec {
    pub u: Uuid,
    pub name: String,
    pub gid: Option<u32>,
    pub members: Vec<Uuid>,
}

#[derive(Clone, Debug, Serialize, Deserialize)]
pub struct AppSpec {
    pub u: Uuid,
    pub name: String,
    pub group: Uuid,
}

#[derive(Clone, Debug, Serialize, Deserialize)]
pub struct SaSpec {
    pub u: Uuid,
    pub name: String,
    /// built-in groups this service account is added to
    pub join: Vec<Uuid>,
    pub from: Option<u64>,
    pub to: Option<u64>,
}

#[derive(Clone, Debug, Serialize, Deserialize)]
pub struct Cfg {
    pub file: bool,
    pub conns: usize,
    /// deliver queued delayed actions (session records …) right after the event that queued them
    pub auto_deliver: bool,
    /// create the OAuth2 client `rs0` (basic, PKCE not required, scope openid for all persons)
    #[serde(default)]
    pub oauth2: bool,
    /// members added to idm_unix_authentication_read (who may read POSIX attributes)
    pub posix_readers: Vec<Uuid>,
    pub persons: Vec<PersonSpec>,
    pub groups: Vec<GroupSpec>,
    pub apps: Vec<AppSpec>,
    pub sas: Vec<SaSpec>,
}

/// A secret presented by a client: either a literal or something a previous event of this run
/// returned (application password, API token, session token, RADIUS secret), named by label.
#[derive(Clone, Debug, Serialize, Deserialize)]
#[serde(rename_all = "snake_case")]
pub enum Sec {
    Lit(String),
    Ref(String),
}

#[derive(Clone, Debug, Serialize, Deserialize)]
#[serde(tag = "k", rename_all = "snake_case")]
pub enum Ev {
    /// domain flag ldap_allow_unix_pw_bind
    Flag { v: bool },
    /// account policy allow_primary_cred_fallback on idm_all_persons
    Fallback { v: bool },
    Member { g: Uuid, m: Uuid, add: bool },
    SetUnixPw { u: Uuid, pw: String },
    SetPw { u: Uuid, pw: String },
    GenAppPw { u: Uuid, app: Uuid, label: String },
    GenToken {
        sa: Uuid,
        label: String,
        rw: bool,
        /// absolute expiry of the token (seconds since the epoch)
        #[serde(default)]
        exp: Option<u64>,
    },
    GenRadius { u: Uuid, label: String },
    /// interactive password login; the session token is remembered under `label`
    Login { name: String, pw: String, label: String, privileged: bool, target: Uuid },
    /// first half of an interactive login (init + begin); the auth session id is kept under `label`
    LoginInit { name: String, label: String, target: Uuid },
    /// second half (credential step) of the login started under `label`
    LoginCred { label: String, pw: String, target: Uuid },
    /// anonymous interactive login, token kept under `label`
    LoginAnon { label: String },
    Window { u: Uuid, from: Option<u64>, to: Option<u64> },
    /// `IdmServerProxyWriteTransaction::disable_account`
    Disable { name: String, u: Uuid },
    Advance { secs: u64 },
    Deliver {},
    DropDelayed {},
    Restart {},
    /// simple bind on connection `c`
    LdapBind { c: usize, dn: String, sec: Sec, target: Option<Uuid>, app: Option<Uuid> },
    /// any other LDAP message on connection `c` (JSON form of `ldap3_proto::LdapMsg`)
    LdapMsg { c: usize, msg: J, target: Option<Uuid> },
    /// C49: one attempt through one front end on behalf of / against account `target`
    Try { path: String, target: Uuid, name: String, sec: Sec, by: Option<String>, app: Option<String> },
}

impl Ev {
    fn kind(&self) -> String {
        match self {
            Ev::LdapMsg { msg, .. } => format!("ldap:{}", msg.get("op").and_then(|o| o.as_object()).and_then(|o| o.keys().next().cloned()).or_else(|| msg.get("op").and_then(|o| o.as_str()).map(|s| s.to_string())).unwrap_or_default()),
            Ev::Try { path, .. } => format!("try:{path}"),
            other => serde_json::to_value(other).ok().and_then(|j| j.get("k").and_then(|k| k.as_str()).map(|s| s.to_string())).unwrap_or_default(),
        }
    }
}

// ------------------------------------------------------------------------------------------------
// World
// ------------------------------------------------------------------------------------------------

#[derive(Clone, Debug, PartialEq, Eq)]
enum BindClass {
    Anonymous,
    /// name / spn / uuid DN + password
    Account,
    /// DN with an app= component
    Application,
    /// empty DN or dn=token with a token as password
    Token(String),
}

struct Conn {
    uat: Option<LdapBoundToken>,
    class: Option<BindClass>,
    /// account the bind DN named (C49 bookkeeping)
    target: Option<Uuid>,
}

#[derive(Clone, Debug, PartialEq, Eq)]
enum LdapSummary {
    Bound,
    BindRefused(String),
    /// entries (dn → attr → values) + final result code
    Search(BTreeMap<String, BTreeMap<String, Vec<Vec<u8>>>>, String),
    Compare(String),
    Whoami(String),
    Unbind,
    Disconnect(String),
    Other(String),
    Dropped(String),
}

impl LdapSummary {
    fn short(&self) -> String {
        match self {
            LdapSummary::Bound => "bound".into(),
            LdapSummary::BindRefused(c) => format!("bind-refused:{c}"),
            LdapSummary::Search(m, c) => format!("search:{}:{c}:{:016x}", m.len(), fnv64(format!("{m:?}").as_bytes())),
            LdapSummary::Compare(c) => format!("compare:{c}"),
            LdapSummary::Whoami(c) => format!("whoami:{c}"),
            LdapSummary::Unbind => "unbind".into(),
            LdapSummary::Disconnect(c) => format!("disconnect:{c}"),
            LdapSummary::Other(c) => format!("other:{c}"),
            LdapSummary::Dropped(c) => format!("dropped:{c}"),
        }
    }
}

struct World {
    prop: &'static str,
    seed: u64,
    cfg: Cfg,
    _scratch: Option<Scratch>,
    path: Option<PathBuf>,
    idm: Option<Idm>,
    ldap: Option<LdapServer>,
    ct: u64,
    secrets: BTreeMap<String, String>,
    auth_sessions: BTreeMap<String, Uuid>,
    pending: Vec<DelayedAction>,
    conns: Vec<Conn>,
    last_dump: Option<Dump>,
    out: Outcome,
    kinds: Vec<u64>,
    step: usize,
    t0: u64,
}

/// Wall-clock accounting for tuning only (printed to stderr when VERIF_TIMING is set; never read
/// by the simulation).
struct Timer(&'static str, std::time::Instant);
thread_local! { static TIMES: std::cell::RefCell<BTreeMap<&'static str, (u64, u128)>> = const { std::cell::RefCell::new(BTreeMap::new()) }; }
impl Timer {
    fn new(k: &'static str) -> Timer {
        Timer(k, std::time::Instant::now())
    }
}
impl Drop for Timer {
    fn drop(&mut self) {
        let d = self.1.elapsed().as_micros();
        TIMES.with(|t| {
            let mut t = t.borrow_mut();
            let e = t.entry(self.0).or_insert((0, 0));
            e.0 += 1;
            e.1 += d;
        });
    }
}

fn internal_cai() -> ClientAuthInfo {
    ClientAuthInfo::new(Source::Internal, None, None, None)
}

fn err_s<E: std::fmt::Debug>(e: E) -> String {
    let s = format!("{e:?}");
    s.chars().take(80).collect()
}

fn person_entry(p: &PersonSpec) -> Entry<EntryInit, EntryNew> {
    let mut e: Entry<EntryInit, EntryNew> = entry_init!(
        (Attribute::Class, EntryClass::Object.to_value()),
        (Attribute::Class, EntryClass::Account.to_value()),
        (Attribute::Class, EntryClass::Person.to_value()),
        (Attribute::Name, Value::new_iname(&p.name)),
        (Attribute::Uuid, Value::Uuid(p.u)),
        (Attribute::Description, Value::new_utf8s(&format!("desc {}", p.name))),
        (Attribute::DisplayName, Value::new_utf8s(&format!("Person {}", p.name)))
    );
    if let Some(g) = p.gid {
        e.add_ava(Attribute::Class, EntryClass::PosixAccount.to_value());
        e.add_ava(Attribute::GidNumber, Value::new_uint32(g));
        e.add_ava(Attribute::LoginShell, Value::new_iutf8("/bin/zsh"));
    }
    for (i, m) in p.mail.iter().enumerate() {
        e.add_ava(Attribute::Mail, Value::EmailAddress(m.clone(), i == 0));
    }
    if let Some(f) = p.from {
        e.add_ava(Attribute::AccountValidFrom, Value::new_datetime_epoch(Duration::from_secs(f)));
    }
    if let Some(t) = p.to {
        e.add_ava(Attribute::AccountExpire, Value::new_datetime_epoch(Duration::from_secs(t)));
    }
    e
}

fn group_entry(g: &GroupSpec) -> Entry<EntryInit, EntryNew> {
    let mut e: Entry<EntryInit, EntryNew> = entry_init!(
        (Attribute::Class, EntryClass::Object.to_value()),
        (Attribute::Class, EntryClass::Group.to_value()),
        (Attribute::Name, Value::new_iname(&g.name)),
        (Attribute::Uuid, Value::Uuid(g.u)),
        (Attribute::Description, Value::new_utf8s(&format!("desc {}", g.name)))
    );
    if let Some(gid) = g.gid {
        e.add_ava(Attribute::Class, EntryClass::PosixGroup.to_value());
        e.add_ava(Attribute::GidNumber, Value::new_uint32(gid));
    }
    for m in &g.members {
        e.add_ava(Attribute::Member, Value::Refer(*m));
    }
    e
}

fn app_entry(a: &AppSpec) -> Entry<EntryInit, EntryNew> {
    entry_init!(
        (Attribute::Class, EntryClass::Object.to_value()),
        (Attribute::Class, EntryClass::Account.to_value()),
        (Attribute::Class, EntryClass::ServiceAccount.to_value()),
        (Attribute::Class, EntryClass::Application.to_value()),
        (Attribute::DisplayName, Value::new_utf8s(&format!("Application {}", a.name))),
        (Attribute::Name, Value::new_iname(&a.name)),
        (Attribute::Uuid, Value::Uuid(a.u)),
        (Attribute::LinkedGroup, Value::Refer(a.group))
    )
}

fn sa_entry(s: &SaSpec) -> Entry<EntryInit, EntryNew> {
    let mut e: Entry<EntryInit, EntryNew> = entry_init!(
        (Attribute::Class, EntryClass::Object.to_value()),
        (Attribute::Class, EntryClass::Account.to_value()),
        (Attribute::Class, EntryClass::ServiceAccount.to_value()),
        (Attribute::DisplayName, Value::new_utf8s(&format!("Service {}", s.name))),
        (Attribute::Name, Value::new_iname(&s.name)),
        (Attribute::Uuid, Value::Uuid(s.u))
    );
    if let Some(f) = s.from {
        e.add_ava(Attribute::AccountValidFrom, Value::new_datetime_epoch(Duration::from_secs(f)));
    }
    if let Some(t) = s.to {
        e.add_ava(Attribute::AccountExpire, Value::new_datetime_epoch(Duration::from_secs(t)));
    }
    e
}

impl World {
    fn new(prop: &'static str, cfg: Cfg, seed: u64) -> Result<World, String> {
        crate::entropy::swap_stream(Some(Rng::new(seed ^ 0x5e7_0b00)));
        let ct = BASE_EPOCH;
        let (scratch, path) = if cfg.file {
            let s = Scratch::new(&format!("{prop}-{seed:x}"));
            let p = s.path().join("kanidm.db");
            (Some(s), Some(p))
        } else {
            (None, None)
        };
        let mut w = World {
            prop,
            seed,
            cfg,
            _scratch: scratch,
            path,
            idm: None,
            ldap: None,
            ct,
            secrets: BTreeMap::new(),
            auth_sessions: BTreeMap::new(),
            pending: vec![],
            conns: vec![],
            last_dump: None,
            out: Outcome::default(),
            kinds: vec![],
            step: 0,
            t0: ct,
        };
        let d0 = crate::entropy::draws();
        w.boot()?;
        if std::env::var("VERIF_TRACE").is_ok() {
            eprintln!("TRACE seed={seed} draws during boot: {}", crate::entropy::draws() - d0);
        }
        w.setup()?;
        w.refresh_dump()?;
        if let Ok(dir) = std::env::var("VERIF_DUMPDIR") {
            if let Some(d) = &w.last_dump {
                let mut out = String::new();
                for (u, (st, j)) in &d.entries {
                    out.push_str(&format!("{u} {st:?} {j}\n"));
                }
                let _ = std::fs::write(format!("{dir}/dump-{seed}.txt"), out);
            }
        }
        Ok(w)
    }

    fn now(&self) -> Duration {
        Duration::from_secs(self.ct)
    }

    fn boot(&mut self) -> Result<(), String> {
        let _t = Timer::new("boot");
        self.ldap = None;
        self.idm = None;
        let ncfg = match &self.path {
            Some(p) => NodeCfg::file(p),
            None => NodeCfg::mem(),
        };
        let qs = boot_qs(&ncfg, self.now()).map_err(|e| format!("boot qs: {e:?}"))?;
        let idm = boot_idm(qs, self.now()).map_err(|e| format!("boot idm: {e:?}"))?;
        let ldap = block(LdapServer::new(&idm.idms)).map_err(|e| format!("ldap server: {e:?}"))?;
        self.idm = Some(idm);
        self.ldap = Some(ldap);
        self.conns = (0..self.cfg.conns.max(1)).map(|_| Conn { uat: None, class: None, target: None }).collect();
        self.auth_sessions.clear();
        Ok(())
    }

    fn setup(&mut self) -> Result<(), String> {
        let ct = self.now();
        let cfg = self.cfg.clone();
        let idms = &self.idm.as_ref().expect("idm").idms;
        let mut pw = block(idms.proxy_write(ct)).map_err(err_s)?;
        let mut es = vec![];
        for p in &cfg.persons {
            es.push(person_entry(p));
        }
        for g in &cfg.groups {
            es.push(group_entry(g));
        }
        for a in &cfg.apps {
            es.push(app_entry(a));
        }
        for s in &cfg.sas {
            es.push(sa_entry(s));
        }
        if cfg.oauth2 {
            let mut rs: Entry<EntryInit, EntryNew> = entry_init!(
                (Attribute::Class, EntryClass::Object.to_value()),
                (Attribute::Class, EntryClass::Account.to_value()),
                (Attribute::Class, EntryClass::OAuth2ResourceServer.to_value()),
                (Attribute::Class, EntryClass::OAuth2ResourceServerBasic.to_value()),
                (Attribute::Uuid, Value::Uuid(uuid_for(5, 0))),
                (Attribute::Name, Value::new_iname("rs0")),
                (Attribute::DisplayName, Value::new_utf8s("rs0")),
                (Attribute::OAuth2AllowInsecureClientDisablePkce, Value::new_bool(true))
            );
            rs.add_ava(Attribute::OAuth2RsOriginLanding, Value::new_url_s("https://demo.example.com").ok_or("url")?);
            rs.add_ava(Attribute::OAuth2RsOrigin, Value::new_url_s("https://demo.example.com/oauth2/result").ok_or("url")?);
            rs.add_ava(
                Attribute::OAuth2RsScopeMap,
                Value::new_oauthscopemap(UUID_IDM_ALL_PERSONS, ["openid".to_string()].into_iter().collect()).ok_or("scopemap")?,
            );
            es.push(rs);
        }
        pw.qs_write.internal_create(es).map_err(|e| format!("setup create: {e:?}"))?;
        if cfg.oauth2 {
            let e = pw.qs_write.internal_search_uuid(uuid_for(5, 0)).map_err(err_s)?;
            if let Some(sec) = e.get_ava_single_secret(Attribute::OAuth2RsBasicSecret) {
                self.secrets.insert("o2secret".into(), sec.to_string());
            }
        }
        for s in &cfg.sas {
            for g in &s.join {
                pw.qs_write
                    .internal_modify_uuid(*g, &ModifyList::new_append(Attribute::Member, Value::Refer(s.u)))
                    .map_err(|e| format!("setup join: {e:?}"))?;
            }
        }
        for m in &cfg.posix_readers {
            pw.qs_write
                .internal_modify_uuid(UUID_IDM_UNIX_AUTHENTICATION_READ, &ModifyList::new_append(Attribute::Member, Value::Refer(*m)))
                .map_err(|e| format!("setup posix readers: {e:?}"))?;
        }
        // a plain password credential (sessions are privilege-capable, so re-auth can be exercised),
        // hashed with the crypto crate's cheap test policy
        let pol = kanidm_lib_crypto::CryptoPolicy::danger_test_minimum();
        for p in &cfg.persons {
            if let Some(pass) = &p.pw {
                let cred = Credential::new_password_only(&pol, pass, OffsetDateTime::UNIX_EPOCH + ct).map_err(err_s)?;
                pw.qs_write
                    .internal_modify_uuid(p.u, &ModifyList::new_purge_and_set(Attribute::PrimaryCredential, Value::new_credential("primary", cred)))
                    .map_err(|e| format!("setup pw: {e:?}"))?;
            }
            if let (Some(pass), Some(_)) = (&p.unix_pw, p.gid) {
                let ev = UnixPasswordChangeEvent::from_parts(vh::identity_internal(), p.u, pass.clone()).map_err(err_s)?;
                pw.set_unix_account_password(&ev).map_err(|e| format!("setup unix pw: {e:?}"))?;
            }
            if p.radius {
                let ev = RegenerateRadiusSecretEvent::from_parts(vh::identity_internal(), p.u).map_err(err_s)?;
                let s = pw.regenerate_radius_secret(&ev).map_err(|e| format!("setup radius: {e:?}"))?;
                self.secrets.insert(format!("rad:{}", p.name), s);
            }
        }
        pw.commit().map_err(|e| format!("setup commit: {e:?}"))?;
        Ok(())
    }

    fn take_dump(&mut self) -> Result<Dump, String> {
        let _t = Timer::new("dump");
        let idms = &self.idm.as_ref().expect("idm").idms;
        let mut pr = block(idms.proxy_read()).map_err(err_s)?;
        Dump::take(&mut pr.qs_read).map_err(err_s)
    }

    fn refresh_dump(&mut self) -> Result<(), String> {
        let d = self.take_dump()?;
        self.last_dump = Some(d);
        Ok(())
    }

    fn sec(&self, s: &Sec) -> String {
        match s {
            Sec::Lit(l) => l.clone(),
            Sec::Ref(r) => self.secrets.get(r).cloned().unwrap_or_else(|| format!("missing-secret-{r}")),
        }
    }

    // ---------------------------------------------------------------- delayed actions

    /// Move everything the server queued into the simulator-held queue.
    fn pull_delayed(&mut self) -> usize {
        let idm = self.idm.as_mut().expect("idm");
        let mut n = 0;
        loop {
            let mut buf: Vec<DelayedAction> = Vec::with_capacity(16);
            let k = poll_now(idm.delayed.recv_many(&mut buf)).unwrap_or(0);
            if k == 0 {
                break;
            }
            n += k;
            self.pending.append(&mut buf);
        }
        n
    }

    fn deliver(&mut self) -> String {
        self.pull_delayed();
        let das: Vec<DelayedAction> = std::mem::take(&mut self.pending);
        let n = das.len();
        let ct = self.now();
        let mut errs = 0;
        for da in das {
            let idms = &self.idm.as_ref().expect("idm").idms;
            let r = block(idms.proxy_write(ct)).and_then(|mut pw| pw.process_delayedaction(&da, ct).and_then(|_| pw.commit()));
            if r.is_err() {
                errs += 1;
            }
        }
        format!("delivered:{n}:err{errs}")
    }

    // ---------------------------------------------------------------- native helpers

    fn ident_from_token(&mut self, token: &str) -> Result<Identity, String> {
        let ct = self.now();
        let jws = JwsCompact::from_str(token).map_err(|_| "not-a-token".to_string())?;
        let cai = ClientAuthInfo::new(Source::Internal, None, Some(jws), None);
        let idms = &self.idm.as_ref().expect("idm").idms;
        let mut pr = block(idms.proxy_read()).map_err(err_s)?;
        pr.validate_client_auth_info_to_ident(cai, ct).map_err(err_s)
    }

    /// Full interactive login. Ok(token) on success, Err(stage:reason) otherwise.
    fn login(&mut self, name: &str, mech: AuthMech, cred: AuthCredential, privileged: bool) -> Result<String, String> {
        let sid = self.login_init(name, mech, privileged)?;
        self.login_cred(sid, cred)
    }

    fn login_init(&mut self, name: &str, mech: AuthMech, privileged: bool) -> Result<Uuid, String> {
        let ct = self.now();
        let idms = &self.idm.as_ref().expect("idm").idms;
        let mut au = block(idms.auth()).map_err(err_s)?;
        let init = AuthEvent::from_message(None, AuthStep::Init2 { username: name.to_string(), issue: AuthIssueSession::Token, privileged }.into()).map_err(err_s)?;
        let r = block(au.auth(&init, ct, internal_cai())).map_err(|e| format!("init:{}", err_s(e)))?;
        let sid = r.sessionid;
        match r.state {
            AuthState::Choose(_) => {}
            AuthState::Denied(m) => return Err(format!("init-denied:{m}")),
            other => return Err(format!("init-unexpected:{}", err_s(other))),
        }
        let begin = AuthEvent::from_message(Some(sid), AuthStep::Begin(mech).into()).map_err(err_s)?;
        let r = block(au.auth(&begin, ct, internal_cai())).map_err(|e| format!("begin:{}", err_s(e)))?;
        match r.state {
            AuthState::Continue(_) => {}
            AuthState::Denied(m) => return Err(format!("begin-denied:{m}")),
            other => return Err(format!("begin-unexpected:{}", err_s(other))),
        }
        au.commit().map_err(err_s)?;
        Ok(sid)
    }

    fn login_cred(&mut self, sid: Uuid, cred: AuthCredential) -> Result<String, String> {
        let ct = self.now();
        let idms = &self.idm.as_ref().expect("idm").idms;
        let mut au = block(idms.auth()).map_err(err_s)?;
        let step = AuthEvent::from_message(Some(sid), AuthStep::Cred(cred).into()).map_err(err_s)?;
        let r = block(au.auth(&step, ct, internal_cai())).map_err(|e| format!("cred:{}", err_s(e)))?;
        let res = match r.state {
            AuthState::Success(tok, _) => Ok(tok.to_string()),
            AuthState::Denied(m) => Err(format!("cred-denied:{m}")),
            other => Err(format!("cred-unexpected:{}", err_s(other))),
        };
        au.commit().map_err(err_s)?;
        res
    }

    /// The anonymous identity as the native API sees it: a fresh interactive anonymous login whose
    /// token is turned into an identity by the ordinary token path. The session record this login
    /// queues is discarded (the harness's own probe must not write to the database).
    fn anon_ident(&mut self) -> Result<Identity, String> {
        let _t = Timer::new("anon_ident");
        self.pull_delayed();
        let tok = self.login("anonymous", AuthMech::Anonymous, AuthCredential::Anonymous, false)?;
        let idm = self.idm.as_mut().expect("idm");
        loop {
            let mut buf: Vec<DelayedAction> = Vec::with_capacity(16);
            let k = poll_now(idm.delayed.recv_many(&mut buf)).unwrap_or(0);
            if k == 0 {
                break;
            }
            for da in buf {
                match &da {
                    DelayedAction::AuthSessionRecord(r) if r.target_uuid == UUID_ANONYMOUS => {}
                    _ => self.pending.push(da),
                }
            }
        }
        self.ident_from_token(&tok)
    }
}

// ------------------------------------------------------------------------------------------------
// LDAP transport (mirror of kanidmd_core::ldaps::client_process + handle_ldaprequest)
// ------------------------------------------------------------------------------------------------

fn code_s(c: &LdapResultCode) -> String {
    format!("{c:?}")
}

fn summarise(msgs: &[LdapMsg]) -> LdapSummary {
    let mut entries: BTreeMap<String, BTreeMap<String, Vec<Vec<u8>>>> = BTreeMap::new();
    let mut last = LdapSummary::Other("empty".into());
    for m in msgs {
        match &m.op {
            LdapOp::SearchResultEntry(e) => {
                let ent = entries.entry(e.dn.clone()).or_default();
                for a in &e.attributes {
                    let v = ent.entry(a.atype.to_lowercase()).or_default();
                    v.extend(a.vals.iter().cloned());
                    v.sort();
                    v.dedup();
                }
            }
            LdapOp::SearchResultDone(r) => last = LdapSummary::Search(std::mem::take(&mut entries), code_s(&r.code)),
            LdapOp::CompareResult(r) => last = LdapSummary::Compare(code_s(&r.code)),
            LdapOp::BindResponse(r) => {
                last = if r.res.code == LdapResultCode::Success { LdapSummary::Bound } else { LdapSummary::BindRefused(code_s(&r.res.code)) }
            }
            LdapOp::ExtendedResponse(r) => {
                last = if r.name.as_deref() == Some("1.3.6.1.4.1.1466.20036") {
                    LdapSummary::Disconnect(code_s(&r.res.code))
                } else {
                    LdapSummary::Whoami(format!("{}:{}", code_s(&r.res.code), r.value.as_ref().map(|v| String::from_utf8_lossy(v).to_string()).unwrap_or_default()))
                }
            }
            other => last = LdapSummary::Other(format!("{other:?}").chars().take(60).collect()),
        }
    }
    last
}

impl World {
    fn ldap_send(&mut self, c: usize, msg: LdapMsg) -> LdapSummary {
        let _t = Timer::new("ldap_send");
        let c = c % self.conns.len();
        // what travels is the BER encoding; the server sees what the codec decodes
        let mut codec = LdapCodec::default();
        let mut buf = BytesMut::new();
        if let Err(e) = codec.encode(msg, &mut buf) {
            return LdapSummary::Dropped(format!("encode:{}", err_s(e)));
        }
        let msg = match codec.decode(&mut buf) {
            Ok(Some(m)) => m,
            Ok(None) => return LdapSummary::Dropped("incomplete".into()),
            Err(e) => {
                // ldaps.rs: "Invalid LDAP request" → connection closed
                self.conns[c] = Conn { uat: None, class: None, target: None };
                return LdapSummary::Dropped(format!("decode:{}", err_s(e)));
            }
        };
        let uat = self.conns[c].uat.clone();
        let was_bound = uat.is_some();
        let ct = self.now();
        let eventid = Uuid::from_u128(0x1da9_0000_0000_0000_0000_0000_0000_0000u128 | (self.step as u128));
        let ip = IpAddr::V4(Ipv4Addr::new(192, 0, 2, 10));
        vh::set_sim_now(Some(ct));
        let res = {
            let idm = self.idm.as_ref().expect("idm");
            let ldap = self.ldap.as_ref().expect("ldap");
            match ServerOps::try_from(msg) {
                Ok(op) => block(ldap.do_op(&idm.idms, op, uat, ip, eventid))
                    .unwrap_or_else(|_e| LdapResponseState::Disconnect(DisconnectionNotice::gen_response(LdapResultCode::Other, "Internal Server Error"))),
                Err(_) => LdapResponseState::Disconnect(DisconnectionNotice::gen_response(LdapResultCode::ProtocolError, "Invalid Request")),
            }
        };
        vh::set_sim_now(None);
        match res {
            LdapResponseState::Unbind => {
                self.conns[c] = Conn { uat: None, class: None, target: None };
                LdapSummary::Unbind
            }
            LdapResponseState::Disconnect(m) => {
                self.conns[c] = Conn { uat: None, class: None, target: None };
                summarise(&[m])
            }
            LdapResponseState::Bind(uat, m) => {
                self.conns[c].uat = Some(uat);
                summarise(&[m])
            }
            LdapResponseState::Respond(m) => summarise(&[m]),
            LdapResponseState::MultiPartResponse(v) => summarise(&v),
            LdapResponseState::BindMultiPartResponse(uat, v) => {
                self.conns[c].uat = Some(uat);
                if !was_bound {
                    self.conns[c].class = Some(BindClass::Anonymous);
                    self.conns[c].target = None;
                }
                summarise(&v)
            }
        }
    }

    fn bind_msg(&self, dn: &str, pw: &str) -> LdapMsg {
        LdapMsg { msgid: (self.step as i32) + 1, op: LdapOp::BindRequest(LdapBindRequest { dn: dn.to_string(), cred: LdapBindCred::Simple(pw.to_string()) }), ctrl: vec![] }
    }

    fn classify_bind(dn: &str, pw: &str, target: Option<Uuid>) -> BindClass {
        let has_app = dn.split(',').skip(1).any(|c| c.starts_with("app="));
        if (dn.is_empty() && pw.is_empty()) || (target == Some(UUID_ANONYMOUS) && !has_app) {
            BindClass::Anonymous
        } else if dn.is_empty() || dn == "dn=token" {
            BindClass::Token(pw.to_string())
        } else if has_app {
            BindClass::Application
        } else {
            BindClass::Account
        }
    }

    /// Database truth used by the one-sided bind oracles.
    fn db_flag(&mut self) -> Option<bool> {
        let idms = &self.idm.as_ref().expect("idm").idms;
        let mut pr = block(idms.proxy_read()).ok()?;
        let e = pr.qs_read.internal_search_uuid(UUID_DOMAIN_INFO).ok()?;
        Some(e.get_ava_single_bool(Attribute::LdapAllowUnixPwBind).unwrap_or(true))
    }

    fn db_is_member_of_linked_group(&mut self, person: Uuid, app: Uuid) -> Option<bool> {
        let idms = &self.idm.as_ref().expect("idm").idms;
        let mut pr = block(idms.proxy_read()).ok()?;
        let a = pr.qs_read.internal_search_uuid(app).ok()?;
        let lg = a.get_ava_single_refer(Attribute::LinkedGroup)?;
        let p = pr.qs_read.internal_search_uuid(person).ok()?;
        Some(p.get_ava_refer(Attribute::MemberOf).map(|s| s.contains(&lg)).unwrap_or(false))
    }

    fn db_window(&mut self, u: Uuid) -> Option<(Option<i64>, Option<i64>)> {
        let idms = &self.idm.as_ref().expect("idm").idms;
        let mut pr = block(idms.proxy_read()).ok()?;
        let e = pr.qs_read.internal_search_uuid(u).ok()?;
        Some((
            e.get_ava_single_datetime(Attribute::AccountValidFrom).map(|d| d.unix_timestamp()),
            e.get_ava_single_datetime(Attribute::AccountExpire).map(|d| d.unix_timestamp()),
        ))
    }

    fn viol(&mut self, oracle: &str, signature: &str, summary: String) {
        let p = self.prop;
        let step = self.step;
        self.out.violate(p, oracle, signature, summary, step);
    }

    /// Oracle (i): nothing an LDAP client sends changes the canonical database dump.
    fn check_readonly(&mut self, what: &str) {
        if self.prop != "C40" {
            return;
        }
        let now = match self.take_dump() {
            Ok(d) => d,
            Err(e) => {
                self.out.harness_error = Some(format!("dump: {e}"));
                return;
            }
        };
        if let Some(prev) = &self.last_dump {
            if prev.digest() != now.digest() {
                let d = prev.diff_all(&now);
                let first = d.first().cloned().unwrap_or_default();
                let attr = first.split("attrs.").nth(1).and_then(|s| s.split(|c: char| !c.is_ascii_alphanumeric() && c != '_').next()).unwrap_or("entry").to_string();
                self.viol("ldap-readonly", &format!("op={what};changed={attr}"), format!("LDAP operation {what} changed the database: {} difference(s), first: {first}", d.len()));
            }
        }
        self.last_dump = Some(now);
    }
}

// ------------------------------------------------------------------------------------------------
// LDAP → native translation (the documented attribute mapping), deliberately partial
// ------------------------------------------------------------------------------------------------

const REAL_ATTRS: [&str; 22] = [
    "name", "spn", "uuid", "class", "gidnumber", "displayname", "mail", "member", "memberof", "directmemberof", "description", "loginshell",
    "legalname", "primary_credential", "unix_password", "radius_secret", "application_password", "api_token_session", "account_expire",
    "account_valid_from", "linked_group", "domain_name",
];

/// LDAP name (lower case) → kanidm attribute it is derived from.
fn vattr_source(a: &str) -> Option<&'static str> {
    Some(match a {
        "cn" | "uid" | "entrydn" | "dn" => "name",
        "gecos" => "displayname",
        "email" | "emailaddress" | "emailalternative" | "emailprimary" | "mail;alternative" | "mail;primary" => "mail",
        "entryuuid" => "uuid",
        "keys" | "sshpublickey" => "ssh_publickey",
        "objectclass" => "class",
        "uidnumber" => "gidnumber",
        "homedirectory" => "uuid",
        _ => return None,
    })
}

const SYNTHESISED: [&str; 3] = ["dn", "entrydn", "homedirectory"];

/// Filter attribute mapping we are sure about; None = do not attempt a native comparison.
fn filter_attr(a: &str) -> Option<String> {
    let l = a.to_lowercase();
    match l.as_str() {
        "cn" | "uid" => Some("name".into()),
        "objectclass" => Some("class".into()),
        "entryuuid" => Some("uuid".into()),
        "uidnumber" => Some("gidnumber".into()),
        "gecos" => Some("displayname".into()),
        x if REAL_ATTRS.contains(&x) => Some(l.clone()),
        _ => None,
    }
}

fn to_proto(f: &LdapFilter) -> Option<ProtoFilter> {
    Some(match f {
        LdapFilter::And(l) if !l.is_empty() => ProtoFilter::And(l.iter().map(to_proto).collect::<Option<Vec<_>>>()?),
        LdapFilter::Or(l) if !l.is_empty() => ProtoFilter::Or(l.iter().map(to_proto).collect::<Option<Vec<_>>>()?),
        LdapFilter::Not(x) => ProtoFilter::AndNot(Box::new(to_proto(x)?)),
        LdapFilter::Equality(a, v) => {
            let a = filter_attr(a)?;
            if a == "spn" && !(v.split('@').count() == 2 && !v.starts_with('@') && !v.ends_with('@')) {
                return None;
            }
            ProtoFilter::Eq(a, v.clone())
        }
        LdapFilter::Present(a) => ProtoFilter::Pres(filter_attr(a)?),
        LdapFilter::Substring(a, LdapSubstringFilter { initial: None, any, final_: None }) if !any.is_empty() => {
            let a = filter_attr(a)?;
            ProtoFilter::And(any.iter().map(|t| ProtoFilter::Cnt(a.clone(), t.clone())).collect())
        }
        _ => return None,
    })
}

fn hide_filter() -> ProtoFilter {
    ProtoFilter::AndNot(Box::new(ProtoFilter::Or(HIDDEN_CLASSES.iter().map(|c| ProtoFilter::Eq("class".into(), c.to_string())).collect())))
}

enum BaseSel {
    /// the naming context itself
    Root,
    /// one entry selected by rdn
    Rdn(String, String),
}

fn parse_base(base: &str) -> Option<BaseSel> {
    if base == BASEDN {
        return Some(BaseSel::Root);
    }
    let rest = base.strip_suffix(BASEDN)?.strip_suffix(',')?;
    let comps: Vec<&str> = rest.split(',').collect();
    let kv = |c: &str| -> Option<(String, String)> {
        let mut it = c.split('=');
        let k = it.next()?;
        let v = it.next()?;
        if it.next().is_some() || k.is_empty() || v.is_empty() {
            return None;
        }
        Some((k.to_string(), v.to_string()))
    };
    match comps.as_slice() {
        [one] => {
            let (k, v) = kv(one)?;
            if k == "app" {
                Some(BaseSel::Root)
            } else {
                Some(BaseSel::Rdn(k, v))
            }
        }
        [one, two] => {
            let (k, v) = kv(one)?;
            let (k2, _) = kv(two)?;
            if k2 != "app" || k == "app" {
                return None;
            }
            Some(BaseSel::Rdn(k, v))
        }
        _ => None,
    }
}

/// Native filter for an LDAP search request; Ok(None) = the request selects nothing by construction.
fn native_filter(sr: &LdapSearchRequest) -> Option<Option<ProtoFilter>> {
    let user = to_proto(&sr.filter)?;
    let sel = parse_base(&sr.base)?;
    let mut parts = vec![user];
    match (&sr.scope, sel) {
        (LdapSearchScope::Children, BaseSel::Rdn(..)) | (LdapSearchScope::OneLevel, BaseSel::Rdn(..)) => return Some(None),
        (LdapSearchScope::Children, BaseSel::Root) | (LdapSearchScope::OneLevel, BaseSel::Root) => {
            parts.push(ProtoFilter::AndNot(Box::new(ProtoFilter::Eq("uuid".into(), UUID_DOMAIN_INFO.as_hyphenated().to_string()))))
        }
        (LdapSearchScope::Base, BaseSel::Rdn(a, v)) | (LdapSearchScope::Subtree, BaseSel::Rdn(a, v)) => parts.push(ProtoFilter::Eq(filter_attr(&a)?, v)),
        (LdapSearchScope::Base, BaseSel::Root) => parts.push(ProtoFilter::Eq("uuid".into(), UUID_DOMAIN_INFO.as_hyphenated().to_string())),
        (LdapSearchScope::Subtree, BaseSel::Root) => {}
    }
    parts.push(hide_filter());
    Some(Some(ProtoFilter::And(parts)))
}

type NativeEntries = BTreeMap<String, BTreeMap<String, Vec<String>>>;

impl World {
    fn native_search(&mut self, ident: Identity, pf: ProtoFilter) -> Result<NativeEntries, String> {
        let idms = &self.idm.as_ref().expect("idm").idms;
        let mut pr = block(idms.proxy_read()).map_err(err_s)?;
        let se = SearchEvent::from_message(ident, &ProtoSearchRequest { filter: pf }, &mut pr.qs_read).map_err(err_s)?;
        let res = pr.qs_read.search_ext(&se).map_err(err_s)?;
        let mut out = BTreeMap::new();
        for e in res {
            let rdn = pr.qs_read.uuid_to_rdn(e.get_uuid()).map_err(err_s)?;
            let pe = e.to_pe(&mut pr.qs_read).map_err(err_s)?;
            let mut attrs: BTreeMap<String, Vec<String>> = BTreeMap::new();
            for (k, mut v) in pe.attrs {
                v.sort();
                attrs.insert(k.to_lowercase(), v);
            }
            out.insert(format!("{rdn},{BASEDN}"), attrs);
        }
        Ok(out)
    }

    fn native_ident_for(&mut self, class: &BindClass) -> Result<Identity, String> {
        match class {
            BindClass::Anonymous | BindClass::Account | BindClass::Application => self.anon_ident(),
            BindClass::Token(t) => {
                let t = t.clone();
                self.ident_from_token(&t)
            }
        }
    }

    /// Oracles (ii) "rights of a password bind" and (iii) "LDAP answer == native answer".
    fn check_search(&mut self, c: usize, sr: &LdapSearchRequest, got: &LdapSummary) {
        let _t = Timer::new("check_search");
        let c = c % self.conns.len();
        let Some(class) = self.conns[c].class.clone() else {
            self.out.probe("c40_search_on_closed_conn");
            return;
        };
        let cls = match &class {
            BindClass::Anonymous => "anonymous",
            BindClass::Account => "account",
            BindClass::Application => "application",
            BindClass::Token(_) => "token",
        };
        // (ii) password / application binds see exactly what an anonymous bind sees
        if matches!(class, BindClass::Account | BindClass::Application) {
            let scratch = self.conns.len() - 1;
            self.conns[scratch] = Conn { uat: None, class: None, target: None };
            let b = self.ldap_send(scratch, self.bind_msg("", ""));
            if b == LdapSummary::Bound {
                self.conns[scratch].class = Some(BindClass::Anonymous);
                let msg = LdapMsg { msgid: 7, op: LdapOp::SearchRequest(sr.clone()), ctrl: vec![] };
                let anon = self.ldap_send(scratch, msg);
                self.out.probe("c40_pwbind_vs_anon_compared");
                // one-sided: the statement bounds the rights from above ("only ever yields
                // anonymous-level read rights"); an expired account's connection may get less.
                let excess: Option<String> = match (got, &anon) {
                    (LdapSummary::Search(a, _), LdapSummary::Search(b, _)) => {
                        let mut ex = None;
                        'outer: for (dn, attrs) in a {
                            let Some(battrs) = b.get(dn) else {
                                ex = Some("more-entries".to_string());
                                break;
                            };
                            for (k, vals) in attrs {
                                match battrs.get(k) {
                                    None => {
                                        ex = Some(format!("more-attributes:{k}"));
                                        break 'outer;
                                    }
                                    Some(bv) if vals.iter().any(|v| !bv.contains(v)) => {
                                        ex = Some(format!("more-values:{k}"));
                                        break 'outer;
                                    }
                                    _ => {}
                                }
                            }
                        }
                        ex
                    }
                    (LdapSummary::Search(a, code), _) if code == "Success" && !a.is_empty() => Some("answered-where-anonymous-is-refused".into()),
                    _ => None,
                };
                if &anon != got && excess.is_none() {
                    self.out.probe("c40_pwbind_gets_less_than_anonymous");
                }
                if let Some(kind) = excess {
                    self.viol(
                        "bind-rights",
                        &format!("bind={cls};vs-anonymous={kind}"),
                        format!("search {:?} on a connection bound by {cls} password returned {} but an anonymous bind gets {}", sr, got.short(), anon.short()),
                    );
                }
            }
            self.conns[scratch] = Conn { uat: None, class: None, target: None };
        }
        // (iii) differential against the native search path
        if sr.base.is_empty() && sr.scope == LdapSearchScope::Base {
            self.out.probe("c40_rootdse");
            return;
        }
        let Some(nf) = native_filter(sr) else {
            self.out.probe("c40_search_untranslatable");
            return;
        };
        let ident = match self.native_ident_for(&class) {
            Ok(i) => i,
            Err(e) => {
                if let LdapSummary::Search(m, _) = got {
                    if !m.is_empty() {
                        self.viol(
                            "ldap-native-diff",
                            &format!("bind={cls};native-identity-refused:{};ldap-returns-entries", e.chars().take_while(|c| c.is_ascii_alphanumeric()).collect::<String>()),
                            format!("native identity for this {cls} bind is refused ({e}) but LDAP search {sr:?} returned {} entries", m.len()),
                        );
                    }
                }
                self.out.probe("c40_native_ident_refused");
                return;
            }
        };
        let native = match nf {
            None => Ok(BTreeMap::new()),
            Some(pf) => self.native_search(ident, pf),
        };
        let (ldap_entries, code) = match got {
            LdapSummary::Search(m, code) => (m, code.clone()),
            other => {
                self.out.probe(if native.is_ok() { "c40_ldap_error_native_ok" } else { "c40_both_error" });
                let _ = other;
                return;
            }
        };
        if code != "Success" {
            self.out.probe(if native.is_ok() { "c40_ldap_error_native_ok" } else { "c40_both_error" });
            return;
        }
        let native = match native {
            Ok(n) => n,
            Err(e) => {
                if !ldap_entries.is_empty() {
                    self.viol(
                        "ldap-native-diff",
                        &format!("bind={cls};native-search-refused;ldap-returns-entries"),
                        format!("native search is refused ({e}) but LDAP search {sr:?} returned {} entries", ldap_entries.len()),
                    );
                }
                self.out.probe("c40_native_error_ldap_ok");
                return;
            }
        };
        self.out.probe("c40_native_compared");
        if !native.is_empty() {
            self.out.probe("c40_native_compared_nonempty");
        }
        let extra: Vec<&String> = ldap_entries.keys().filter(|k| !native.contains_key(*k)).collect();
        let missing: Vec<&String> = native.keys().filter(|k| !ldap_entries.contains_key(*k)).collect();
        if !extra.is_empty() {
            self.viol("ldap-native-diff", &format!("bind={cls};entries=ldap-extra"), format!("LDAP search {sr:?} returned entries the native search does not: {extra:?}"));
            return;
        }
        if !missing.is_empty() {
            self.viol("ldap-native-diff", &format!("bind={cls};entries=ldap-missing"), format!("LDAP search {sr:?} lacks entries the native search returns: {missing:?}"));
            return;
        }
        // attributes
        let req: Vec<String> = sr.attrs.iter().map(|a| a.to_lowercase()).collect();
        let all_attrs = req.is_empty() || req.iter().any(|a| a == "*" || a == "+");
        let no_attrs = req.len() == 1 && req[0] == "1.1";
        for (dn, lattrs) in ldap_entries {
            let nattrs = &native[dn];
            for (la, lvals) in lattrs {
                if SYNTHESISED.contains(&la.as_str()) {
                    continue;
                }
                let src = vattr_source(la).unwrap_or(la.as_str());
                let Some(nvals) = nattrs.get(src) else {
                    self.viol(
                        "ldap-native-diff",
                        &format!("bind={cls};attr=ldap-extra:{src}"),
                        format!("LDAP search {sr:?} shows attribute {la} (from {src}) of {dn} which the native search by the same identity does not return"),
                    );
                    return;
                };
                // values, for the attributes whose LDAP form we are sure about
                if la == src {
                    let expect: Option<Vec<Vec<u8>>> = match la.as_str() {
                        "name" | "spn" | "uuid" | "displayname" | "description" | "class" | "gidnumber" | "loginshell" | "mail" | "legalname" | "domain_name" => {
                            Some(nvals.iter().map(|s| s.clone().into_bytes()).collect())
                        }
                        "member" | "memberof" | "directmemberof" => Some(
                            nvals
                                .iter()
                                .map(|s| if s.contains('@') { format!("spn={s},{BASEDN}") } else { format!("uuid={s},{BASEDN}") }.into_bytes())
                                .collect(),
                        ),
                        _ => None,
                    };
                    if let Some(mut e) = expect {
                        e.sort();
                        e.dedup();
                        if &e != lvals {
                            self.viol(
                                "ldap-native-diff",
                                &format!("bind={cls};values-differ:{la}"),
                                format!(
                                    "LDAP search {sr:?}: values of {la} on {dn} are {:?}, native search gives {:?}",
                                    lvals.iter().map(|v| String::from_utf8_lossy(v).to_string()).collect::<Vec<_>>(),
                                    nvals
                                ),
                            );
                            return;
                        }
                        self.out.probe("c40_values_compared");
                    }
                }
            }
            if no_attrs {
                continue;
            }
            for na in nattrs.keys() {
                let wanted = all_attrs || req.iter().any(|r| r == na);
                if wanted && !lattrs.contains_key(na) {
                    self.viol(
                        "ldap-native-diff",
                        &format!("bind={cls};attr=ldap-missing:{na}"),
                        format!("LDAP search {sr:?} does not return attribute {na} of {dn} which the native search by the same identity returns"),
                    );
                    return;
                }
            }
        }
    }

    /// Compare: one-sided — LDAP may only say "true" where the native search matches.
    fn check_compare(&mut self, c: usize, cr: &LdapCompareRequest, got: &LdapSummary) {
        let c = c % self.conns.len();
        let Some(class) = self.conns[c].class.clone() else { return };
        let LdapSummary::Compare(code) = got else { return };
        let Some(BaseSel::Rdn(a, v)) = parse_base(&cr.dn) else { return };
        let (Some(ra), Some(ca)) = (filter_attr(&a), filter_attr(&cr.atype)) else {
            self.out.probe("c40_compare_untranslatable");
            return;
        };
        let val = String::from_utf8_lossy(&cr.val).to_string();
        if ca == "spn" && val.split('@').count() != 2 {
            return;
        }
        let Ok(ident) = self.native_ident_for(&class) else { return };
        let pf = ProtoFilter::And(vec![ProtoFilter::Eq(ra, v), ProtoFilter::Eq(ca.clone(), val), hide_filter()]);
        let native = self.native_search(ident, pf);
        self.out.probe("c40_compare_compared");
        match (code.as_str(), native) {
            ("CompareTrue", Ok(n)) if n.is_empty() => {
                self.viol("ldap-native-diff", &format!("compare=true;native=no-match:{ca}"), format!("LDAP compare {cr:?} answered true, the native search by the same identity matches nothing"));
            }
            ("CompareTrue", Err(e)) => {
                self.viol("ldap-native-diff", &format!("compare=true;native=refused:{ca}"), format!("LDAP compare {cr:?} answered true, the native search is refused: {e}"));
            }
            ("CompareTrue", Ok(_)) => self.out.probe("c40_compare_true"),
            (_, Ok(n)) if !n.is_empty() => self.out.probe("c40_compare_ldap_stricter"),
            _ => {}
        }
    }
}

// ------------------------------------------------------------------------------------------------
// Events
// ------------------------------------------------------------------------------------------------

#[derive(Clone, Copy, Debug, PartialEq, Eq)]
enum Win {
    Before,
    After,
    Inside,
    Boundary,
    Unknown,
}

impl World {
    fn win(&mut self, u: Uuid) -> Win {
        let Some((f, t)) = self.db_window(u) else { return Win::Unknown };
        let now = self.ct as i64;
        if f.map(|f| now < f).unwrap_or(false) {
            Win::Before
        } else if t.map(|t| now > t).unwrap_or(false) {
            Win::After
        } else if f.map(|f| now == f).unwrap_or(false) || t.map(|t| now == t).unwrap_or(false) {
            Win::Boundary
        } else {
            Win::Inside
        }
    }

    /// C49 oracle: an attempt that was granted while the account is strictly outside its window.
    fn judge(&mut self, w: Win, path: &str, who: &str, granted: bool, detail: &str, target: Uuid) {
        if self.prop != "C49" {
            return;
        }
        match (w, granted) {
            (Win::Before, true) | (Win::After, true) => {
                let side = if w == Win::Before { "not-yet-valid" } else { "expired" };
                let win = self.db_window(target);
                self.viol(
                    "validity-window",
                    &format!("path={path};who={who};account={side}"),
                    format!("account {target} is {side} (window {:?}, now {}) but {path} asked by {who} was granted: {detail}", win, self.ct),
                );
            }
            (Win::Before, false) | (Win::After, false) => self.out.probe(&format!("c49_outside_refused:{path}")),
            (Win::Inside, true) => self.out.probe(&format!("c49_inside_granted:{path}")),
            (Win::Inside, false) => self.out.probe(&format!("c49_inside_refused:{path}")),
            (Win::Boundary, g) => self.out.probe(&format!("c49_boundary_{}:{path}", if g { "granted" } else { "refused" })),
            (Win::Unknown, _) => self.out.probe("c49_unknown_target"),
        }
    }

    fn write<R>(&mut self, f: impl FnOnce(&mut kanidmd_lib::idm::server::IdmServerProxyWriteTransaction<'_>) -> Result<R, OperationError>) -> Result<R, String> {
        let ct = self.now();
        let idms = &self.idm.as_ref().expect("idm").idms;
        let mut pw = block(idms.proxy_write(ct)).map_err(err_s)?;
        let r = f(&mut pw).map_err(err_s)?;
        pw.commit().map_err(err_s)?;
        Ok(r)
    }

    fn apply(&mut self, id: u64, ev: &Ev) {
        let _t = Timer::new("event");
        crate::entropy::swap_stream(Some(Rng::new(self.seed ^ id.wrapping_mul(K))));
        let kind = ev.kind();
        self.kinds.push(fnv64(kind.as_bytes()));
        let mut is_ldap = false;
        let res: String = match ev.clone() {
            Ev::Flag { v } => self
                .write(|pw| pw.qs_write.internal_modify_uuid(UUID_DOMAIN_INFO, &ModifyList::new_purge_and_set(Attribute::LdapAllowUnixPwBind, Value::Bool(v))))
                .map(|_| "ok".to_string())
                .unwrap_or_else(|e| e),
            Ev::Fallback { v } => self
                .write(|pw| pw.qs_write.internal_modify_uuid(UUID_IDM_ALL_PERSONS, &ModifyList::new_purge_and_set(Attribute::AllowPrimaryCredFallback, Value::Bool(v))))
                .map(|_| "ok".to_string())
                .unwrap_or_else(|e| e),
            Ev::Member { g, m, add } => self
                .write(|pw| {
                    let ml = if add { ModifyList::new_append(Attribute::Member, Value::Refer(m)) } else { ModifyList::new_remove(Attribute::Member, PartialValue::Refer(m)) };
                    pw.qs_write.internal_modify_uuid(g, &ml)
                })
                .map(|_| "ok".to_string())
                .unwrap_or_else(|e| e),
            Ev::SetUnixPw { u, pw: pass } => self
                .write(|pw| {
                    let ev = UnixPasswordChangeEvent::from_parts(vh::identity_internal(), u, pass.clone())?;
                    pw.set_unix_account_password(&ev)
                })
                .map(|_| "ok".to_string())
                .unwrap_or_else(|e| e),
            Ev::SetPw { u, pw: pass } => {
                let ct = self.now();
                self.write(|pw| {
                    let pol = kanidm_lib_crypto::CryptoPolicy::danger_test_minimum();
                    let cred = Credential::new_password_only(&pol, &pass, OffsetDateTime::UNIX_EPOCH + ct)?;
                    pw.qs_write.internal_modify_uuid(u, &ModifyList::new_purge_and_set(Attribute::PrimaryCredential, Value::new_credential("primary", cred)))
                })
                .map(|_| "ok".to_string())
                .unwrap_or_else(|e| e)
            }
            Ev::GenAppPw { u, app, label } => {
                let r = self.write(|pw| pw.generate_application_password(&GenerateApplicationPasswordEvent::new_internal(u, app, label.clone())));
                match r {
                    Ok((clear, _)) => {
                        self.secrets.insert(format!("app:{label}"), clear);
                        "ok".into()
                    }
                    Err(e) => e,
                }
            }
            Ev::GenToken { sa, label, rw, exp } => {
                let ct = self.now();
                let r = self.write(|pw| {
                    let ev = GenerateApiTokenEvent { ident: vh::identity_internal(), target: sa, label: label.clone(), expiry: exp.map(|e| OffsetDateTime::UNIX_EPOCH + Duration::from_secs(e)), read_write: rw, compact: false };
                    pw.service_account_generate_api_token(&ev, ct)
                });
                match r {
                    Ok(tok) => {
                        self.secrets.insert(format!("tok:{label}"), tok.to_string());
                        "ok".into()
                    }
                    Err(e) => e,
                }
            }
            Ev::GenRadius { u, label } => {
                let r = self.write(|pw| pw.regenerate_radius_secret(&RegenerateRadiusSecretEvent::from_parts(vh::identity_internal(), u)?));
                match r {
                    Ok(s) => {
                        self.secrets.insert(format!("rad:{label}"), s);
                        "ok".into()
                    }
                    Err(e) => e,
                }
            }
            Ev::Login { name, pw, label, privileged, target } => {
                let w = self.win(target);
                let r = self.login(&name, AuthMech::Password, AuthCredential::Password(pw), privileged);
                let granted = r.is_ok();
                let res = match r {
                    Ok(tok) => {
                        self.secrets.insert(format!("uat:{label}"), tok);
                        "granted".to_string()
                    }
                    Err(e) => e,
                };
                self.judge(w, "auth", "self", granted, &res, target);
                if self.cfg.auto_deliver {
                    self.deliver();
                }
                res
            }
            Ev::LoginInit { name, label, target } => {
                let _ = target;
                match self.login_init(&name, AuthMech::Password, false) {
                    Ok(sid) => {
                        self.auth_sessions.insert(label, sid);
                        "continue".into()
                    }
                    Err(e) => e,
                }
            }
            Ev::LoginCred { label, pw, target } => {
                let w = self.win(target);
                match self.auth_sessions.remove(&label) {
                    None => "no-session".into(),
                    Some(sid) => {
                        let r = self.login_cred(sid, AuthCredential::Password(pw));
                        let granted = r.is_ok();
                        let res = match r {
                            Ok(tok) => {
                                self.secrets.insert(format!("uat:{label}"), tok);
                                "granted".to_string()
                            }
                            Err(e) => e,
                        };
                        // a credential step of a login begun while the account was still valid: recorded
                        // as a probe only (the statement does not speak about logins in flight)
                        match (w, granted) {
                            (Win::Before, true) | (Win::After, true) => self.out.probe("c49_inflight_login_completed_outside"),
                            (Win::Before, false) | (Win::After, false) => self.out.probe("c49_inflight_login_refused_outside"),
                            _ => self.out.probe("c49_inflight_login_inside"),
                        }
                        if self.cfg.auto_deliver {
                            self.deliver();
                        }
                        res
                    }
                }
            }
            Ev::LoginAnon { label } => match self.login("anonymous", AuthMech::Anonymous, AuthCredential::Anonymous, false) {
                Ok(tok) => {
                    self.secrets.insert(format!("uat:{label}"), tok);
                    if self.cfg.auto_deliver {
                        self.deliver();
                    }
                    "granted".into()
                }
                Err(e) => e,
            },
            Ev::Window { u, from, to } => self
                .write(|pw| {
                    let mut ml = vec![Modify::Purged(Attribute::AccountValidFrom), Modify::Purged(Attribute::AccountExpire)];
                    if let Some(f) = from {
                        ml.push(Modify::Present(Attribute::AccountValidFrom, Value::new_datetime_epoch(Duration::from_secs(f))));
                    }
                    if let Some(t) = to {
                        ml.push(Modify::Present(Attribute::AccountExpire, Value::new_datetime_epoch(Duration::from_secs(t))));
                    }
                    pw.qs_write.internal_modify_uuid(u, &ModifyList::new_list(ml))
                })
                .map(|_| "ok".to_string())
                .unwrap_or_else(|e| e),
            Ev::Disable { name, u } => {
                let _ = u;
                self.write(|pw| pw.disable_account(&name)).map(|_| "ok".to_string()).unwrap_or_else(|e| e)
            }
            Ev::Advance { secs } => {
                self.ct += secs;
                self.out.sim_secs += secs as f64;
                "ok".into()
            }
            Ev::Deliver {} => self.deliver(),
            Ev::DropDelayed {} => {
                let n = self.pull_delayed();
                let k = self.pending.len();
                self.pending.clear();
                self.out.fault("delayed_actions_lost");
                format!("dropped:{n}:{k}")
            }
            Ev::Restart {} => {
                // queued delayed actions die with the process
                self.pull_delayed();
                self.pending.clear();
                self.out.fault("restart");
                match self.boot() {
                    Ok(()) => "ok".into(),
                    Err(e) => {
                        self.out.harness_error = Some(format!("restart: {e}"));
                        e
                    }
                }
            }
            Ev::LdapBind { c, dn, sec, target, app } => {
                is_ldap = true;
                self.ev_ldap_bind(c, &dn, &sec, target, app)
            }
            Ev::LdapMsg { c, msg, target } => {
                is_ldap = true;
                let _ = target;
                self.ev_ldap_msg(c, msg)
            }
            Ev::Try { path, target, name, sec, by, app } => self.ev_try(&path, target, &name, &sec, by.as_deref(), app.as_deref()),
        };
        if self.prop == "C40" && self.out.harness_error.is_none() {
            if is_ldap {
                self.check_readonly(&kind);
            } else if let Err(e) = self.refresh_dump() {
                self.out.harness_error = Some(e);
            }
        }
        self.out.events_run += 1;
        self.out.chain(fnv64(format!("{kind}|{res}").as_bytes()));
        let sd = self.state_digest();
        if std::env::var("VERIF_TRACE").is_ok() {
            eprintln!("TRACE seed={} step={} {kind}|{res}|{sd:016x}|dump={:016x}", self.seed, self.step, self.last_dump.as_ref().map(stable_digest).unwrap_or(0));
        }
        self.out.chain(sd);
        self.out.states.push(sd);
    }

    fn state_digest(&mut self) -> u64 {
        let mut s = String::new();
        if let Some(d) = &self.last_dump {
            s.push_str(&format!("{:016x}|", stable_digest(d)));
        }
        for c in &self.conns {
            s.push_str(match &c.class {
                None => "-",
                Some(BindClass::Anonymous) => "a",
                Some(BindClass::Account) => "p",
                Some(BindClass::Application) => "x",
                Some(BindClass::Token(_)) => "t",
            });
        }
        s.push('|');
        for k in self.secrets.keys() {
            s.push_str(k);
            s.push(',');
        }
        if self.prop == "C49" {
            let us: Vec<Uuid> = self.cfg.persons.iter().map(|p| p.u).chain(self.cfg.sas.iter().map(|s| s.u)).collect();
            for u in us {
                let w = self.win(u);
                let win = self.db_window(u);
                s.push_str(&format!("{w:?}{:?}", win.map(|(f, t)| (f.map(|f| f - self.t0 as i64), t.map(|t| t - self.t0 as i64)))));
            }
            s.push_str(&format!("|{}", self.ct - self.t0));
        }
        fnv64(s.as_bytes())
    }

    fn ev_ldap_bind(&mut self, c: usize, dn: &str, sec: &Sec, target: Option<Uuid>, app: Option<Uuid>) -> String {
        let c = c % (self.conns.len() - 1);
        let pw = self.sec(sec);
        let class = Self::classify_bind(dn, &pw, target);
        let flag = self.db_flag();
        let w = target.map(|t| self.win(t));
        let got = self.ldap_send(c, self.bind_msg(dn, &pw));
        let bound = got == LdapSummary::Bound;
        let cls = match &class {
            BindClass::Anonymous => "anonymous",
            BindClass::Account => "account",
            BindClass::Application => "application",
            BindClass::Token(_) => "token",
        };
        self.out.probe(&format!("bind_{cls}_{}", if bound { "ok" } else { "refused" }));
        if bound {
            self.conns[c].class = Some(class.clone());
            self.conns[c].target = target;
            if self.prop == "C40" {
                match class {
                    BindClass::Account => {
                        if flag == Some(false) {
                            self.viol("unix-bind-flag", "bind=account-password;ldap_allow_unix_pw_bind=false", format!("bind as {dn:?} with a password succeeded although the domain has ldap_allow_unix_pw_bind=false"));
                        }
                        if matches!(sec, Sec::Lit(l) if l.starts_with("wrong")) {
                            self.out.probe("c40_bind_ok_with_wrong_secret");
                        }
                    }
                    BindClass::Application => {
                        if let (Some(p), Some(a)) = (target, app) {
                            if self.db_is_member_of_linked_group(p, a) == Some(false) {
                                self.viol("app-bind-membership", "bind=application;member-of-linked-group=false", format!("application bind as {dn:?} succeeded although the account is not a member of the application's linked group"));
                            }
                        } else {
                            self.out.probe("c40_app_bind_ok_unresolved_dn");
                        }
                    }
                    _ => {}
                }
            }
        }
        if let (Some(t), Some(w)) = (target, w) {
            self.judge(w, &format!("ldap_bind_{cls}"), "self", bound, &got.short(), t);
        }
        got.short()
    }

    fn ev_ldap_msg(&mut self, c: usize, msg: J) -> String {
        let c = c % (self.conns.len() - 1);
        let Ok(mut m) = serde_json::from_value::<LdapMsg>(msg) else { return "bad-msg".into() };
        m.msgid = (self.step as i32) + 1;
        let held = self.conns[c].target;
        let w = held.map(|t| self.win(t));
        let op = m.op.clone();
        let got = self.ldap_send(c, m);
        if self.prop == "C40" {
            match &op {
                LdapOp::SearchRequest(sr) => self.check_search(c, sr, &got),
                LdapOp::CompareRequest(cr) => self.check_compare(c, cr, &got),
                _ => {}
            }
        }
        // C49: a connection bound earlier in the name of an account must stop answering once that
        // account is outside its window.
        if let (Some(t), Some(w)) = (held, w) {
            match (&op, &got) {
                (LdapOp::SearchRequest(sr), LdapSummary::Search(_, code)) if !(sr.base.is_empty() && sr.scope == LdapSearchScope::Base) => {
                    self.judge(w, "ldap_search_on_bound_connection", "self", code == "Success", &got.short(), t)
                }
                (LdapOp::CompareRequest(_), LdapSummary::Compare(code)) => {
                    self.judge(w, "ldap_compare_on_bound_connection", "self", code == "CompareTrue" || code == "CompareFalse", &got.short(), t)
                }
                _ => {}
            }
        }
        got.short()
    }

    fn ev_try(&mut self, path: &str, target: Uuid, name: &str, sec: &Sec, by: Option<&str>, app: Option<&str>) -> String {
        let w = self.win(target);
        let secret = self.sec(sec);
        let who = match by {
            None => "self",
            Some(b) if b.starts_with("uat:anon") => "anonymous",
            Some(b) if b.starts_with("uat:") => "self",
            Some(b) if b.starts_with("tok:radsrv") => "radius_server",
            Some(b) if b.starts_with("tok:posixcl") => "posix_client",
            Some(_) => "other_service",
        };
        let who = if path.starts_with("oauth2_") && path != "oauth2_authorise" { "oauth2_client" } else { who };
        let by_tok = by.map(|b| self.sec(&Sec::Ref(b.to_string())));
        let ct = self.now();
        let (granted, detail): (bool, String) = match path {
            "reauth" => {
                let r = (|| -> Result<String, String> {
                    let tok = by_tok.clone().ok_or("no-token")?;
                    let ident = self.ident_from_token(&tok).map_err(|e| format!("ident:{e}"))?;
                    let idms = &self.idm.as_ref().expect("idm").idms;
                    let mut au = block(idms.auth()).map_err(err_s)?;
                    let r = block(au.reauth_init(ident, AuthIssueSession::Token, ct, internal_cai(), ReauthRequest::GrantReadWrite)).map_err(|e| format!("reauth-init:{}", err_s(e)))?;
                    let sid = r.sessionid;
                    match r.state {
                        AuthState::Continue(_) => {}
                        AuthState::Denied(m) => return Err(format!("reauth-denied:{m}")),
                        other => return Err(format!("reauth-unexpected:{}", err_s(other))),
                    }
                    let step = AuthEvent::from_message(Some(sid), AuthStep::Cred(AuthCredential::Password(secret.clone())).into()).map_err(err_s)?;
                    let r = block(au.auth(&step, ct, internal_cai())).map_err(|e| format!("cred:{}", err_s(e)))?;
                    let out = match r.state {
                        AuthState::Success(t, _) => Ok(t.to_string()),
                        AuthState::Denied(m) => Err(format!("cred-denied:{m}")),
                        other => Err(format!("cred-unexpected:{}", err_s(other))),
                    };
                    au.commit().map_err(err_s)?;
                    out
                })();
                if self.cfg.auto_deliver {
                    self.deliver();
                }
                match r {
                    Ok(_) => (true, "re-authenticated".into()),
                    Err(e) => (false, e),
                }
            }
            "auth_unix" => {
                let idms = &self.idm.as_ref().expect("idm").idms;
                let r = block(idms.auth()).map_err(err_s).and_then(|mut au| {
                    let ev = UnixUserAuthEvent::from_parts(vh::identity_internal(), target, secret.clone()).map_err(err_s)?;
                    let r = block(au.auth_unix(&ev, ct)).map_err(err_s);
                    let _ = au.commit();
                    r
                });
                match r {
                    Ok(Some(t)) => (true, format!("unix token valid={}", t.valid)),
                    Ok(None) => (false, "none".into()),
                    Err(e) => (false, e),
                }
            }
            "radius" => {
                let r = (|| -> Result<String, String> {
                    let tok = by_tok.clone().ok_or("no-token")?;
                    let ident = self.ident_from_token(&tok).map_err(|e| format!("ident:{e}"))?;
                    let idms = &self.idm.as_ref().expect("idm").idms;
                    let mut pr = block(idms.proxy_read()).map_err(err_s)?;
                    let ev = RadiusAuthTokenEvent::from_parts(ident, target).map_err(err_s)?;
                    let t = pr.get_radiusauthtoken(&ev, ct).map_err(err_s)?;
                    Ok(format!("RadiusAuthToken for {} released, secret length {}", t.name, t.secret.len()))
                })();
                match r {
                    Ok(d) => (true, d),
                    Err(e) => (false, e),
                }
            }
            "unixtok" => {
                let r = (|| -> Result<(bool, String), String> {
                    let tok = by_tok.clone().ok_or("no-token")?;
                    let ident = self.ident_from_token(&tok).map_err(|e| format!("ident:{e}"))?;
                    let idms = &self.idm.as_ref().expect("idm").idms;
                    let mut pr = block(idms.proxy_read()).map_err(err_s)?;
                    let ev = UnixUserTokenEvent::from_parts(ident, target).map_err(err_s)?;
                    let t = pr.get_unixusertoken(&ev, ct).map_err(err_s)?;
                    Ok((t.valid, format!("UnixUserToken {} valid={}", t.name, t.valid)))
                })();
                match r {
                    Ok((v, d)) => (v, d),
                    Err(e) => (false, e),
                }
            }
            "oauth2_authorise" => {
                let r = (|| -> Result<String, String> {
                    let tok = by_tok.clone().ok_or("no-token")?;
                    let ident = self.ident_from_token(&tok).map_err(|e| format!("ident:{e}"))?;
                    let auth_req = AuthorisationRequest {
                        response_type: ResponseType::Code,
                        response_mode: None,
                        client_id: "rs0".into(),
                        state: Some("123".into()),
                        pkce_request: None,
                        redirect_uri: Url::parse("https://demo.example.com/oauth2/result").map_err(err_s)?,
                        scope: ["openid".to_string()].into_iter().collect(),
                        nonce: Some("abcdef".into()),
                        oidc_ext: Default::default(),
                        max_age: None,
                        prompt: Default::default(),
                        ui_locales: Default::default(),
                        unknown_keys: Default::default(),
                    };
                    let resp = {
                        let idms = &self.idm.as_ref().expect("idm").idms;
                        let pr = block(idms.proxy_read()).map_err(err_s)?;
                        pr.check_oauth2_authorisation(Some(&ident), &auth_req, &AuthorisationRequestContext::default(), ct).map_err(|e| format!("authorise:{}", err_s(e)))?
                    };
                    match resp {
                        AuthoriseResponse::ConsentRequested { consent_token, .. } => {
                            self.write(|pw| pw.check_oauth2_authorise_permit(&ident, &consent_token, ct)).map(|p| p.code).map_err(|e| format!("permit:{e}"))
                        }
                        AuthoriseResponse::Permitted(p) => Ok(p.code),
                        other => Err(format!("authorise:{}", err_s(other))),
                    }
                })();
                match r {
                    Ok(code) => {
                        self.secrets.insert(format!("code:{name}"), code);
                        (true, "authorisation code issued".into())
                    }
                    Err(e) => (false, e),
                }
            }
            "oauth2_exchange" | "oauth2_refresh" => {
                let o2secret = self.sec(&Sec::Ref("o2secret".into()));
                let grant = if path == "oauth2_exchange" {
                    GrantTypeReq::AuthorizationCode { code: secret.clone(), redirect_uri: Url::parse("https://demo.example.com/oauth2/result").expect("url"), code_verifier: None }
                } else {
                    GrantTypeReq::RefreshToken { refresh_token: secret.clone(), scope: None }
                };
                let req = AccessTokenRequest { grant_type: grant, client_post_auth: ClientPostAuth { client_id: Some("rs0".into()), client_secret: Some(o2secret) } };
                let idms = &self.idm.as_ref().expect("idm").idms;
                let r = block(idms.proxy_write(ct)).map_err(err_s).and_then(|mut pw| {
                    let r = pw.check_oauth2_token_exchange(&internal_cai(), &req, ct).map_err(err_s)?;
                    pw.commit().map_err(err_s)?;
                    Ok(r)
                });
                // a code or refresh token is single use: forget it either way
                if let Sec::Ref(l) = sec {
                    self.secrets.remove(l);
                }
                match r {
                    Ok(t) => {
                        self.secrets.insert(format!("at:{name}"), t.access_token);
                        if let Some(rt) = t.refresh_token {
                            self.secrets.insert(format!("rt:{name}"), rt);
                        }
                        (true, "access token issued".into())
                    }
                    Err(e) => (false, e),
                }
            }
            "oauth2_introspect" => {
                let o2secret = self.sec(&Sec::Ref("o2secret".into()));
                let idms = &self.idm.as_ref().expect("idm").idms;
                let r = block(idms.proxy_read()).map_err(err_s).and_then(|mut pr| {
                    pr.check_oauth2_token_introspect(&AccessTokenIntrospectRequest { token: secret.clone(), token_type_hint: None, client_post_auth: ClientPostAuth { client_id: Some("rs0".into()), client_secret: Some(o2secret.clone()) } }, ct).map_err(err_s)
                });
                match r {
                    Ok(i) => (i.active, format!("introspection active={}", i.active)),
                    Err(e) => (false, e),
                }
            }
            "oauth2_userinfo" => {
                let r = JwsCompact::from_str(&secret).map_err(|_| "not-a-token".to_string()).and_then(|jws| {
                    let idms = &self.idm.as_ref().expect("idm").idms;
                    let mut pr = block(idms.proxy_read()).map_err(err_s)?;
                    pr.oauth2_openid_userinfo("rs0", &jws, ct).map_err(err_s)
                });
                match r {
                    Ok(_) => (true, "userinfo released".into()),
                    Err(e) => (false, e),
                }
            }
            "token_present" => match self.ident_from_token(&secret) {
                Ok(_) => (true, "token accepted as identity".into()),
                Err(e) => (false, e),
            },
            "ldap_token_search" | "ldap_name_search" | "ldap_app_search" => {
                // fresh connection: bind, then one search for the account's own entry
                let scratch = self.conns.len() - 1;
                self.conns[scratch] = Conn { uat: None, class: None, target: None };
                let dn = match path {
                    "ldap_token_search" => "dn=token".to_string(),
                    "ldap_name_search" => format!("name={name},{BASEDN}"),
                    _ => format!("name={name},app={},{BASEDN}", app.unwrap_or("noapp")),
                };
                let b = self.ldap_send(scratch, self.bind_msg(&dn, &secret));
                let bound = b == LdapSummary::Bound;
                let bpath = match path {
                    "ldap_token_search" => "ldap_bind_token",
                    "ldap_name_search" => "ldap_bind_account",
                    _ => "ldap_bind_application",
                };
                self.judge(w, bpath, who, bound, &b.short(), target);
                let r = if bound {
                    let sr = LdapSearchRequest {
                        base: BASEDN.to_string(),
                        scope: LdapSearchScope::Subtree,
                        aliases: LdapDerefAliases::Never,
                        sizelimit: 0,
                        timelimit: 0,
                        typesonly: false,
                        filter: LdapFilter::Equality("name".into(), name.to_string()),
                        attrs: vec!["name".into()],
                    };
                    let s = self.ldap_send(scratch, LdapMsg { msgid: 9, op: LdapOp::SearchRequest(sr), ctrl: vec![] });
                    (matches!(&s, LdapSummary::Search(_, c) if c == "Success"), s.short())
                } else {
                    (false, b.short())
                };
                self.conns[scratch] = Conn { uat: None, class: None, target: None };
                r
            }
            _ => (false, "unknown-path".into()),
        };
        let jpath = match path {
            "ldap_token_search" | "ldap_name_search" | "ldap_app_search" => "ldap_search_after_bind",
            p => p,
        };
        self.judge(w, jpath, who, granted, &detail, target);
        format!("{}:{}", if granted { "granted" } else { "refused" }, detail.chars().take(60).collect::<String>())
    }

    fn finish(mut self) -> Outcome {
        crate::entropy::swap_stream(None);
        if std::env::var("VERIF_TIMING").is_ok() {
            TIMES.with(|t| eprintln!("timing(us): {:?}", t.borrow()));
        }
        vh::set_sim_now(None);
        for w in self.kinds.windows(3) {
            self.out.trigrams.push(w[0].rotate_left(7) ^ w[1].rotate_left(3) ^ w[2]);
        }
        self.out.trigrams.sort();
        self.out.trigrams.dedup();
        self.out.states.sort();
        self.out.states.dedup();
        self.out.nontrivial = self.out.events_run >= 3 && self.out.states.len() >= 2;
        self.ldap = None;
        self.idm = None;
        self.out
    }
}

/// Digest of a dump that leaves out values drawn from the crypto libraries' own generators (key
/// material, salts, generated secrets): no behaviour under test depends on them, and they are the
/// one thing that can differ between two executions of a plan. Attribute presence and value counts
/// are still included.
fn stable_digest(d: &Dump) -> u64 {
    const VALUES_OF: [&str; 24] = [
        "class", "name", "spn", "uuid", "member", "memberof", "directmemberof", "account_expire", "account_valid_from", "ldap_allow_unix_pw_bind",
        "allow_primary_cred_fallback", "gidnumber", "mail", "displayname", "description", "linked_group", "loginshell", "domain_name", "version",
        "dynmember", "entry_managed_by", "name_history", "last_modified_cid", "created_at_cid",
    ];
    let mut h = 0u64;
    for (u, (st, j)) in &d.entries {
        let mut line = format!("{u}|{st:?}|");
        if let Some(attrs) = j.pointer("/ent/V3/attrs").and_then(|a| a.as_object()) {
            for (k, v) in attrs {
                if VALUES_OF.contains(&k.as_str()) {
                    line.push_str(&format!("{k}={v};"));
                } else {
                    let n = v.as_object().and_then(|o| o.values().next()).and_then(|x| x.as_array()).map(|a| a.len()).unwrap_or(1);
                    line.push_str(&format!("{k}#{n};"));
                }
            }
        }
        h = h.rotate_left(5) ^ fnv64(line.as_bytes());
    }
    h
}

fn execute(prop: &'static str, plan: &Plan) -> Outcome {
    execute_inner(prop, plan)
}

fn execute_inner(prop: &'static str, plan: &Plan) -> Outcome {
    let cfg: Cfg = match serde_json::from_value(plan.cfg.clone()) {
        Ok(c) => c,
        Err(e) => return Outcome { harness_error: Some(format!("bad cfg: {e}")), ..Default::default() },
    };
    let mut w = match World::new(prop, cfg, plan.seed) {
        Ok(w) => w,
        Err(e) => {
            crate::entropy::swap_stream(None);
            return Outcome { harness_error: Some(e), ..Default::default() };
        }
    };
    for p in probes0(prop) {
        w.out.probe0(p);
    }
    for (i, ev) in plan.events.iter().enumerate() {
        w.step = i;
        let id = ev.get("id").and_then(|x| x.as_u64()).unwrap_or(i as u64);
        let Ok(e) = serde_json::from_value::<Ev>(ev.clone()) else { continue };
        w.apply(id, &e);
        if w.out.harness_error.is_some() {
            break;
        }
    }
    w.finish()
}

fn probes0(prop: &str) -> Vec<&'static str> {
    if prop == "C40" {
        vec![
            "bind_account_ok", "bind_account_refused", "bind_application_ok", "bind_application_refused", "bind_token_ok", "bind_token_refused", "bind_anonymous_ok",
            "c40_pwbind_vs_anon_compared", "c40_native_compared", "c40_native_compared_nonempty", "c40_values_compared", "c40_compare_compared", "c40_compare_true",
            "c40_bind_ok_with_wrong_secret",
        ]
    } else {
        vec![
            "c49_outside_refused:auth", "c49_inside_granted:auth", "c49_outside_refused:reauth", "c49_inside_granted:reauth", "c49_outside_refused:auth_unix", "c49_inside_granted:auth_unix",
            "c49_outside_refused:radius", "c49_inside_granted:radius", "c49_outside_refused:unixtok", "c49_inside_granted:unixtok", "c49_outside_refused:token_present", "c49_inside_granted:token_present",
            "c49_outside_refused:ldap_bind_account", "c49_inside_granted:ldap_bind_account", "c49_outside_refused:ldap_bind_application", "c49_inside_granted:ldap_bind_application",
            "c49_outside_refused:ldap_bind_token", "c49_inside_granted:ldap_bind_token", "c49_outside_refused:ldap_search_after_bind", "c49_inside_granted:ldap_search_after_bind",
            "c49_outside_refused:ldap_search_on_bound_connection", "c49_inside_granted:ldap_search_on_bound_connection", "c49_inflight_login_completed_outside", "c49_boundary_granted:auth", "c49_boundary_refused:radius",
            "c49_inside_granted:oauth2_authorise", "c49_outside_refused:oauth2_authorise", "c49_inside_granted:oauth2_exchange", "c49_outside_refused:oauth2_exchange",
            "c49_inside_granted:oauth2_refresh", "c49_outside_refused:oauth2_refresh", "c49_inside_granted:oauth2_introspect", "c49_outside_refused:oauth2_introspect",
            "c49_inside_granted:oauth2_userinfo", "c49_outside_refused:oauth2_userinfo", "c49_outside_refused:ldap_compare_on_bound_connection",
        ]
    }
}

// ------------------------------------------------------------------------------------------------
// Generators
// ------------------------------------------------------------------------------------------------

fn strong_pw(tag: &str, n: u64) -> String {
    format!("ntaoeu{tag}ntnaoeuhraohuer{n}cahu")
}

struct Gen {
    r: Rng,
    next_id: u64,
    events: Vec<J>,
}

impl Gen {
    fn push(&mut self, ev: Ev) {
        let mut j = serde_json::to_value(&ev).expect("ev json");
        j.as_object_mut().expect("obj").insert("id".into(), json!(self.next_id));
        self.next_id += 1;
        self.events.push(j);
    }
}

fn msg_json(op: LdapOp) -> J {
    serde_json::to_value(LdapMsg { msgid: 1, op, ctrl: vec![] }).expect("msg json")
}

fn gen_c40(seed: u64, tier: Tier) -> Plan {
    let mut g = Gen { r: Rng::stream(seed, "c40"), next_id: 1, events: vec![] };
    let np = g.r.range(2, 3) as usize;
    let mut persons = vec![];
    for i in 0..np {
        let gid = if g.r.chance(4, 5) { Some(2000 + i as u32) } else { None };
        persons.push(PersonSpec {
            u: uuid_for(1, i as u64),
            name: format!("p{i}"),
            gid,
            mail: if g.r.chance(2, 3) { vec![format!("p{i}@{DOMAIN}"), format!("p{i}.alt@{DOMAIN}")] } else { vec![] },
            pw: Some(strong_pw("prim", i as u64)),
            unix_pw: if gid.is_some() && g.r.chance(5, 6) { Some(strong_pw("unix", i as u64)) } else { None },
            radius: g.r.chance(1, 2),
            from: None,
            to: None,
        });
    }
    let pu: Vec<Uuid> = persons.iter().map(|p| p.u).collect();
    let mut groups = vec![];
    for i in 0..2usize {
        let members: Vec<Uuid> = pu.iter().filter(|_| g.r.chance(1, 2)).copied().collect();
        groups.push(GroupSpec { u: uuid_for(2, i as u64), name: format!("g{i}"), gid: if i == 0 { Some(3000) } else { None }, members });
    }
    let apps = vec![
        AppSpec { u: uuid_for(3, 0), name: "a0".into(), group: groups[0].u },
        AppSpec { u: uuid_for(3, 1), name: "a1".into(), group: groups[1].u },
    ];
    let sas = vec![
        SaSpec { u: uuid_for(4, 0), name: "s0".into(), join: vec![UUID_IDM_ACCOUNT_MAIL_READ], from: None, to: None },
        SaSpec { u: uuid_for(4, 1), name: "s1".into(), join: vec![UUID_IDM_PEOPLE_ADMINS, UUID_IDM_RADIUS_SERVERS], from: None, to: None },
        SaSpec { u: uuid_for(4, 2), name: "s2".into(), join: vec![], from: None, to: None },
    ];
    let cfg = Cfg {
        file: false,
        conns: 3,
        auto_deliver: g.r.chance(1, 2),
        oauth2: false,
        posix_readers: if g.r.chance(1, 2) { vec![UUID_ANONYMOUS] } else { vec![] },
        persons: persons.clone(),
        groups: groups.clone(),
        apps: apps.clone(),
        sas: sas.clone(),
    };
    // credentials that only exist once the server generated them
    for s in &sas {
        let rw = g.r.chance(1, 3);
        let exp = if s.name == "s2" && g.r.chance(1, 2) { Some(BASE_EPOCH + 3000) } else { None };
        g.push(Ev::GenToken { sa: s.u, label: s.name.clone(), rw, exp });
    }
    let mut app_labels: Vec<(usize, usize, String)> = vec![];
    for (pi, p) in persons.iter().enumerate() {
        for (ai, a) in apps.iter().enumerate() {
            if g.r.chance(2, 3) {
                let label = format!("{}{}", p.name, a.name);
                g.push(Ev::GenAppPw { u: p.u, app: a.u, label: label.clone() });
                app_labels.push((pi, ai, label));
            }
        }
    }
    let privileged = g.r.chance(1, 2);
    g.push(Ev::Login { name: "p0".into(), pw: strong_pw("prim", 0), label: "p0".into(), privileged, target: persons[0].u });
    let n = match tier {
        Tier::Quick => g.r.range(40, 60),
        Tier::Thorough => g.r.range(50, 90),
    };
    let mut now = BASE_EPOCH;
    for _ in 0..n {
        let k = g.r.pick_weighted(&[30, 30, 7, 3, 2, 5, 6, 3, 2, 5, 2, 2, 2, 2]);
        match k {
            0 => {
                let ev = gen_bind(&mut g.r, &persons, &apps, &sas, &groups, &app_labels);
                g.push(ev);
            }
            1 => {
                let c = g.r.below(3) as usize;
                let sr = gen_search(&mut g.r, &persons, &apps, &sas, &groups);
                g.push(Ev::LdapMsg { c, msg: msg_json(LdapOp::SearchRequest(sr)), target: None });
            }
            2 => {
                let c = g.r.below(3) as usize;
                let cr = gen_compare(&mut g.r, &persons, &groups);
                g.push(Ev::LdapMsg { c, msg: msg_json(LdapOp::CompareRequest(cr)), target: None });
            }
            3 => {
                let c = g.r.below(3) as usize;
                let op = if g.r.chance(3, 4) { LdapOp::ExtendedRequest(LdapExtendedRequest { name: "1.3.6.1.4.1.4203.1.11.3".into(), value: None }) } else { LdapOp::UnbindRequest };
                g.push(Ev::LdapMsg { c, msg: msg_json(op), target: None });
            }
            4 | 13 => {
                let c = g.r.below(3) as usize;
                let op = gen_write_op(&mut g.r, &persons, &groups);
                g.push(Ev::LdapMsg { c, msg: msg_json(op), target: None });
            }
            5 => {
                let v = g.r.chance(3, 4);
                g.push(Ev::Flag { v });
            }
            6 => {
                let gi = g.r.below(groups.len() as u64) as usize;
                let m = *g.r.pick(&pu);
                let add = g.r.chance(1, 2);
                g.push(Ev::Member { g: groups[gi].u, m, add });
            }
            7 => {
                let pi = g.r.below(persons.len() as u64) as usize;
                let ai = g.r.below(apps.len() as u64) as usize;
                let label = format!("{}{}", persons[pi].name, apps[ai].name);
                g.push(Ev::GenAppPw { u: persons[pi].u, app: apps[ai].u, label: label.clone() });
                if !app_labels.iter().any(|(a, b, _)| *a == pi && *b == ai) {
                    app_labels.push((pi, ai, label));
                }
            }
            8 => {
                let pi = g.r.below(persons.len() as u64) as usize;
                if persons[pi].gid.is_some() {
                    let pw = strong_pw("unix", pi as u64 + 10 * g.r.below(2));
                    g.push(Ev::SetUnixPw { u: persons[pi].u, pw });
                }
            }
            9 => {
                let secs = *g.r.pick(&[1u64, 30, 400, 4000, 4000, 90_000]);
                now += secs;
                g.push(Ev::Advance { secs });
            }
            10 => g.push(Ev::Deliver {}),
            11 => {
                let v = g.r.chance(1, 2);
                g.push(Ev::Fallback { v });
            }
            _ => {
                // an account that drops out of its validity window while connections are bound
                let pi = g.r.below(persons.len() as u64) as usize;
                let (from, to) = *g.r.pick(&[(None, Some(now - DAY)), (Some(now + DAY), None), (None, None), (Some(now - DAY), Some(now + DAY))]);
                g.push(Ev::Window { u: persons[pi].u, from, to });
            }
        }
    }
    Plan { property: "C40".into(), seed, cfg: serde_json::to_value(&cfg).expect("cfg"), events: g.events }
}

fn gen_bind(r: &mut Rng, persons: &[PersonSpec], apps: &[AppSpec], sas: &[SaSpec], groups: &[GroupSpec], app_labels: &[(usize, usize, String)]) -> Ev {
    let c = r.below(3) as usize;
    let form = r.pick_weighted(&[10, 34, 26, 22, 8]);
    match form {
        // anonymous
        0 => {
            let (dn, sec) = match r.below(3) {
                0 => ("".to_string(), Sec::Lit("".into())),
                1 => ("anonymous".to_string(), Sec::Lit("".into())),
                _ => (format!("name=anonymous,{BASEDN}"), Sec::Lit("whatever".into())),
            };
            Ev::LdapBind { c, dn, sec, target: Some(UUID_ANONYMOUS), app: None }
        }
        // account DN + password
        1 => {
            let pi = r.below(persons.len() as u64) as usize;
            let p = &persons[pi];
            let (dn, target) = match r.below(12) {
                0 => (p.name.clone(), Some(p.u)),
                1 => (format!("{}@{DOMAIN}", p.name), Some(p.u)),
                2 => (p.u.as_hyphenated().to_string(), Some(p.u)),
                3 => (format!("name={},{BASEDN}", p.name), Some(p.u)),
                4 => (format!("spn={}@{DOMAIN},{BASEDN}", p.name), Some(p.u)),
                5 => (format!("uuid={},{BASEDN}", p.u.as_hyphenated()), Some(p.u)),
                6 => (format!("name={}", p.name), Some(p.u)),
                7 => (format!("cn={},{BASEDN}", p.name), Some(p.u)),
                8 => (format!("name=ghost,{BASEDN}"), None),
                9 => (format!("name={},dc=wrong,dc=org", p.name), None),
                10 => (format!("name={},{BASEDN}", sas[r.below(sas.len() as u64) as usize].name), None),
                _ => (format!("name={},{BASEDN}", groups[0].name), None),
            };
            let sec = match r.below(10) {
                0..=3 | 8 | 9 => Sec::Lit(p.unix_pw.clone().unwrap_or_else(|| strong_pw("unix", pi as u64))),
                4 => Sec::Lit(format!("wrong-{}", r.below(1000))),
                5 => Sec::Lit("".into()),
                6 => Sec::Lit(p.pw.clone().unwrap_or_default()),
                _ => match app_labels.iter().find(|(a, _, _)| *a == pi) {
                    Some((_, _, l)) => Sec::Ref(format!("app:{l}")),
                    None => Sec::Lit(strong_pw("unix", pi as u64 + 10)),
                },
            };
            Ev::LdapBind { c, dn, sec, target, app: None }
        }
        // application DN + application password
        2 => {
            let (pi, ai) = if !app_labels.is_empty() && r.chance(3, 4) {
                let (a, b, _) = &app_labels[r.below(app_labels.len() as u64) as usize];
                (*a, *b)
            } else {
                (r.below(persons.len() as u64) as usize, r.below(apps.len() as u64) as usize)
            };
            let (p, a) = (&persons[pi], &apps[ai]);
            let (dn, target, app) = match r.below(10) {
                8 | 9 => (format!("name={},app={},{BASEDN}", p.name, a.name), Some(p.u), Some(a.u)),
                0 => (format!("name={},app={},{BASEDN}", p.name, a.name), Some(p.u), Some(a.u)),
                1 => (format!("spn={}@{DOMAIN},app={},{BASEDN}", p.name, a.name), Some(p.u), Some(a.u)),
                2 => (format!("{},app={}", p.name, a.name), Some(p.u), Some(a.u)),
                3 => (format!("name={},app={}", p.name, a.name), Some(p.u), Some(a.u)),
                4 => (format!("uuid={},app={},{BASEDN}", p.u.as_hyphenated(), a.name), Some(p.u), Some(a.u)),
                5 => (format!("name={},app=noapp,{BASEDN}", p.name), Some(p.u), None),
                6 => (format!("name=ghost,app={},{BASEDN}", a.name), None, Some(a.u)),
                _ => (format!("name=anonymous,app={},{BASEDN}", a.name), Some(UUID_ANONYMOUS), Some(a.u)),
            };
            let sec = match r.below(11) {
                0..=3 | 8 | 9 | 10 => Sec::Ref(format!("app:{}{}", p.name, a.name)),
                4 => Sec::Ref(format!("app:{}{}", p.name, apps[(ai + 1) % apps.len()].name)),
                5 => Sec::Ref(format!("app:{}{}", persons[(pi + 1) % persons.len()].name, a.name)),
                6 => Sec::Lit(p.unix_pw.clone().unwrap_or_default()),
                _ => Sec::Lit(format!("wrong-{}", r.below(1000))),
            };
            Ev::LdapBind { c, dn, sec, target, app }
        }
        // token
        3 => {
            let dn = match r.below(4) {
                0 => "".to_string(),
                1 | 2 => "dn=token".to_string(),
                _ => "DN=TOKEN".to_string(),
            };
            let (sec, target) = match r.below(10) {
                0 | 1 => (Sec::Ref("tok:s0".into()), Some(sas[0].u)),
                2 | 3 => (Sec::Ref("tok:s1".into()), Some(sas[1].u)),
                4 | 7 => (Sec::Ref("tok:s2".into()), Some(sas[2].u)),
                5 | 8 | 9 => (Sec::Ref("uat:p0".into()), Some(persons[0].u)),
                _ => (Sec::Lit("eyJhbGciOiJFUzI1NiJ9.e30.AAAA".into()), None),
            };
            Ev::LdapBind { c, dn, sec, target, app: None }
        }
        // malformed
        _ => {
            let dn = r.pick(&["=", ",", "name=", "name=p0,app=", "a=b=c", "name=p0,,", "app=a0", "name=p0,app=a0,app=a1", "\u{0}", "name=p0,app=a0,dc=example"]).to_string();
            Ev::LdapBind { c, dn, sec: Sec::Lit(strong_pw("unix", 0)), target: None, app: None }
        }
    }
}

fn gen_leaf(r: &mut Rng, persons: &[PersonSpec], apps: &[AppSpec], sas: &[SaSpec], groups: &[GroupSpec]) -> LdapFilter {
    let names: Vec<String> = persons
        .iter()
        .map(|p| p.name.clone())
        .chain(groups.iter().map(|g| g.name.clone()))
        .chain(apps.iter().map(|a| a.name.clone()))
        .chain(sas.iter().map(|s| s.name.clone()))
        .chain(["anonymous", "admin", "idm_admins", "idm_all_persons", "ghost", "domain_local"].iter().map(|s| s.to_string()))
        .collect();
    let classes = ["person", "account", "group", "posixaccount", "posixgroup", "service_account", "application", "object", "domain_info", "classtype", "attributetype", "access_control_profile", "PosixAccount", "builtin", "system"];
    let uuids: Vec<Uuid> = persons.iter().map(|p| p.u).chain(groups.iter().map(|g| g.u)).chain([UUID_DOMAIN_INFO, UUID_ANONYMOUS, UUID_IDM_ADMINS]).collect();
    match r.below(16) {
        0 | 1 => LdapFilter::Equality(r.pick(&["name", "cn", "uid", "NAME"]).to_string(), r.pick(&names).clone()),
        2 | 3 | 4 => LdapFilter::Equality(r.pick(&["class", "objectclass", "objectClass"]).to_string(), r.pick(&classes).to_string()),
        5 => LdapFilter::Equality(r.pick(&["uuid", "entryuuid"]).to_string(), r.pick(&uuids).as_hyphenated().to_string()),
        6 => LdapFilter::Equality(r.pick(&["gidnumber", "uidnumber"]).to_string(), r.pick(&["2000", "2001", "3000", "7"]).to_string()),
        7 => LdapFilter::Equality("spn".into(), format!("{}@{DOMAIN}", r.pick(&names))),
        8 => LdapFilter::Equality(r.pick(&["member", "memberof"]).to_string(), r.pick(&names).clone()),
        9 => LdapFilter::Equality(r.pick(&["mail", "displayname", "gecos", "description"]).to_string(), r.pick(&["p0@example.com", "Person p0", "desc g0", "Person p1"]).to_string()),
        10 | 11 => LdapFilter::Present(r.pick(&["class", "objectclass", "name", "gidnumber", "mail", "member", "memberof", "unix_password", "primary_credential", "radius_secret", "application_password", "api_token_session", "account_expire", "linked_group", "uidnumber"]).to_string()),
        12 => LdapFilter::Substring(r.pick(&["name", "cn", "displayname", "description"]).to_string(), LdapSubstringFilter { initial: None, any: vec![r.pick(&["p", "g", "a", "idm", "erson", "0"]).to_string()], final_: None }),
        13 => LdapFilter::Substring(
            r.pick(&["name", "mail", "spn"]).to_string(),
            LdapSubstringFilter { initial: if r.chance(1, 2) { Some("p".into()) } else { None }, any: vec![], final_: Some(r.pick(&["0", "@example.com", "1"]).to_string()) },
        ),
        14 => match r.below(4) {
            0 => LdapFilter::GreaterOrEqual("gidnumber".into(), "2000".into()),
            1 => LdapFilter::LessOrEqual("gidnumber".into(), "2000".into()),
            2 => LdapFilter::Approx("name".into(), "p0".into()),
            _ => LdapFilter::Equality("nosuchattr".into(), "x".into()),
        },
        _ => LdapFilter::Equality(r.pick(&["homedirectory", "entrydn", "sshpublickey", "uuid", "gidnumber", "class"]).to_string(), r.pick(&["/home/x", "notauuid", "abc", "person"]).to_string()),
    }
}

fn gen_filter(r: &mut Rng, depth: u32, persons: &[PersonSpec], apps: &[AppSpec], sas: &[SaSpec], groups: &[GroupSpec]) -> LdapFilter {
    if depth == 0 || r.chance(1, 2) {
        return gen_leaf(r, persons, apps, sas, groups);
    }
    match r.below(3) {
        0 => LdapFilter::And((0..r.range(1, 3)).map(|_| gen_filter(r, depth - 1, persons, apps, sas, groups)).collect()),
        1 => LdapFilter::Or((0..r.range(1, 3)).map(|_| gen_filter(r, depth - 1, persons, apps, sas, groups)).collect()),
        _ => LdapFilter::Not(Box::new(gen_filter(r, depth - 1, persons, apps, sas, groups))),
    }
}

fn gen_search(r: &mut Rng, persons: &[PersonSpec], apps: &[AppSpec], sas: &[SaSpec], groups: &[GroupSpec]) -> LdapSearchRequest {
    let p = &persons[r.below(persons.len() as u64) as usize];
    let base = match r.below(14) {
        0..=6 => BASEDN.to_string(),
        7 => format!("name={},{BASEDN}", p.name),
        8 => format!("spn={}@{DOMAIN},{BASEDN}", p.name),
        9 => format!("uuid={},{BASEDN}", p.u.as_hyphenated()),
        10 => format!("cn={},app={},{BASEDN}", groups[0].name, apps[0].name),
        11 => format!("app={},{BASEDN}", apps[0].name),
        12 => "".to_string(),
        _ => r.pick(&["dc=wrong,dc=org", "DC=example,DC=com", "name=p0", "ou=people,dc=example,dc=com", "name=p0,name=p1,dc=example,dc=com"]).to_string(),
    };
    let scope = match r.below(8) {
        0..=4 => LdapSearchScope::Subtree,
        5 => LdapSearchScope::Base,
        6 => LdapSearchScope::OneLevel,
        _ => LdapSearchScope::Children,
    };
    let filter = if r.chance(1, 6) { LdapFilter::Present("objectclass".into()) } else { gen_filter(r, 2, persons, apps, sas, groups) };
    let pool = [
        "name", "cn", "uid", "spn", "uuid", "entryuuid", "dn", "entrydn", "objectclass", "class", "gidnumber", "uidnumber", "homedirectory", "gecos", "displayname", "mail", "mail;primary",
        "emailprimary", "mail;alternative", "member", "memberof", "loginshell", "sshpublickey", "keys", "unix_password", "radius_secret", "primary_credential", "application_password",
        "api_token_session", "account_expire", "NAME", "nosuchattr", "pwdChangedTime", "description",
    ];
    let attrs: Vec<String> = match r.below(10) {
        0 | 1 => vec![],
        2 => vec!["*".into()],
        3 => vec!["+".into()],
        4 => vec!["1.1".into()],
        5 => vec!["*".into(), r.pick(&pool).to_string(), r.pick(&pool).to_string()],
        6 => (0..60).map(|i| format!("attr{i}")).collect(),
        _ => (0..r.range(1, 5)).map(|_| r.pick(&pool).to_string()).collect(),
    };
    LdapSearchRequest { base, scope, aliases: LdapDerefAliases::Never, sizelimit: 0, timelimit: 0, typesonly: false, filter, attrs }
}

fn gen_compare(r: &mut Rng, persons: &[PersonSpec], groups: &[GroupSpec]) -> LdapCompareRequest {
    let p = &persons[r.below(persons.len() as u64) as usize];
    let dn = match r.below(5) {
        0 | 1 => format!("name={},{BASEDN}", p.name),
        2 => format!("spn={}@{DOMAIN},{BASEDN}", p.name),
        3 => format!("cn={},{BASEDN}", groups[0].name),
        _ => r.pick(&["dc=example,dc=com", "name=ghost,dc=example,dc=com", "name=p0,dc=wrong"]).to_string(),
    };
    let (atype, val): (&str, String) = match r.below(9) {
        0 => ("name", p.name.clone()),
        1 => ("objectclass", r.pick(&["person", "posixaccount", "group"]).to_string()),
        2 => ("gidnumber", r.pick(&["2000", "2001", "3000"]).to_string()),
        3 => ("uidnumber", "2000".into()),
        4 => ("mail", format!("{}@{DOMAIN}", p.name)),
        5 => ("displayname", format!("Person {}", p.name)),
        6 => ("memberof", groups[0].name.clone()),
        7 => ("member", p.name.clone()),
        _ => (*r.pick(&["radius_secret", "unix_password", "account_expire", "nosuchattr"]), "x".into()),
    };
    LdapCompareRequest { dn, atype: atype.to_string(), val: val.into_bytes() }
}

/// Every request kind of the protocol crate that could express a change, plus messages a client
/// has no business sending.
fn gen_write_op(r: &mut Rng, persons: &[PersonSpec], groups: &[GroupSpec]) -> LdapOp {
    let p = &persons[r.below(persons.len() as u64) as usize];
    let dn = format!("name={},{BASEDN}", p.name);
    let attr = |a: &str, v: &str| LdapPartialAttribute { atype: a.to_string(), vals: vec![v.as_bytes().to_vec()] };
    match r.below(11) {
        0 => LdapOp::AddRequest(LdapAddRequest { dn: format!("name=intruder,{BASEDN}"), attributes: vec![attr("objectclass", "person"), attr("name", "intruder"), attr("displayname", "x")] }),
        1 => LdapOp::ModifyRequest(LdapModifyRequest { dn, changes: vec![LdapModify { operation: LdapModifyType::Replace, modification: attr("displayname", "changed by ldap") }] }),
        2 => LdapOp::ModifyRequest(LdapModifyRequest { dn: format!("cn={},{BASEDN}", groups[0].name), changes: vec![LdapModify { operation: LdapModifyType::Add, modification: attr("member", &p.name) }] }),
        3 => LdapOp::ModifyRequest(LdapModifyRequest { dn, changes: vec![LdapModify { operation: LdapModifyType::Delete, modification: LdapPartialAttribute { atype: "mail".into(), vals: vec![] } }] }),
        4 => LdapOp::DelRequest(dn),
        5 => LdapOp::ModifyDNRequest(LdapModifyDNRequest { dn, newrdn: "name=renamed".into(), deleteoldrdn: true, new_superior: None }),
        // password modify extended operation
        6 => LdapOp::ExtendedRequest(LdapExtendedRequest { name: "1.3.6.1.4.1.4203.1.11.1".into(), value: Some(b"newpassword".to_vec()) }),
        // StartTLS
        7 => LdapOp::ExtendedRequest(LdapExtendedRequest { name: "1.3.6.1.4.1.1466.20037".into(), value: None }),
        8 => LdapOp::AbandonRequest(1),
        9 => LdapOp::BindRequest(LdapBindRequest { dn: p.name.clone(), cred: LdapBindCred::SASL(SaslCredentials { mechanism: "PLAIN".into(), credentials: format!("\0{}\0{}", p.name, p.unix_pw.clone().unwrap_or_default()).into_bytes() }) }),
        _ => LdapOp::SearchResultDone(ldap3_proto::proto::LdapResult { code: LdapResultCode::Success, matcheddn: "".into(), message: "".into(), referral: vec![] }),
    }
}

fn gen_c49(seed: u64, tier: Tier) -> Plan {
    let mut g = Gen { r: Rng::stream(seed, "c49"), next_id: 1, events: vec![] };
    let t0 = BASE_EPOCH;
    let np = g.r.range(2, 3) as usize;
    let mut persons = vec![];
    for i in 0..np {
        persons.push(PersonSpec {
            u: uuid_for(1, i as u64),
            name: format!("p{i}"),
            gid: Some(2000 + i as u32),
            mail: vec![format!("p{i}@{DOMAIN}")],
            pw: Some(strong_pw("prim", i as u64)),
            unix_pw: Some(strong_pw("unix", i as u64)),
            radius: true,
            from: None,
            to: None,
        });
    }
    let groups = vec![GroupSpec { u: uuid_for(2, 0), name: "g0".into(), gid: None, members: persons.iter().map(|p| p.u).collect() }];
    let apps = vec![AppSpec { u: uuid_for(3, 0), name: "a0".into(), group: groups[0].u }];
    let sas = vec![
        SaSpec { u: uuid_for(4, 0), name: "radsrv".into(), join: vec![UUID_IDM_RADIUS_SERVERS], from: None, to: None },
        SaSpec { u: uuid_for(4, 1), name: "posixcl".into(), join: vec![UUID_IDM_UNIX_AUTHENTICATION_READ], from: None, to: None },
        SaSpec { u: uuid_for(4, 2), name: "t0".into(), join: vec![UUID_IDM_ACCOUNT_MAIL_READ], from: None, to: None },
    ];
    let cfg = Cfg {
        file: g.r.chance(1, 2),
        conns: 3,
        auto_deliver: g.r.chance(3, 4),
        oauth2: true,
        posix_readers: vec![UUID_ANONYMOUS],
        persons: persons.clone(),
        groups: groups.clone(),
        apps: apps.clone(),
        sas: sas.clone(),
    };
    for s in &sas {
        g.push(Ev::GenToken { sa: s.u, label: s.name.clone(), rw: false, exp: None });
    }
    g.push(Ev::LoginAnon { label: "anon".into() });
    for p in &persons {
        g.push(Ev::GenAppPw { u: p.u, app: apps[0].u, label: format!("{}a0", p.name) });
        g.push(Ev::Login { name: p.name.clone(), pw: p.pw.clone().unwrap_or_default(), label: p.name.clone(), privileged: false, target: p.u });
    }
    if !cfg.auto_deliver {
        g.push(Ev::Deliver {});
    }
    let n = match tier {
        Tier::Quick => g.r.range(45, 70),
        Tier::Thorough => g.r.range(60, 110),
    };
    let mut now = t0;
    // accounts with a window: persons and the target service account t0
    let accts: Vec<(Uuid, String, bool)> = persons.iter().map(|p| (p.u, p.name.clone(), true)).chain([(sas[2].u, "t0".to_string(), false)]).collect();
    for _ in 0..n {
        let k = g.r.pick_weighted(&[16, 50, 8, 3, 3, 2, 7, 8, 2, 2, 5]);
        let (u, name, is_person) = accts[g.r.below(accts.len() as u64) as usize].clone();
        // the built-in anonymous account has a validity window too: its window is closed and
        // reopened, and the token it was issued at the start is presented again
        if g.r.chance(1, 10) {
            match g.r.below(5) {
                0 => g.push(Ev::Window { u: UUID_ANONYMOUS, from: None, to: None }),
                1 => g.push(Ev::Window { u: UUID_ANONYMOUS, from: None, to: Some(now - DAY) }),
                2 => g.push(Ev::Window { u: UUID_ANONYMOUS, from: Some(now + DAY), to: None }),
                3 => g.push(Ev::Try { path: "token_present".into(), target: UUID_ANONYMOUS, name: "anonymous".into(), sec: Sec::Ref("uat:anon".into()), by: None, app: None }),
                _ => g.push(Ev::Try { path: "ldap_token_search".into(), target: UUID_ANONYMOUS, name: "anonymous".into(), sec: Sec::Ref("uat:anon".into()), by: None, app: None }),
            }
            continue;
        }
        match k {
            0 => {
                let (from, to) = match g.r.below(14) {
                    0 => (None, None),
                    1 => (Some(now - 2 * DAY), Some(now - DAY)),
                    2 => (Some(now + DAY), Some(now + 2 * DAY)),
                    3 => (Some(now - DAY), Some(now + DAY)),
                    4 => (None, Some(now - DAY)),
                    5 => (Some(now + DAY), None),
                    6 => (None, Some(now + DAY)),
                    7 => (Some(now - DAY), None),
                    8 => (Some(now), None),
                    9 => (None, Some(now)),
                    10 => (Some(now + 1), None),
                    11 => (None, Some(now - 1)),
                    12 => (Some(now - 1), Some(now + 1)),
                    _ => (None, Some(now + 2)),
                };
                g.push(Ev::Window { u, from, to });
            }
            1 => {
                let ev = gen_try(&mut g.r, u, &name, is_person, &persons);
                g.push(ev);
            }
            2 => {
                let secs = *g.r.pick(&[1u64, 1, 2, 3, 60, 600, 4000, DAY, 2 * DAY]);
                now += secs;
                g.push(Ev::Advance { secs });
            }
            3 => g.push(Ev::Deliver {}),
            4 => {
                if cfg.file {
                    g.push(Ev::Restart {});
                }
            }
            5 => {
                if is_person {
                    g.push(Ev::Disable { name: name.clone(), u });
                }
            }
            6 => {
                // bind a long-lived connection in the account's name, used by later searches
                let c = g.r.below(2) as usize;
                if is_person {
                    let (dn, sec) = if g.r.chance(1, 2) {
                        (format!("name={name},{BASEDN}"), Sec::Lit(strong_pw("unix", name[1..].parse().unwrap_or(0))))
                    } else {
                        (format!("name={name},app=a0,{BASEDN}"), Sec::Ref(format!("app:{name}a0")))
                    };
                    g.push(Ev::LdapBind { c, dn, sec, target: Some(u), app: Some(apps[0].u) });
                } else {
                    g.push(Ev::LdapBind { c, dn: "dn=token".into(), sec: Sec::Ref("tok:t0".into()), target: Some(u), app: None });
                }
            }
            7 => {
                let c = g.r.below(2) as usize;
                let sr = LdapSearchRequest {
                    base: BASEDN.into(),
                    scope: LdapSearchScope::Subtree,
                    aliases: LdapDerefAliases::Never,
                    sizelimit: 0,
                    timelimit: 0,
                    typesonly: false,
                    filter: LdapFilter::Equality("class".into(), "person".into()),
                    attrs: vec!["name".into()],
                };
                let op = if g.r.chance(3, 4) { LdapOp::SearchRequest(sr) } else { LdapOp::CompareRequest(LdapCompareRequest { dn: format!("name=p0,{BASEDN}"), atype: "name".into(), val: b"p0".to_vec() }) };
                g.push(Ev::LdapMsg { c, msg: msg_json(op), target: None });
            }
            10 => {
                // OAuth2 authorisation-code flow, optionally cut by a window edit or a clock step
                if is_person {
                    let t = |path: &str, sec: Sec, by: Option<String>| Ev::Try { path: path.into(), target: u, name: name.clone(), sec, by, app: None };
                    g.push(t("oauth2_authorise", Sec::Lit("".into()), Some(format!("uat:{name}"))));
                    for stage in 0..2 {
                        match g.r.below(6) {
                            0 => g.push(Ev::Window { u, from: None, to: Some(now - DAY) }),
                            1 => g.push(Ev::Window { u, from: Some(now + DAY), to: None }),
                            2 => {
                                let secs = *g.r.pick(&[1u64, 2, 30]);
                                now += secs;
                                g.push(Ev::Advance { secs });
                            }
                            _ => {}
                        }
                        if stage == 0 {
                            g.push(t("oauth2_exchange", Sec::Ref(format!("code:{name}")), None));
                        } else {
                            let (p, s) = *g.r.pick(&[("oauth2_introspect", "at"), ("oauth2_userinfo", "at"), ("oauth2_refresh", "rt")]);
                            g.push(t(p, Sec::Ref(format!("{s}:{name}")), None));
                        }
                    }
                }
            }
            8 => {
                if is_person {
                    let label = format!("{name}-{}", g.next_id);
                    g.push(Ev::LoginInit { name: name.clone(), label: label.clone(), target: u });
                    if g.r.chance(1, 2) {
                        let (from, to) = if g.r.chance(1, 2) { (None, Some(now - DAY)) } else { (Some(now + DAY), None) };
                        g.push(Ev::Window { u, from, to });
                    } else {
                        let secs = *g.r.pick(&[2u64, 60, 200]);
                        now += secs;
                        g.push(Ev::Advance { secs });
                    }
                    g.push(Ev::LoginCred { label, pw: strong_pw("prim", name[1..].parse().unwrap_or(0)), target: u });
                }
            }
            _ => {
                if is_person {
                    // a fresh login (also an attempt through the interactive front end)
                    let label = if g.r.chance(1, 2) { name.clone() } else { format!("{name}b") };
                    let privileged = g.r.chance(1, 3);
                    g.push(Ev::Login { name: name.clone(), pw: strong_pw("prim", name[1..].parse().unwrap_or(0)), label, privileged, target: u });
                } else {
                    g.push(Ev::GenToken { sa: u, label: "t0".into(), rw: false, exp: None });
                }
            }
        }
    }
    Plan { property: "C49".into(), seed, cfg: serde_json::to_value(&cfg).expect("cfg"), events: g.events }
}

fn gen_try(r: &mut Rng, u: Uuid, name: &str, is_person: bool, persons: &[PersonSpec]) -> Ev {
    let idx: u64 = name[1..].parse().unwrap_or(0);
    let _ = persons;
    if !is_person {
        // service account with an API token
        let path = *r.pick(&["token_present", "ldap_token_search", "token_present", "ldap_token_search", "unixtok"]);
        return match path {
            "unixtok" => Ev::Try { path: path.into(), target: u, name: name.into(), sec: Sec::Lit("".into()), by: Some("tok:posixcl".into()), app: None },
            _ => Ev::Try { path: path.into(), target: u, name: name.into(), sec: Sec::Ref("tok:t0".into()), by: None, app: None },
        };
    }
    let good = r.chance(9, 10);
    let pw = |tag: &str| if good { strong_pw(tag, idx) } else { "wrong-password-here".to_string() };
    match r.below(16) {
        13 => Ev::Try { path: "oauth2_refresh".into(), target: u, name: name.into(), sec: Sec::Ref(format!("rt:{name}")), by: None, app: None },
        14 => Ev::Try { path: "oauth2_introspect".into(), target: u, name: name.into(), sec: Sec::Ref(format!("at:{name}")), by: None, app: None },
        15 => Ev::Try { path: "oauth2_userinfo".into(), target: u, name: name.into(), sec: Sec::Ref(format!("at:{name}")), by: None, app: None },
        0 => Ev::Login { name: name.into(), pw: pw("prim"), label: format!("{name}c"), privileged: false, target: u },
        1 => Ev::Try { path: "reauth".into(), target: u, name: name.into(), sec: Sec::Lit(pw("prim")), by: Some(format!("uat:{name}")), app: None },
        2 => Ev::Try { path: "auth_unix".into(), target: u, name: name.into(), sec: Sec::Lit(pw("unix")), by: None, app: None },
        3 | 4 => Ev::Try { path: "radius".into(), target: u, name: name.into(), sec: Sec::Lit("".into()), by: Some("tok:radsrv".into()), app: None },
        5 => Ev::Try { path: "radius".into(), target: u, name: name.into(), sec: Sec::Lit("".into()), by: Some(format!("uat:{name}")), app: None },
        6 => Ev::Try { path: "unixtok".into(), target: u, name: name.into(), sec: Sec::Lit("".into()), by: Some("tok:posixcl".into()), app: None },
        7 => Ev::Try { path: "unixtok".into(), target: u, name: name.into(), sec: Sec::Lit("".into()), by: Some("uat:anon".into()), app: None },
        8 => Ev::Try { path: "token_present".into(), target: u, name: name.into(), sec: Sec::Ref(format!("uat:{}", if r.chance(1, 2) { name.to_string() } else { format!("{name}b") })), by: None, app: None },
        9 => Ev::Try { path: "ldap_name_search".into(), target: u, name: name.into(), sec: Sec::Lit(pw("unix")), by: None, app: None },
        10 => Ev::Try { path: "ldap_app_search".into(), target: u, name: name.into(), sec: if good { Sec::Ref(format!("app:{name}a0")) } else { Sec::Lit("wrong".into()) }, by: None, app: Some("a0".into()) },
        11 => Ev::Try { path: "ldap_token_search".into(), target: u, name: name.into(), sec: Sec::Ref(format!("uat:{name}")), by: None, app: None },
        _ => Ev::Try { path: "unixtok".into(), target: u, name: name.into(), sec: Sec::Lit("".into()), by: Some(format!("uat:{name}")), app: None },
    }
}

// ------------------------------------------------------------------------------------------------
// Scenarios
// ------------------------------------------------------------------------------------------------

pub struct FrontScenario {
    id: &'static str,
}

impl Scenario for FrontScenario {
    fn property(&self) -> &'static str {
        self.id
    }
    fn engine(&self) -> &'static str {
        if self.id == "C40" {
            "E5 idm/ldap"
        } else {
            "E5 idm/validity"
        }
    }
    fn budget(&self, tier: Tier) -> Budget {
        match tier {
            Tier::Quick => Budget { runs: 240, wall_cap_s: 150 },
            Tier::Thorough => Budget { runs: 20_000, wall_cap_s: 1500 },
        }
    }
    fn generate(&self, seed: u64, tier: Tier) -> Plan {
        if self.id == "C40" {
            gen_c40(seed, tier)
        } else {
            gen_c49(seed, tier)
        }
    }
    fn execute(&self, plan: &Plan) -> Outcome {
        execute(self.id, plan)
    }
    fn rule(&self) -> String {
        if self.id == "C40" {
            "A run = one real IdmServer + LdapServer (production boot path, in-memory SQLite) with generated persons (POSIX attributes, unix and primary passwords, mail, RADIUS secret), groups, two applications with linked groups, three service accounts with API tokens, and 45–70 explicit events: LDAP binds on three connections (every accepted DN form × right/wrong/empty/other-kind secrets, tokens, malformed DNs), searches (random base/scope/filter/attribute list), compares, whoami/unbind, every change-expressing request kind of ldap3_proto (add, modify, delete, modrdn, password-modify and StartTLS extended ops, abandon, SASL bind, stray responses) — all sent through the BER codec and ServerOps::try_from exactly as kanidmd_core does — interleaved with flag toggles, membership changes, new application passwords, unix password changes, validity-window edits, clock advances and delayed-action delivery. distinct_nontrivial = distinct digests of (canonical whole-database dump, bind class of each connection, secrets issued); a run counts if it executed ≥3 events and reached ≥2 such states.".into()
        } else {
            "A run = one real IdmServer + LdapServer (production boot path; file-backed in half the runs, so restarts are real) with 2–3 persons holding every credential type (primary password, unix password, RADIUS secret, application password, session tokens), a target service account with an API token, and the documented service identities (member of idm_radius_servers, member of idm_unix_authentication_read, anonymous) each authenticated by its own API token / session; 55–90 explicit events: validity-window edits (past, future, open, one-sided, instants equal to now and now±1 s, disable_account), clock advances (1 s … 2 days), restarts, delayed-action delivery or loss, long-lived LDAP connections, logins split around a window edit, and attempts through every front end (interactive auth, re-auth, auth_unix, RADIUS token as the user and as a RADIUS server, unix user token as POSIX client / anonymous / the user, presentation of earlier session and API tokens, OAuth2 authorise+consent / code exchange / refresh / introspection / userinfo against a basic client (the flow optionally cut by a window edit or clock step between its stages), LDAP bind by name / application / token followed by a search, search or compare on a connection bound earlier). The window used by the oracle is read from the database at the instant of the attempt. distinct_nontrivial = distinct digests of (window state of every account relative to now, secrets issued, connection states); a run counts if it executed ≥3 events and reached ≥2 states.".into()
        }
    }
    fn components(&self) -> J {
        json!({
            "real": ["kanidmd_lib IdmServer (auth sessions, soft locks, token validation, credential release)", "kanidmd_lib LdapServer::do_op (bind/search/compare/whoami)", "QueryServer + access controls as shipped (migration_data dl_1_12)", "ldap3_proto BER codec and ServerOps conversion", "kanidm_lib_crypto (minimum-cost policy)", "SQLite"],
            "stub": ["kanidmd_core ldaps connection loop and QueryServerReadV1 request handlers: mirrored line by line in the harness (token → identity → event → call)", "TLS/TCP transport", "wall clock (ct parameter and hook H1 for the LDAP paths)", "OS entropy (seeded stream)", "delayed-action worker task: simulator-held queue delivered, delayed or lost by explicit events"],
            "not_run": ["HTTP/axum layer", "unixd / PAM / RADIUS daemons (their server-side calls are run)", "passkeys / TOTP"]
        })
    }
    fn assumptions(&self) -> Vec<String> {
        vec![
            "the harness mirrors kanidmd_core's request handlers (validate_client_auth_info_to_ident → event → IDM call) instead of running the HTTP layer".into(),
            "validity: an account is 'outside' when now < valid_from or now > expire; attempts at an instant equal to a bound are recorded but not judged".into(),
            "LDAP/native differential is attempted only for requests whose filter, base and attributes fall in the documented mapping the harness implements; other requests are still checked for read-only-ness and anonymous-equivalence".into(),
            "sampled, not exhaustive: a clean batch is evidence, not proof".into(),
        ]
    }
    fn droppable(&self, _ev: &J) -> bool {
        true
    }
}

pub fn scenarios() -> Vec<Box<dyn Scenario>> {
    vec![Box::new(FrontScenario { id: "C40" }), Box::new(FrontScenario { id: "C49" })]
}
