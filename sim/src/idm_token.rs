//! Engine E5 "idm/token": bearer-token life cycle on a real `IdmServer` (C32, C33, C36).
//!
//! One or two nodes. Node 0 takes every write (real credential-update sessions, real `auth` flow
//! split into its steps, API-token issue/destroy, session revocation, validity-window edits,
//! delete/revive, domain key rotation/revocation, policy edits, restart); node 1 (optional) only
//! receives node 0's changes through the real replication supplier/consumer and is a second place
//! where tokens are presented. The session record of a login is a *delayed action*: the simulator
//! owns the queue and delivers (in any order), or loses it at a restart, only through explicit
//! events. After every event every outstanding token is presented on every node and the result is
//! compared with a ledger kept by the harness (one-sided rules taken from the statements).
use crate::cluster::BASE_EPOCH;
use crate::driver::{Budget, Outcome, Plan, Scenario, Tier};
use crate::node::{block, boot_idm, boot_qs, poll_now, NodeCfg, Scratch};
use crate::rng::{fnv64, uuid_for, Rng};
use compact_jwt::JwsCompact;
use kanidm_proto::internal::{ApiToken as ProtoApiToken, UserAuthToken};
use kanidm_proto::v1::{AuthIssueSession, AuthMech};
use kanidmd_lib::idm::authentication::{AuthCredential, AuthStep};
use kanidmd_lib::idm::server::IdmServerProxyWriteTransaction;
use kanidmd_lib::entry::{Entry, EntryInit, EntryNew};
use kanidmd_lib::idm::account::DestroySessionTokenEvent;
use kanidmd_lib::idm::authentication::{AuthState, ReauthRequest};
use kanidmd_lib::idm::credupdatesession::{CredentialUpdateSessionToken, InitCredentialUpdateEvent};
use kanidmd_lib::idm::delayed::DelayedAction;
use kanidmd_lib::idm::event::{AuthEvent, LdapAuthEvent, LdapTokenAuthEvent, UnixPasswordChangeEvent};
use kanidmd_lib::idm::ldap::LdapBoundToken;
use kanidmd_lib::idm::server::{IdmServerDelayed, IdmServerTransaction};
use kanidmd_lib::idm::serviceaccount::{DestroyApiTokenEvent, GenerateApiTokenEvent};
use kanidmd_lib::prelude::*;
use kanidmd_lib::repl::proto::{ConsumerState, ReplIncrementalContext, ReplRefreshContext, ReplRuvRange};
use kanidmd_lib::value::{Oauth2Session, SessionState};
use kanidmd_lib::verif_hooks as vh;
use serde::{Deserialize, Serialize};
use serde_json::{json, Value as J};
use std::collections::{BTreeMap, BTreeSet};
use std::path::PathBuf;
use std::rc::Rc;
use compact_jwt::traits::JwsVerifiable;
use kanidmd_lib::idm::event::GeneratePasswordEvent;

/// `AUTH_TOKEN_GRACE_WINDOW` as stated in the property ("a short grace window after issue").
const GRACE: u64 = 300;
/// Upper bound of any privilege window (MAXIMUM_AUTH_PRIVILEGE_EXPIRY == limited session expiry).
const PRIV_MAX: u64 = 3600;
const K: u64 = 0x9E37_79B9_7F4A_7C15;
const UC_PERSON: u8 = 5;
const UC_SVC: u8 = 6;
const UC_O2: u8 = 7;
const UC_RS: u8 = 8;
/// cred-step password meaning "the password kanidm generated for this service account"
const GENERATED: &str = "<generated>";

// ------------------------------------------------------------------------------------------------
// Plan vocabulary
// ------------------------------------------------------------------------------------------------

#[derive(Clone, Debug, Serialize, Deserialize)]
pub struct Cfg {
    pub persons: usize,
    pub svcs: usize,
    pub nodes: usize,
    pub file_backed: bool,
    /// also exercise the LDAP token-bind path (a bound connection re-validated later)
    pub ldap_sessions: bool,
}

/// Account reference: persons first, then service accounts.
#[derive(Clone, Copy, Debug, Serialize, Deserialize, PartialEq, Eq)]
pub struct AcctRef {
    pub svc: bool,
    pub i: usize,
}

#[derive(Clone, Debug, Serialize, Deserialize)]
#[serde(tag = "op")]
pub enum Op {
    /// nothing but the passage of time and a presentation round
    Present,
    CuBegin { cu: u64, p: usize },
    CuSetPw { cu: u64, pw: String },
    CuDelPrimary { cu: u64 },
    CuCommit { cu: u64 },
    CuCancel { cu: u64 },
    /// auth steps "init" + "begin password mech" for person p; pending auth kept under `slot`
    LoginBegin { slot: u64, p: usize, privileged: bool },
    /// the same for service account s (password login with its generated password)
    SvcLoginBegin { slot: u64, s: usize, privileged: bool },
    /// administrator recovery: new generated-type password `pw`, validity reset to "from now"
    Recover { p: usize, pw: String },
    /// generate_service_account_password (the password stays inside the executor; a cred step
    /// whose pw is "<generated>" uses it)
    SvcGenPw { s: usize },
    /// auth step "cred" for the pending auth (login or re-auth) under `slot`; a token lands in `slot`
    LoginCred { slot: u64, pw: String },
    AnonLogin { slot: u64 },
    /// `reauth_init` using the token in `from`; pending auth kept under `slot`
    ReauthBegin { slot: u64, from: u64, rw: bool },
    /// deliver the k-th (mod queue length) queued delayed action
    Deliver { k: u64 },
    DeliverAll,
    DestroySession { slot: u64 },
    ApiIssue { slot: u64, s: usize, rw: bool, compact: bool, exp: Option<u64> },
    ApiDestroy { slot: u64 },
    SetValidity { a: AcctRef, from: Option<u64>, to: Option<u64> },
    Delete { a: AcctRef },
    Revive { a: AcctRef },
    KeyRotate { at: u64 },
    /// revoke the domain key that signed the token in `slot`
    KeyRevokeOf { slot: u64 },
    SetPolicy { sess: u32, privx: u32 },
    Restart,
    Pull,
    SetUnixPw { p: usize, pw: String },
    LdapBind { p: usize, pw: String },
    LdapAnonBind,
    /// bind an LDAP connection with the token in `slot`; the connection is re-validated later
    LdapTokenBind { ls: u64, slot: u64 },
    /// OAuth2 session value written on the account with the login session of `slot` as parent
    O2Grant { o: u64, slot: u64, life: u64 },
}

impl Op {
    fn kind(&self) -> &'static str {
        match self {
            Op::Present => "present",
            Op::CuBegin { .. } => "cu-begin",
            Op::CuSetPw { .. } => "cu-setpw",
            Op::CuDelPrimary { .. } => "cu-delprimary",
            Op::CuCommit { .. } => "cu-commit",
            Op::CuCancel { .. } => "cu-cancel",
            Op::LoginBegin { .. } => "login-begin",
            Op::SvcLoginBegin { .. } => "svc-login-begin",
            Op::Recover { .. } => "recover",
            Op::SvcGenPw { .. } => "svc-genpw",
            Op::LoginCred { .. } => "login-cred",
            Op::AnonLogin { .. } => "anon-login",
            Op::ReauthBegin { .. } => "reauth-begin",
            Op::Deliver { .. } => "deliver",
            Op::DeliverAll => "deliver-all",
            Op::DestroySession { .. } => "destroy-session",
            Op::ApiIssue { .. } => "api-issue",
            Op::ApiDestroy { .. } => "api-destroy",
            Op::SetValidity { .. } => "set-validity",
            Op::Delete { .. } => "delete",
            Op::Revive { .. } => "revive",
            Op::KeyRotate { .. } => "key-rotate",
            Op::KeyRevokeOf { .. } => "key-revoke",
            Op::SetPolicy { .. } => "set-policy",
            Op::Restart => "restart",
            Op::Pull => "pull",
            Op::SetUnixPw { .. } => "set-unixpw",
            Op::LdapBind { .. } => "ldap-bind",
            Op::LdapAnonBind => "ldap-anon-bind",
            Op::LdapTokenBind { .. } => "ldap-token-bind",
            Op::O2Grant { .. } => "o2-grant",
        }
    }
}

/// One event: `t` = absolute simulated time (seconds after BASE_EPOCH) at which it happens. The
/// executor uses `max(previous + 1, t)`, so dropping events never moves the others.
#[derive(Clone, Debug, Serialize, Deserialize)]
pub struct Ev {
    pub id: u64,
    pub t: u64,
    #[serde(flatten)]
    pub op: Op,
}

// ------------------------------------------------------------------------------------------------
// Ledger (the harness' own account of what has been issued, recorded, revoked, removed)
// ------------------------------------------------------------------------------------------------

#[derive(Clone, Debug)]
struct AcctM {
    uuid: Uuid,
    name: String,
    exists: bool,
    vfrom: Option<u64>,
    vto: Option<u64>,
    /// uuid of the primary credential as last observed after a credential commit
    cred: Option<Uuid>,
    removed_creds: BTreeSet<Uuid>,
    /// the current primary credential is a generated password (recover / service account)
    generated: bool,
}

#[derive(Clone, Debug)]
struct SessM {
    acct: usize,
    cred_id: Option<Uuid>,
    expiry: Option<i64>,
    recorded: bool,
    /// why the record is absent ("pending" | "lost-at-restart" | "delivery-refused")
    unrecorded_why: &'static str,
    revoked: Option<&'static str>,
}

#[derive(Clone, Debug)]
struct ApiM {
    present: bool,
}

#[derive(Clone, Debug)]
struct O2M {
    acct: usize,
    parent: Uuid,
    iat: u64,
}

#[derive(Clone, Debug, Default)]
struct Ledger {
    accts: Vec<AcctM>,
    sess: BTreeMap<Uuid, SessM>,
    api: BTreeMap<Uuid, ApiM>,
    revoked_kids: BTreeSet<String>,
    o2: BTreeMap<Uuid, O2M>,
}

#[derive(Clone, Copy, Debug, PartialEq, Eq)]
enum Origin {
    /// login with a generated password (always read-write, limited life)
    LoginGenerated { privileged: bool },
    LoginPriv,
    LoginNonPriv,
    ReauthRw,
    ReauthRo,
    Anon,
    ApiRw,
    ApiRo,
}

impl Origin {
    fn name(&self) -> &'static str {
        match self {
            Origin::LoginGenerated { privileged: true } => "generated-password privileged-login token",
            Origin::LoginGenerated { privileged: false } => "generated-password non-privileged-login token",
            Origin::LoginPriv => "privileged-login token",
            Origin::LoginNonPriv => "non-privileged-login token",
            Origin::ReauthRw => "rw-reauth token",
            Origin::ReauthRo => "verify-only-reauth token",
            Origin::Anon => "anonymous token",
            Origin::ApiRw => "read-write api token",
            Origin::ApiRo => "read-only api token",
        }
    }
    fn is_api(&self) -> bool {
        matches!(self, Origin::ApiRw | Origin::ApiRo)
    }
}

/// Immutable facts about an issued token.
struct Tok {
    jws: JwsCompact,
    kid: String,
    origin: Origin,
    /// ledger account index; None = the builtin anonymous account
    acct: Option<usize>,
    acct_uuid: Uuid,
    /// login session id / api token id
    session: Uuid,
    issued: u64,
    expiry: Option<i64>,
    /// time of the authentication or re-authentication that produced this token
    auth_time: u64,
    /// privilege window granted by that authentication (harness model of the policy), seconds
    window: u64,
    compact: bool,
}

enum AuthKind {
    Login { privileged: bool },
    Reauth { from: u64, rw: bool },
}

struct AuthSlot {
    sessionid: Uuid,
    acct: usize,
    kind: AuthKind,
    pol_sess: u64,
    pol_priv: u64,
    generated: bool,
}

struct Node {
    idms: Option<Rc<IdmServer>>,
    delayed: Option<IdmServerDelayed>,
    _audit: Option<IdmServerAudit>,
    path: Option<PathBuf>,
}

// ------------------------------------------------------------------------------------------------
// Engine
// ------------------------------------------------------------------------------------------------

struct Engine {
    seed: u64,
    cfg: Cfg,
    /// absolute simulated time, seconds since the epoch
    now: u64,
    nodes: Vec<Node>,
    _scratch: Option<Scratch>,
    led: Ledger,
    /// what node 1 has received (ledger snapshot taken at each successful pull)
    view1: Ledger,
    toks: BTreeMap<u64, Tok>,
    auths: BTreeMap<u64, AuthSlot>,
    cus: BTreeMap<u64, (CredentialUpdateSessionToken, usize)>,
    pending: Vec<DelayedAction>,
    ldaps: BTreeMap<u64, (LdapBoundToken, u64)>,
    /// passwords kanidm generated for service accounts (never part of a plan)
    gen_pw: BTreeMap<usize, String>,
    pol_sess: u64,
    pol_priv: u64,
    rs_uuid: Uuid,
    out: Outcome,
    step: usize,
    kinds: Vec<u64>,
    after: &'static str,
    accepted: u64,
    rejected: u64,
}

fn person_entry(u: Uuid, name: &str) -> Entry<EntryInit, EntryNew> {
    entry_init!(
        (Attribute::Class, EntryClass::Object.to_value()),
        (Attribute::Class, EntryClass::Account.to_value()),
        (Attribute::Class, EntryClass::Person.to_value()),
        (Attribute::Class, EntryClass::PosixAccount.to_value()),
        (Attribute::Name, Value::new_iname(name)),
        (Attribute::Uuid, Value::Uuid(u)),
        (Attribute::Description, Value::new_utf8s(name)),
        (Attribute::DisplayName, Value::new_utf8s(name))
    )
}

fn svc_entry(u: Uuid, name: &str) -> Entry<EntryInit, EntryNew> {
    entry_init!(
        (Attribute::Class, EntryClass::Object.to_value()),
        (Attribute::Class, EntryClass::Account.to_value()),
        (Attribute::Class, EntryClass::ServiceAccount.to_value()),
        (Attribute::Name, Value::new_iname(name)),
        (Attribute::Uuid, Value::Uuid(u)),
        (Attribute::Description, Value::new_utf8s(name)),
        (Attribute::DisplayName, Value::new_utf8s(name))
    )
}

fn rs_entry(u: Uuid) -> Option<Entry<EntryInit, EntryNew>> {
    let mut scopes = BTreeSet::new();
    scopes.insert(OAUTH2_SCOPE_OPENID.to_string());
    let url = Value::new_url_s("https://demo.example.com")?;
    let map = Value::new_oauthscopemap(UUID_IDM_ALL_ACCOUNTS, scopes)?;
    Some(entry_init!(
        (Attribute::Class, EntryClass::Object.to_value()),
        (Attribute::Class, EntryClass::Account.to_value()),
        (Attribute::Class, EntryClass::OAuth2ResourceServer.to_value()),
        (Attribute::Class, EntryClass::OAuth2ResourceServerBasic.to_value()),
        (Attribute::Uuid, Value::Uuid(u)),
        (Attribute::Name, Value::new_iname("tok_resource_server")),
        (Attribute::DisplayName, Value::new_utf8s("tok_resource_server")),
        (Attribute::OAuth2RsOriginLanding, url.clone()),
        (Attribute::OAuth2RsScopeMap, map.clone())
    ))
}

/// Decode the (unverified) payload of a compact JWS: the harness reads what was issued to it.
fn jws_payload(jws: &JwsCompact) -> Option<Vec<u8>> {
    use base64::{engine::general_purpose::URL_SAFE_NO_PAD, Engine as _};
    let s = jws.to_string();
    let mut it = s.split('.');
    let _h = it.next()?;
    let p = it.next()?;
    URL_SAFE_NO_PAD.decode(p.trim_end_matches('=')).ok()
}

fn odt_secs(o: &time::OffsetDateTime) -> i64 {
    o.unix_timestamp()
}

impl Engine {
    fn ct(&self) -> Duration {
        Duration::from_secs(self.now)
    }

    fn set_entropy(&self, id: u64) {
        crate::entropy::swap_stream(Some(Rng::new(self.seed ^ id.wrapping_mul(K))));
    }

    fn idms(&self, n: usize) -> Option<Rc<IdmServer>> {
        self.nodes.get(n).and_then(|x| x.idms.clone())
    }

    fn viol(&mut self, property: &'static str, oracle: &str, signature: String, summary: String) {
        if self.out.violations.iter().any(|v| v.property == property && v.oracle == oracle && v.signature == signature) {
            return;
        }
        if self.out.violations.len() < 16 {
            let step = self.step;
            let s = format!("[t=+{}s after {}] {}", self.now - BASE_EPOCH, self.after, summary);
            self.out.violate(property, oracle, &signature, s, step);
        }
    }

    fn boot_node(&mut self, n: usize) -> Result<(), String> {
        let ncfg = match &self.nodes[n].path {
            Some(p) => NodeCfg::file(p),
            None => NodeCfg::mem(),
        };
        let qs = boot_qs(&ncfg, self.ct()).map_err(|e| format!("boot qs node {n}: {e:?}"))?;
        let idm = boot_idm(qs, self.ct()).map_err(|e| format!("boot idm node {n}: {e:?}"))?;
        self.nodes[n].idms = Some(Rc::new(idm.idms));
        self.nodes[n].delayed = Some(idm.delayed);
        self.nodes[n]._audit = Some(idm.audit);
        Ok(())
    }

    fn new(cfg: Cfg, seed: u64) -> Result<Engine, String> {
        let scratch = if cfg.file_backed { Some(Scratch::new(&format!("tok-{seed:x}"))) } else { None };
        let mut e = Engine {
            seed,
            cfg: cfg.clone(),
            now: BASE_EPOCH,
            nodes: vec![],
            _scratch: scratch,
            led: Ledger::default(),
            view1: Ledger::default(),
            toks: BTreeMap::new(),
            auths: BTreeMap::new(),
            cus: BTreeMap::new(),
            pending: vec![],
            ldaps: BTreeMap::new(),
            gen_pw: BTreeMap::new(),
            pol_sess: DEFAULT_AUTH_SESSION_EXPIRY as u64,
            pol_priv: DEFAULT_AUTH_PRIVILEGE_EXPIRY as u64,
            rs_uuid: uuid_for(UC_RS, 1),
            out: Outcome::default(),
            step: 0,
            kinds: vec![],
            after: "boot",
            accepted: 0,
            rejected: 0,
        };
        for n in 0..cfg.nodes.max(1) {
            // only node 0 needs to survive a restart
            let path = if n == 0 { e._scratch.as_ref().map(|s| s.path().join("n0.db")) } else { None };
            e.nodes.push(Node { idms: None, delayed: None, _audit: None, path });
        }
        e.set_entropy(0xb007_0000);
        e.boot_node(0)?;
        // accounts
        let idms = e.idms(0).ok_or("node0")?;
        {
            let mut w = block(idms.proxy_write(e.ct())).map_err(|x| format!("{x:?}"))?;
            let mut ents = vec![];
            for i in 0..cfg.persons {
                let u = uuid_for(UC_PERSON, i as u64);
                let name = format!("tokp{i}");
                ents.push(person_entry(u, &name));
                e.led.accts.push(AcctM { uuid: u, name, exists: true, vfrom: None, vto: None, cred: None, removed_creds: BTreeSet::new(), generated: false });
            }
            for i in 0..cfg.svcs {
                let u = uuid_for(UC_SVC, i as u64);
                let name = format!("toksvc{i}");
                ents.push(svc_entry(u, &name));
                e.led.accts.push(AcctM { uuid: u, name, exists: true, vfrom: None, vto: None, cred: None, removed_creds: BTreeSet::new(), generated: false });
            }
            ents.push(rs_entry(e.rs_uuid).ok_or("rs entry")?);
            w.qs_write.internal_create(ents).map_err(|x| format!("setup create: {x:?}"))?;
            // the administrator allows password-only credentials (default policy demands MFA)
            w.qs_write
                .internal_modify_uuid(UUID_IDM_ALL_PERSONS, &ModifyList::new_purge(Attribute::CredentialTypeMinimum))
                .map_err(|x| format!("setup policy: {x:?}"))?;
            w.commit().map_err(|x| format!("setup commit: {x:?}"))?;
        }
        e.now += 1;
        if cfg.nodes > 1 {
            e.set_entropy(0xb007_0001);
            e.boot_node(1)?;
            if !e.refresh1() {
                return Err("initial refresh of node 1 failed".into());
            }
            e.view1 = e.led.clone();
        }
        crate::entropy::swap_stream(None);
        Ok(e)
    }

    fn acct_idx(&self, a: AcctRef) -> Option<usize> {
        let i = if a.svc { self.cfg.persons + a.i } else { a.i };
        if (a.svc && a.i >= self.cfg.svcs) || (!a.svc && a.i >= self.cfg.persons) {
            None
        } else {
            Some(i)
        }
    }
}

// ---- replication to node 1, delayed-action queue, restart -------------------------------------
impl Engine {
    fn refresh1(&mut self) -> bool {
        let (Some(s), Some(c)) = (self.idms(0), self.idms(1)) else { return false };
        let ctx: Result<ReplRefreshContext, OperationError> = (|| {
            let mut r = block(s.proxy_read())?;
            r.qs_read.supplier_provide_refresh()
        })();
        let Ok(ctx) = ctx else { return false };
        let wire = serde_json::to_string(&ctx).expect("json");
        let ctx: ReplRefreshContext = serde_json::from_str(&wire).expect("json");
        let r: Result<(), OperationError> = (|| {
            let mut w = block(c.proxy_write(self.ct()))?;
            w.qs_write.consumer_apply_refresh(ctx)?;
            w.commit()
        })();
        if r.is_ok() {
            self.out.probe("node1 refreshed");
        }
        r.is_ok()
    }

    /// One whole incremental pull node0 → node1 (ranges, supply, apply), as repl_task does.
    fn pull1(&mut self) -> &'static str {
        let (Some(s), Some(c)) = (self.idms(0), self.idms(1)) else { return "skipped" };
        let rr: Result<ReplRuvRange, OperationError> = (|| {
            let mut r = block(c.proxy_read())?;
            r.qs_read.consumer_get_state()
        })();
        let Ok(rr) = rr else { return "error-state" };
        let rr: ReplRuvRange = serde_json::from_str(&serde_json::to_string(&rr).expect("json")).expect("json");
        let resp: Result<ReplIncrementalContext, OperationError> = (|| {
            let mut r = block(s.proxy_read())?;
            r.qs_read.supplier_provide_changes(rr)
        })();
        let Ok(resp) = resp else { return "error-supply" };
        let resp: ReplIncrementalContext = serde_json::from_str(&serde_json::to_string(&resp).expect("json")).expect("json");
        let kind = match &resp {
            ReplIncrementalContext::V1 { .. } => "applied",
            ReplIncrementalContext::NoChangesAvailable => "nochanges",
            ReplIncrementalContext::RefreshRequired => "refresh-required",
            ReplIncrementalContext::UnwillingToSupply => "unwilling",
            ReplIncrementalContext::DomainMismatch => "domain-mismatch",
        };
        let r: Result<ConsumerState, OperationError> = (|| {
            let mut w = block(c.proxy_write(self.ct()))?;
            let cs = w.qs_write.consumer_apply_changes(resp)?;
            w.commit()?;
            Ok(cs)
        })();
        match r {
            Ok(ConsumerState::Ok) if kind == "applied" || kind == "nochanges" => {
                self.view1 = self.led.clone();
                self.out.probe("node1 pull applied");
                kind
            }
            Ok(ConsumerState::RefreshRequired) | Ok(ConsumerState::Ok) if kind == "refresh-required" => {
                if self.refresh1() {
                    self.view1 = self.led.clone();
                    "refreshed"
                } else {
                    "refresh-failed"
                }
            }
            Ok(_) => kind,
            Err(_) => "error-apply",
        }
    }

    /// Move whatever the server queued into the simulator-owned queue; returns what was moved.
    fn drain(&mut self) -> usize {
        let mut n = 0;
        if let Some(d) = self.nodes[0].delayed.as_mut() {
            loop {
                let mut buf: Vec<DelayedAction> = Vec::with_capacity(8);
                match poll_now(d.recv_many(&mut buf)) {
                    Some(k) if k > 0 => {
                        n += k;
                        self.pending.append(&mut buf);
                    }
                    _ => break,
                }
            }
        }
        n
    }

    fn deliver(&mut self, k: usize) -> String {
        if self.pending.is_empty() {
            return "empty".into();
        }
        let da = self.pending.remove(k % self.pending.len());
        let Some(idms) = self.idms(0) else { return "down".into() };
        let ct = self.ct();
        let r: Result<(), OperationError> = (|| {
            let mut w = block(idms.proxy_write(ct))?;
            w.process_delayedaction(&da, ct)?;
            w.commit()
        })();
        match (&da, r) {
            (DelayedAction::AuthSessionRecord(asr), Ok(())) => {
                let sid = asr.session_id;
                // the write is an internal-identity modify: when the account is not a live entry
                // it matches nothing and still reports success, i.e. the record is silently lost
                let gone = self.led.sess.get(&sid).map(|s| !self.led.accts[s.acct].exists).unwrap_or(false);
                if gone {
                    self.out.probe("session record dropped: account deleted at delivery");
                    if let Some(s) = self.led.sess.get_mut(&sid) {
                        s.unrecorded_why = "account-deleted-at-delivery";
                    }
                    return "asr-dropped".into();
                }
                self.out.probe("session record delivered");
                let late_removed = match self.led.sess.get_mut(&sid) {
                    Some(s) => {
                        s.recorded = true;
                        if self.now >= odt_secs(&asr.issued_at) as u64 + GRACE {
                            self.out.probe("session record delivered after the grace window");
                        }
                        s.revoked == Some("cred-removed")
                    }
                    None => false,
                };
                if late_removed {
                    self.out.probe("session record delivered after its credential was removed");
                    // C36: the record of a session whose credential is gone must not come alive.
                    let st = self.db_session_state(0, asr.target_uuid, sid);
                    if matches!(st.as_deref(), Some("live")) {
                        self.viol(
                            "C36",
                            "late-record",
                            "session record written after its credential was removed is live".into(),
                            format!("session {sid} of {} (credential {} removed earlier) was recorded late and is not revoked", asr.target_uuid, asr.cred_id),
                        );
                    }
                }
                "asr-ok".into()
            }
            (DelayedAction::AuthSessionRecord(asr), Err(e)) => {
                self.out.probe("session record delivery refused");
                if let Some(s) = self.led.sess.get_mut(&asr.session_id) {
                    s.unrecorded_why = "delivery-refused";
                }
                format!("asr-err {e:?}")
            }
            (_, r) => format!("other {}", r.is_ok()),
        }
    }

    /// "live" | "revoked" | None (absent), read from the database of node n.
    fn db_session_state(&mut self, n: usize, acct: Uuid, sid: Uuid) -> Option<String> {
        let idms = self.idms(n)?;
        let mut r = block(idms.proxy_read()).ok()?;
        let e = r.qs_read.internal_search_uuid(acct).ok()?;
        let m = e.get_ava_as_session_map(Attribute::UserAuthTokenSession)?;
        let s = m.get(&sid)?;
        Some(if matches!(s.state, SessionState::RevokedAt(_)) { "revoked".into() } else { "live".into() })
    }

    fn restart(&mut self) -> String {
        if self.nodes[0].path.is_none() {
            return "not-file-backed".into();
        }
        self.drain();
        let lost = self.pending.iter().filter(|d| matches!(d, DelayedAction::AuthSessionRecord(_))).count();
        for d in self.pending.drain(..) {
            if let DelayedAction::AuthSessionRecord(asr) = d {
                if let Some(s) = self.led.sess.get_mut(&asr.session_id) {
                    s.unrecorded_why = "lost-at-restart";
                }
            }
        }
        if lost > 0 {
            self.out.fault("session_record_lost_at_restart");
        }
        self.out.fault("restart");
        self.auths.clear();
        self.cus.clear();
        self.ldaps.clear();
        self.nodes[0].idms = None;
        self.nodes[0].delayed = None;
        self.nodes[0]._audit = None;
        match self.boot_node(0) {
            Ok(()) => format!("restarted lost={lost}"),
            Err(e) => {
                self.out.harness_error = Some(e);
                "restart-failed".into()
            }
        }
    }
}

// The rest of the engine lives in sibling files (same module, split for size).
include!("idm_token_ops.rs");
include!("idm_token_present.rs");
include!("idm_token_gen.rs");
