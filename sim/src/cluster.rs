//! E1 — cluster engine: 1–3 real kanidm servers under a simulated clock, a simulated replication
//! transport (three separately scheduled steps per link, loss, duplication, stale ranges),
//! crash/restart on file-backed nodes, purge tasks as events, and a directory workload. Step
//! invariants run on the touched node after every committed write / apply; convergence and
//! no-resurrection are checked at quiescence.
use crate::driver::{Budget, Outcome, Plan, Scenario, Tier};
use crate::dump::{Dump, EState};
use crate::node::{block, boot_qs, NodeCfg, Scratch};
use crate::oracles::{self, Snap};
use crate::rng::{fnv64, uuid_for, Rng};
use kanidmd_lib::entry::{Entry, EntryInit, EntryNew};
use kanidmd_lib::prelude::*;
use kanidmd_lib::repl::proto::{ConsumerState, ReplIncrementalContext, ReplRefreshContext, ReplRuvRange};
use kanidmd_lib::verif_hooks as vh;
use serde::{Deserialize, Serialize};
use serde_json::{json, Value as J};
use std::collections::{BTreeMap, BTreeSet};
use std::path::PathBuf;

pub const BASE_EPOCH: u64 = 1_750_000_000;
const DAY: u64 = 86_400;

#[derive(Serialize, Deserialize, Clone, Debug)]
#[serde(tag = "op")]
pub enum Op {
    CreatePerson { n: usize, u: Uuid, name: String },
    CreateGroup { n: usize, u: Uuid, name: String, members: Vec<Uuid> },
    CreateDyn { n: usize, u: Uuid, name: String, pat: String },
    SetDynFilter { n: usize, u: Uuid, pat: String },
    Rename { n: usize, u: Uuid, name: String },
    SetDesc { n: usize, u: Uuid, v: String },
    SetDisplay { n: usize, u: Uuid, v: String },
    AddMember { n: usize, g: Uuid, m: Uuid },
    RemMember { n: usize, g: Uuid, m: Uuid },
    SetManager { n: usize, u: Uuid, mgr: Uuid },
    Delete { n: usize, u: Uuid },
    Revive { n: usize, u: Uuid },
    DomainRename { n: usize, name: String },
    PurgeRecycled { n: usize },
    PurgeTombstones { n: usize },
    Reindex { n: usize },
    Advance { secs: u64 },
    Skew { n: usize, secs: i64 },
    ReplBegin { c: usize, s: usize },
    ReplSupply { c: usize, s: usize },
    ReplApply { c: usize, s: usize, dup: bool },
    ReplDrop { c: usize, s: usize },
    Pull { c: usize, s: usize },
    Refresh { c: usize, s: usize },
    Crash { n: usize },
    /// open a write transaction, create an entry, drop without commit
    Abandon { n: usize, u: Uuid, name: String },
    /// adversarial requests that must be refused and leave nothing behind
    BadCreate { n: usize, kind: u8, u: Uuid, name: String },
    BadModify { n: usize, kind: u8, u: Uuid },
    /// marker: from here on (until `heal`) the generator schedules no replication with node x
    Partition { x: usize, heal: bool },
    /// replace a person's mail values (several addresses sharing substrings)
    SetMail { n: usize, u: Uuid, mails: Vec<String> },
    /// OAuth2 client and its reference-valued maps
    CreateOauth2 { n: usize, u: Uuid, name: String },
    ScopeMap { n: usize, rs: Uuid, g: Uuid, del: bool },
    ClaimMap { n: usize, rs: Uuid, claim: String, g: Uuid, del: bool },
}

impl Op {
    fn kind(&self) -> &'static str {
        match self {
            Op::CreatePerson { .. } => "CreatePerson",
            Op::CreateGroup { .. } => "CreateGroup",
            Op::Partition { .. } => "Partition",
            Op::SetMail { .. } => "SetMail",
            Op::CreateOauth2 { .. } => "CreateOauth2",
            Op::ScopeMap { .. } => "ScopeMap",
            Op::ClaimMap { .. } => "ClaimMap",
            Op::CreateDyn { .. } => "CreateDyn",
            Op::SetDynFilter { .. } => "SetDynFilter",
            Op::Rename { .. } => "Rename",
            Op::SetDesc { .. } => "SetDesc",
            Op::SetDisplay { .. } => "SetDisplay",
            Op::AddMember { .. } => "AddMember",
            Op::RemMember { .. } => "RemMember",
            Op::SetManager { .. } => "SetManager",
            Op::Delete { .. } => "Delete",
            Op::Revive { .. } => "Revive",
            Op::DomainRename { .. } => "DomainRename",
            Op::PurgeRecycled { .. } => "PurgeRecycled",
            Op::PurgeTombstones { .. } => "PurgeTombstones",
            Op::Reindex { .. } => "Reindex",
            Op::Advance { .. } => "Advance",
            Op::Skew { .. } => "Skew",
            Op::ReplBegin { .. } => "ReplBegin",
            Op::ReplSupply { .. } => "ReplSupply",
            Op::ReplApply { .. } => "ReplApply",
            Op::ReplDrop { .. } => "ReplDrop",
            Op::Pull { .. } => "Pull",
            Op::Refresh { .. } => "Refresh",
            Op::Crash { .. } => "Crash",
            Op::Abandon { .. } => "Abandon",
            Op::BadCreate { .. } => "BadCreate",
            Op::BadModify { .. } => "BadModify",
        }
    }
}

#[derive(Serialize, Deserialize, Clone, Debug)]
pub struct Cfg {
    pub nodes: usize,
    pub file_backed: bool,
    pub arc: Option<usize>,
    pub focus: String,
    pub auto_refresh: bool,
    pub quiesce: bool,
    pub faults: bool,
    /// advance the simulated clock by one second before every event (no cross-node timestamp
    /// ties, clocks consistent with causality) — expressed through `focus`: "converge" ticks.
    #[serde(default)]
    pub tick: bool,
}

#[derive(Default)]
struct Link {
    request: Option<String>,
    response: Option<String>,
    /// simulated time at which the request / response in flight was produced
    request_at: u64,
    response_at: u64,
}

/// A replication exchange lives inside one connection of the consumer task: the ranges, the
/// supplier's reply and its application follow each other within network time-outs. Anything in
/// flight (a duplicate included) is lost once the simulated clock has moved further than this.
/// (Found at the thorough tier: a duplicate reply delivered 15 simulated days late, after the
/// consumer had reaped the tombstone, re-created the entry. The real transport cannot do that.)
const LINK_TIMEOUT_S: u64 = 3600;

struct SimNode {
    qs: Option<QueryServer>,
    path: Option<PathBuf>,
    skew: i64,
    links: BTreeMap<usize, Link>,
    /// uuids this node has held as tombstones since its last refresh
    seen_ts: BTreeSet<Uuid>,
    /// uuid -> first seen (immutability monitor)
    last_dump_digest: u64,
    last_entries: BTreeMap<Uuid, String>,
    prev_entries: BTreeMap<Uuid, String>,
    /// findings present at the previous check of this node
    active: BTreeSet<String>,
}

pub struct Cluster {
    cfg: Cfg,
    seed: u64,
    t: u64,
    nodes: Vec<SimNode>,
    _scratch: Option<Scratch>,
    /// per server uuid, the newest committed change time
    last_cid: BTreeMap<Uuid, Duration>,
    /// uuid → nodes that have held it as a tombstone since their last refresh (a refresh discards
    /// the refreshed node's own history by design, deletions included)
    tombstoned: BTreeMap<Uuid, BTreeSet<usize>>,
    recycled_ever: BTreeSet<Uuid>,
    revived_ever: BTreeSet<Uuid>,
    baseline_system: BTreeSet<Uuid>,
    /// "lag" runs, half of them (decided by the seed): the interval tasks run as on a real server,
    /// i.e. after every clock advance of at least ten minutes each running node performs two
    /// purge cycles (purge_recycled, purge_tombstones; each its own write transaction).
    periodic_purge: Vec<bool>,
    /// a node refused to start again (see `restart`): the run ends there
    pub aborted: bool,
    pub out: Outcome,
    step: usize,
    kinds: Vec<u64>,
    enabled: BTreeSet<&'static str>,
    /// class of the event after which the current check runs (part of violation signatures)
    after: &'static str,
}

#[derive(Debug, PartialEq, Eq, Clone, Copy)]
pub enum PullResult {
    NoChanges,
    Applied,
    RefreshRequired,
    Refreshed,
    Unwilling,
    Error,
    Skipped,
}

fn person(u: Uuid, name: &str) -> Entry<EntryInit, EntryNew> {
    entry_init!(
        (Attribute::Class, EntryClass::Object.to_value()),
        (Attribute::Class, EntryClass::Account.to_value()),
        (Attribute::Class, EntryClass::Person.to_value()),
        (Attribute::Name, Value::new_iname(name)),
        (Attribute::Uuid, Value::Uuid(u)),
        (Attribute::Description, Value::new_utf8s(name)),
        (Attribute::DisplayName, Value::new_utf8s(name))
    )
}

fn group(u: Uuid, name: &str, members: &[Uuid]) -> Entry<EntryInit, EntryNew> {
    let mut e = entry_init!(
        (Attribute::Class, EntryClass::Object.to_value()),
        (Attribute::Class, EntryClass::Group.to_value()),
        (Attribute::Name, Value::new_iname(name)),
        (Attribute::Uuid, Value::Uuid(u))
    );
    for m in members {
        e.add_ava(Attribute::Member, Value::Refer(*m));
    }
    e
}

fn oauth2_client(u: Uuid, name: &str) -> Entry<EntryInit, EntryNew> {
    entry_init!(
        (Attribute::Class, EntryClass::Object.to_value()),
        (Attribute::Class, EntryClass::Account.to_value()),
        (Attribute::Class, EntryClass::OAuth2ResourceServer.to_value()),
        (Attribute::Class, EntryClass::OAuth2ResourceServerPublic.to_value()),
        (Attribute::Name, Value::new_iname(name)),
        (Attribute::Uuid, Value::Uuid(u)),
        (Attribute::DisplayName, Value::new_utf8s(name)),
        (Attribute::OAuth2RsOriginLanding, Value::new_url_s("https://rs.example.com/").expect("url")),
        (Attribute::OAuth2RsOrigin, Value::new_url_s("https://rs.example.com/cb").expect("url"))
    )
}

fn sset(v: &[&str]) -> BTreeSet<String> {
    v.iter().map(|s| s.to_string()).collect()
}

pub fn dyn_filter_json(pat: &str) -> String {
    // members: persons whose name contains `pat`; "g:<pat>" selects groups instead (a dynamic
    // group over groups, whose nested members inherit it; the patterns used never match a
    // dynamic group's own name)
    let (class, pat) = match pat.strip_prefix("g:") {
        Some(p) => ("group", p),
        None => ("person", pat),
    };
    serde_json::to_string(&ProtoFilter::And(vec![
        ProtoFilter::Eq("class".into(), class.into()),
        ProtoFilter::Cnt("name".into(), pat.into()),
    ]))
    .expect("json")
}

fn dyngroup(u: Uuid, name: &str, pat: &str) -> Option<Entry<EntryInit, EntryNew>> {
    let f = Value::new_json_filter_s(&dyn_filter_json(pat))?;
    Some(entry_init!(
        (Attribute::Class, EntryClass::Object.to_value()),
        (Attribute::Class, EntryClass::Group.to_value()),
        (Attribute::Class, EntryClass::DynGroup.to_value()),
        (Attribute::Name, Value::new_iname(name)),
        (Attribute::Uuid, Value::Uuid(u)),
        (Attribute::DynGroupFilter, f.clone())
    ))
}

impl Cluster {
    pub fn new(cfg: Cfg, seed: u64, enabled: &[&'static str]) -> Result<Cluster, String> {
        let scratch = if cfg.file_backed { Some(Scratch::new(&format!("cl-{seed:x}"))) } else { None };
        let mut c = Cluster {
            cfg: cfg.clone(),
            seed,
            t: 0,
            nodes: vec![],
            _scratch: scratch,
            last_cid: BTreeMap::new(),
            tombstoned: BTreeMap::new(),
            recycled_ever: BTreeSet::new(),
            revived_ever: BTreeSet::new(),
            baseline_system: BTreeSet::new(),
            aborted: false,
            periodic_purge: {
                // per node: a server whose interval tasks run, next to one whose tasks do not
                // (stopped, or simply not due) is the asymmetric case a lagging replica meets
                let mut p = Rng::stream(seed, "periodic-purge");
                (0..cfg.nodes).map(|_| cfg.focus == "lag" && p.chance(1, 2)).collect()
            },
            out: Outcome::default(),
            step: 0,
            kinds: vec![],
            enabled: enabled.iter().copied().collect(),
            after: "boot",
        };
        for n in 0..cfg.nodes {
            c.set_entropy(0xb007_0000 + n as u64);
            let path = c._scratch.as_ref().map(|s| s.path().join(format!("n{n}.db")));
            let ncfg = NodeCfg { path: path.clone(), pool: 4, arc: cfg.arc, level: DOMAIN_TGT_LEVEL };
            let qs = boot_qs(&ncfg, c.ct(n)).map_err(|e| format!("boot node {n}: {e:?}"))?;
            c.nodes.push(SimNode { qs: Some(qs), path, skew: 0, links: BTreeMap::new(), seen_ts: BTreeSet::new(), last_dump_digest: 0, last_entries: BTreeMap::new(), prev_entries: BTreeMap::new(), active: BTreeSet::new() });
            c.t += 1;
            if n > 0 {
                let r = c.refresh(n, 0);
                if r != PullResult::Refreshed {
                    return Err(format!("initial refresh of node {n} failed: {r:?}"));
                }
            }
        }
        // fresh-install baseline of the reserved range
        {
            let qs = c.nodes[0].qs.as_ref().ok_or("node0")?;
            let mut r = block(qs.read()).map_err(|e| format!("{e:?}"))?;
            let snap = Snap::take(&mut r).map_err(|e| format!("{e:?}"))?;
            for e in &snap.entries {
                c.baseline_system.insert(e.get_uuid());
            }
        }
        crate::entropy::swap_stream(None);
        Ok(c)
    }

    fn set_entropy(&self, id: u64) {
        crate::entropy::swap_stream(Some(Rng::new(self.seed ^ id.wrapping_mul(0x9E37_79B9_7F4A_7C15))));
    }

    pub fn ct(&self, n: usize) -> Duration {
        let skew = self.nodes.get(n).map(|x| x.skew).unwrap_or(0);
        let base = (BASE_EPOCH + self.t) as i64 + skew;
        Duration::from_secs(base.max(1) as u64)
    }

    fn up(&self, n: usize) -> bool {
        self.nodes.get(n).map(|x| x.qs.is_some()).unwrap_or(false)
    }

    fn viol(&mut self, f: oracles::Finding) {
        let sig = format!("{}; after={}", f.signature, self.after);
        if self.out.violations.iter().any(|v| v.property == f.property && v.oracle == f.oracle && v.signature == sig) {
            return;
        }
        if self.out.violations.len() < 12 {
            let step = self.step;
            self.out.violate(f.property, f.oracle, &sig, format!("[after {}] {}", self.after, f.summary), step);
        }
    }

    /// Run `f` in a write transaction on node n at the node's current time; commit on Ok.
    fn write_op<R>(
        &mut self,
        n: usize,
        f: impl FnOnce(&mut QueryServerWriteTransaction<'_>) -> Result<R, OperationError>,
    ) -> Result<R, OperationError> {
        let ct = self.ct(n);
        let qs = self.nodes[n].qs.clone().ok_or(OperationError::InvalidState)?;
        let mut txn = block(qs.write(ct))?;
        let r = f(&mut txn)?;
        let (ts, s_uuid) = vh::write_txn_cid(&txn);
        txn.commit()?;
        // C07: strictly increasing per server uuid, in commit order, across incarnations.
        if let Some(prev) = self.last_cid.get(&s_uuid).cloned() {
            let prev = &prev;
            if ts <= *prev {
                self.viol(oracles::Finding {
                    property: "C07",
                    oracle: "cid-monotonic",
                    signature: "committed cid not greater than an earlier one".into(),
                    summary: format!("server {s_uuid} committed change time {ts:?} after having committed {prev:?} (ct given {ct:?})"),
                });
            }
            if ct <= *prev {
                self.out.probe("write with clock at or behind newest cid");
            }
        }
        self.last_cid.insert(s_uuid, ts);
        Ok(r)
    }

    /// Step invariants on node n.
    fn check_node(&mut self, n: usize) {
        let Some(qs) = self.nodes[n].qs.clone() else { return };
        let Ok(mut r) = block(qs.read()) else { return };
        let Ok(snap) = Snap::take(&mut r) else { return };
        let schema = r.get_schema();
        let mut fs: Vec<oracles::Finding> = vec![];
        if self.enabled.contains("C03") {
            for e in vh::verify_read(&mut r).into_iter().flatten_err() {
                // C03 is about indexes and lookup tables: only the index-related results of the
                // server's own check belong to it.
                if !matches!(e, ConsistencyError::BackendIndexSync | ConsistencyError::BackendAllIdsSync | ConsistencyError::UuidIndexCorrupt(_) | ConsistencyError::EntryUuidCorrupt(_)) {
                    self.out.probe("verify(): non-index consistency report");
                    continue;
                }
                fs.push(oracles::Finding { property: "C03", oracle: "server-verify", signature: format!("{e:?}").chars().take(40).collect(), summary: format!("node {n}: verify() reports {e:?}") });
            }
            fs.extend(crate::mirror::check(&mut r, &snap, n));
        }
        if self.enabled.contains("C15") {
            fs.extend(oracles::schema_conformance(&snap, schema));
        }
        if self.enabled.contains("C16") {
            fs.extend(oracles::refint(&snap, schema));
        }
        if self.enabled.contains("C17") {
            fs.extend(oracles::memberof(&snap));
        }
        if self.enabled.contains("C18") {
            let (f, k) = oracles::dyngroups(&snap, schema);
            fs.extend(f);
            if k > 0 {
                self.out.probe("dyngroup evaluated");
            }
        }
        if self.enabled.contains("C19") {
            fs.extend(oracles::unique(&snap, schema));
        }
        if self.enabled.contains("C22") {
            fs.extend(oracles::spn(&snap));
        }
        // C09 (step form): a node that has held u as a tombstone never holds it live again.
        let mut now_ts = vec![];
        for (u, st) in &snap.state {
            match st {
                EState::Tombstone => now_ts.push(*u),
                EState::Recycled => {
                    self.recycled_ever.insert(*u);
                }
                _ => {}
            }
        }
        if self.enabled.contains("C09") {
            for u in &self.nodes[n].seen_ts {
                if matches!(snap.state.get(u), Some(EState::Live) | Some(EState::Recycled)) {
                    fs.push(oracles::Finding {
                        property: "C09",
                        oracle: "tombstone-resurrected-on-node",
                        signature: "node held tombstone, now live".into(),
                        summary: format!("node {n} held {u} as a tombstone and now holds it as {:?}", snap.state.get(u)),
                    });
                }
            }
        }
        // C20 monitor: nothing new in the reserved range, builtins still there
        if self.enabled.contains("C20") {
            for e in &snap.entries {
                let u = e.get_uuid();
                if u < DYNAMIC_RANGE_MINIMUM_UUID && !self.baseline_system.contains(&u) {
                    fs.push(oracles::Finding { property: "C20", oracle: "reserved-range-entry", signature: "new entry in reserved range".into(), summary: format!("node {n}: entry {u} exists in the reserved range but is not part of a fresh install") });
                }
            }
        }
        for u in now_ts {
            self.nodes[n].seen_ts.insert(u);
            self.tombstoned.entry(u).or_default().insert(n);
        }
        drop(r);
        // state digest
        let mut h = 0u64;
        let mut per: BTreeMap<Uuid, String> = BTreeMap::new();
        for e in &snap.entries {
            per.insert(e.get_uuid(), crate::dump::entry_json_masked(e).to_string());
        }
        for js in per.values() {
            h = h.rotate_left(5) ^ fnv64(js.as_bytes());
        }
        self.nodes[n].last_dump_digest = h;
        self.nodes[n].prev_entries = std::mem::replace(&mut self.nodes[n].last_entries, per);
        self.out.states.push(h);
        self.out.chain(h);
        // Report a finding only at the step where it first appears on this node: a stale state
        // that persists is one violation, attributed to the event that produced it.
        let keys: BTreeSet<String> = fs.iter().map(|f| format!("{}|{}|{}", f.property, f.oracle, f.summary)).collect();
        let prev = std::mem::replace(&mut self.nodes[n].active, keys);
        for f in fs {
            let k = format!("{}|{}|{}", f.property, f.oracle, f.summary);
            if !prev.contains(&k) {
                self.viol(f);
            }
        }
    }

    fn refresh(&mut self, c: usize, s: usize) -> PullResult {
        if !self.up(c) || !self.up(s) || c == s {
            return PullResult::Skipped;
        }
        let sq = self.nodes[s].qs.clone().expect("up");
        let ctx: Result<ReplRefreshContext, OperationError> = (|| {
            let mut r = block(sq.read())?;
            r.supplier_provide_refresh()
        })();
        let Ok(ctx) = ctx else { return PullResult::Error };
        // across the wire
        let wire = serde_json::to_string(&ctx).expect("json");
        let ctx: ReplRefreshContext = serde_json::from_str(&wire).expect("json");
        let r = self.write_op(c, |w| w.consumer_apply_refresh(ctx));
        match r {
            Ok(()) => {
                self.nodes[c].seen_ts.clear();
                self.nodes[c].links.clear();
                for holders in self.tombstoned.values_mut() {
                    holders.remove(&c);
                }
                self.tombstoned.retain(|_, h| !h.is_empty());
                self.out.probe("refresh applied");
                PullResult::Refreshed
            }
            Err(_) => PullResult::Error,
        }
    }

    fn repl_begin(&mut self, c: usize, s: usize) -> bool {
        if !self.up(c) || c == s || s >= self.nodes.len() {
            return false;
        }
        let cq = self.nodes[c].qs.clone().expect("up");
        let st: Result<ReplRuvRange, OperationError> = (|| {
            let mut r = block(cq.read())?;
            r.consumer_get_state()
        })();
        let now = self.t;
        match st {
            Ok(rr) => {
                let l = self.nodes[c].links.entry(s).or_default();
                l.request = Some(serde_json::to_string(&rr).expect("json"));
                l.request_at = now;
                true
            }
            Err(_) => false,
        }
    }

    fn repl_supply(&mut self, c: usize, s: usize) -> bool {
        if !self.up(s) || c == s || c >= self.nodes.len() {
            return false;
        }
        let now = self.t;
        let Some((req, req_at)) = self.nodes[c].links.get_mut(&s).and_then(|l| l.request.take().map(|r| (r, l.request_at))) else { return false };
        if now.saturating_sub(req_at) > LINK_TIMEOUT_S {
            self.out.fault("link_timeout");
            return false;
        }
        let rr: ReplRuvRange = serde_json::from_str(&req).expect("json");
        let sq = self.nodes[s].qs.clone().expect("up");
        let mut monitor: Option<oracles::Finding> = None;
        let enabled_c10 = self.enabled.contains("C10");
        let resp: Result<ReplIncrementalContext, OperationError> = (|| {
            let mut r = block(sq.read())?;
            let sup_ranges = if enabled_c10 { vh::ruv_ranges(&mut r).ok() } else { None };
            let trim_ts = vh::read_txn_trim_ts(&r);
            let ReplRuvRange::V1 { domain_uuid, ranges } = &rr;
            let cons: BTreeMap<Uuid, (Duration, Duration)> = ranges.iter().map(|(k, v)| (*k, (v.ts_min, v.ts_max))).collect();
            let same_domain = *domain_uuid == r.get_domain_uuid();
            let rr2: ReplRuvRange = serde_json::from_str(&req).expect("json");
            let reply = r.supplier_provide_changes(rr2)?;
            if let Some(sup) = sup_ranges {
                monitor = crate::rangeoracle::check(&cons, &sup, trim_ts, same_domain, &reply);
            }
            Ok(reply)
        })();
        if let Some(f) = monitor {
            self.viol(f);
        }
        match resp {
            Ok(ctx) => {
                match &ctx {
                    ReplIncrementalContext::RefreshRequired => self.out.probe("supplier demanded refresh"),
                    ReplIncrementalContext::UnwillingToSupply => self.out.probe("supplier unwilling (consumer ahead)"),
                    ReplIncrementalContext::NoChangesAvailable => self.out.probe("supplier: no changes"),
                    ReplIncrementalContext::DomainMismatch => self.out.probe("supplier: domain mismatch"),
                    ReplIncrementalContext::V1 { .. } => self.out.probe("supplier supplied changes"),
                }
                let l = self.nodes[c].links.entry(s).or_default();
                l.response = Some(serde_json::to_string(&ctx).expect("json"));
                l.response_at = now;
                true
            }
            Err(_) => false,
        }
    }

    fn repl_apply(&mut self, c: usize, s: usize, dup: bool) -> PullResult {
        if !self.up(c) || c == s {
            return PullResult::Skipped;
        }
        let now = self.t;
        let Some(l) = self.nodes[c].links.get_mut(&s) else { return PullResult::Skipped };
        if l.response.is_some() && now.saturating_sub(l.response_at) > LINK_TIMEOUT_S {
            l.response = None;
            self.out.fault("link_timeout");
            return PullResult::Skipped;
        }
        let Some(resp) = (if dup { l.response.clone() } else { l.response.take() }) else { return PullResult::Skipped };
        if dup {
            self.out.fault("msg_dup");
        }
        let ctx: ReplIncrementalContext = serde_json::from_str(&resp).expect("json");
        let kind = match &ctx {
            ReplIncrementalContext::V1 { .. } => PullResult::Applied,
            ReplIncrementalContext::NoChangesAvailable => PullResult::NoChanges,
            ReplIncrementalContext::RefreshRequired => PullResult::RefreshRequired,
            ReplIncrementalContext::UnwillingToSupply => PullResult::Unwilling,
            ReplIncrementalContext::DomainMismatch => PullResult::Error,
        };
        let r = self.write_op(c, |w| w.consumer_apply_changes(ctx));
        match r {
            Ok(ConsumerState::Ok) => kind,
            Ok(ConsumerState::RefreshRequired) => PullResult::RefreshRequired,
            Err(e) => {
                self.out.probe(&format!("apply error {e:?}"));
                PullResult::Error
            }
        }
    }

    fn pull(&mut self, c: usize, s: usize) -> PullResult {
        if !self.repl_begin(c, s) {
            return PullResult::Skipped;
        }
        if !self.repl_supply(c, s) {
            return PullResult::Skipped;
        }
        let r = self.repl_apply(c, s, false);
        if r == PullResult::RefreshRequired && self.cfg.auto_refresh {
            self.out.probe("refresh forced by lag");
            return self.refresh(c, s);
        }
        r
    }

    fn restart(&mut self, n: usize) -> bool {
        let Some(path) = self.nodes[n].path.clone() else { return false };
        // does a uuid belong to more than one stored entry (a conflict entry and an entry created
        // again with its uuid)? kanidm accepts that create and then refuses to start (see DESIGN
        // §10.3, observations); such a node simply stays down for the rest of the run.
        let shared_uuid = self.nodes[n]
            .qs
            .as_ref()
            .and_then(|qs| block(qs.read()).ok())
            .and_then(|mut r| Snap::take(&mut r).ok())
            .map(|s| {
                let mut seen = BTreeSet::new();
                s.entries.iter().any(|e| !seen.insert(e.get_uuid()))
            })
            .unwrap_or(false);
        self.nodes[n].qs = None;
        self.nodes[n].links.clear();
        let ncfg = NodeCfg { path: Some(path), pool: 4, arc: self.cfg.arc, level: DOMAIN_TGT_LEVEL };
        match boot_qs(&ncfg, self.ct(n)) {
            Ok(qs) => {
                self.nodes[n].qs = Some(qs);
                true
            }
            Err(e) if shared_uuid && format!("{e:?}").contains("CorruptedEntry") => {
                self.out.probe("restart refused (CorruptedEntry): a uuid is carried by a conflict entry and by an entry created again");
                self.aborted = true;
                false
            }
            Err(e) => {
                self.out.harness_error = Some(format!("restart of node {n} failed: {e:?}"));
                false
            }
        }
    }

    /// Execute one event; returns a short result string (part of the trace digest).
    pub fn apply(&mut self, id: u64, op: &Op) -> String {
        self.set_entropy(id);
        self.out.events_run += 1;
        if self.cfg.tick {
            self.t += 1;
            self.out.sim_secs += 1.0;
        }
        self.after = match op {
            Op::ReplApply { .. } | Op::Pull { .. } => "repl-apply",
            Op::Refresh { .. } => "refresh",
            Op::PurgeRecycled { .. } | Op::PurgeTombstones { .. } => "purge",
            Op::Crash { .. } => "restart",
            Op::Reindex { .. } => "reindex",
            Op::Delete { .. } => "delete",
            Op::Revive { .. } => "revive",
            Op::DomainRename { .. } => "domain-rename",
            _ => "local-write",
        };
        let nn = self.nodes.len();
        let res: Result<(Option<usize>, String), OperationError> = match op.clone() {
            Op::CreatePerson { n, u, name } if n < nn && self.up(n) => self.write_op(n, |w| w.internal_create(vec![person(u, &name)])).map(|_| (Some(n), "ok".into())),
            Op::CreateGroup { n, u, name, members } if n < nn && self.up(n) => self.write_op(n, |w| w.internal_create(vec![group(u, &name, &members)])).map(|_| (Some(n), "ok".into())),
            Op::CreateDyn { n, u, name, pat } if n < nn && self.up(n) => match dyngroup(u, &name, &pat) {
                Some(e) => self.write_op(n, |w| w.internal_create(vec![e])).map(|_| (Some(n), "ok".into())),
                None => Ok((None, "badfilter".into())),
            },
            Op::SetDynFilter { n, u, pat } if n < nn && self.up(n) => match Value::new_json_filter_s(&dyn_filter_json(&pat)) {
                Some(v) => self.write_op(n, |w| w.internal_modify_uuid(u, &ModifyList::new_purge_and_set(Attribute::DynGroupFilter, v))).map(|_| (Some(n), "ok".into())),
                None => Ok((None, "badfilter".into())),
            },
            Op::Rename { n, u, name } if n < nn && self.up(n) => self.write_op(n, |w| w.internal_modify_uuid(u, &ModifyList::new_purge_and_set(Attribute::Name, Value::new_iname(&name)))).map(|_| (Some(n), "ok".into())),
            Op::SetDesc { n, u, v } if n < nn && self.up(n) => self.write_op(n, |w| w.internal_modify_uuid(u, &ModifyList::new_purge_and_set(Attribute::Description, Value::new_utf8s(&v)))).map(|_| (Some(n), "ok".into())),
            Op::SetDisplay { n, u, v } if n < nn && self.up(n) => self.write_op(n, |w| w.internal_modify_uuid(u, &ModifyList::new_purge_and_set(Attribute::DisplayName, Value::new_utf8s(&v)))).map(|_| (Some(n), "ok".into())),
            Op::AddMember { n, g, m } if n < nn && self.up(n) => self.write_op(n, |w| w.internal_modify_uuid(g, &ModifyList::new_append(Attribute::Member, Value::Refer(m)))).map(|_| (Some(n), "ok".into())),
            Op::RemMember { n, g, m } if n < nn && self.up(n) => self.write_op(n, |w| w.internal_modify_uuid(g, &ModifyList::new_remove(Attribute::Member, PartialValue::Refer(m)))).map(|_| (Some(n), "ok".into())),
            Op::SetManager { n, u, mgr } if n < nn && self.up(n) => self.write_op(n, |w| w.internal_modify_uuid(u, &ModifyList::new_purge_and_set(Attribute::EntryManagedBy, Value::Refer(mgr)))).map(|_| (Some(n), "ok".into())),
            Op::Partition { heal, .. } => {
                self.out.fault(if heal { "partition_heal" } else { "partition" });
                Ok((None, "ok".into()))
            }
            Op::SetMail { n, u, mails } if n < nn && self.up(n) => {
                let mut ml = vec![Modify::Purged(Attribute::Mail)];
                for (i, m) in mails.iter().enumerate() {
                    ml.push(Modify::Present(Attribute::Mail, Value::EmailAddress(m.clone(), i == 0)));
                }
                self.write_op(n, |w| w.internal_modify_uuid(u, &ModifyList::new_list(ml))).map(|_| (Some(n), "ok".into()))
            }
            Op::CreateOauth2 { n, u, name } if n < nn && self.up(n) => self.write_op(n, |w| w.internal_create(vec![oauth2_client(u, &name)])).map(|_| (Some(n), "ok".into())),
            Op::ScopeMap { n, rs, g, del } if n < nn && self.up(n) => {
                let ml = if del {
                    ModifyList::new_remove(Attribute::OAuth2RsScopeMap, PartialValue::Refer(g))
                } else {
                    ModifyList::new_append(Attribute::OAuth2RsScopeMap, Value::new_oauthscopemap(g, sset(&["read"])).expect("scopemap"))
                };
                self.write_op(n, |w| w.internal_modify_uuid(rs, &ml)).map(|_| (Some(n), "ok".into()))
            }
            Op::ClaimMap { n, rs, claim, g, del } if n < nn && self.up(n) => {
                let ml = if del {
                    ModifyList::new_remove(Attribute::OAuth2RsClaimMap, PartialValue::OauthClaim(claim.clone(), g))
                } else {
                    ModifyList::new_append(Attribute::OAuth2RsClaimMap, Value::new_oauthclaimmap(claim.clone(), g, sset(&["v"])).expect("claimmap"))
                };
                self.write_op(n, |w| w.internal_modify_uuid(rs, &ml)).map(|_| (Some(n), "ok".into()))
            }
            Op::Delete { n, u } if n < nn && self.up(n) => self.write_op(n, |w| w.internal_delete_uuid(u)).map(|_| (Some(n), "ok".into())),
            Op::Revive { n, u } if n < nn && self.up(n) => {
                let r = self.write_op(n, |w| {
                    let was = w.internal_search(filter_rec!(f_eq(Attribute::Uuid, PartialValue::Uuid(u))))?.len();
                    vh::internal_revive_uuid(w, u)?;
                    Ok(was)
                });
                if let Ok(was) = &r {
                    if *was > 0 {
                        self.revived_ever.insert(u);
                    }
                }
                r.map(|_| (Some(n), "ok".into()))
            }
            Op::DomainRename { n, name } if n < nn && self.up(n) => self.write_op(n, |w| w.danger_domain_rename(&name)).map(|_| (Some(n), "ok".into())),
            Op::PurgeRecycled { n } if n < nn && self.up(n) => self.write_op(n, |w| w.purge_recycled()).map(|k| {
                if k > 0 {
                    self.out.probe("purge_recycled tombstoned something");
                }
                (Some(n), format!("ok{k}"))
            }),
            Op::PurgeTombstones { n } if n < nn && self.up(n) => self.write_op(n, |w| w.purge_tombstones()).map(|k| {
                if k > 0 {
                    self.out.probe("purge_tombstones reaped something");
                }
                (Some(n), format!("ok{k}"))
            }),
            Op::Reindex { n } if n < nn && self.up(n) => self.write_op(n, |w| w.reindex(false)).map(|_| (Some(n), "ok".into())),
            Op::Advance { secs } => {
                self.t += secs;
                self.out.sim_secs += secs as f64;
                if secs >= 600 && self.periodic_purge.iter().any(|p| *p) {
                    self.after = "purge";
                    for n in 0..nn {
                        if !self.up(n) || !self.periodic_purge.get(n).copied().unwrap_or(false) {
                            continue;
                        }
                        for _cycle in 0..2 {
                            self.t += 1;
                            let _ = self.write_op(n, |w| w.purge_recycled());
                            let _ = self.write_op(n, |w| w.purge_tombstones());
                            self.out.probe("interval purge cycle");
                        }
                        self.check_node(n);
                    }
                }
                Ok((None, "ok".into()))
            }
            Op::Skew { n, secs } if n < nn => {
                self.nodes[n].skew = secs;
                self.out.fault(if secs < 0 { "clock_skew_back" } else { "clock_skew_fwd" });
                Ok((None, "ok".into()))
            }
            Op::ReplBegin { c, s } if c < nn && s < nn => Ok((None, format!("{}", self.repl_begin(c, s)))),
            Op::ReplSupply { c, s } if c < nn && s < nn => Ok((None, format!("{}", self.repl_supply(c, s)))),
            Op::ReplApply { c, s, dup } if c < nn && s < nn => {
                // stale ranges probe: the consumer wrote since it read its ranges?
                let r = self.repl_apply(c, s, dup);
                let r = if r == PullResult::RefreshRequired && self.cfg.auto_refresh {
                    self.out.probe("refresh forced by lag");
                    self.refresh(c, s)
                } else {
                    r
                };
                Ok((if matches!(r, PullResult::Skipped) { None } else { Some(c) }, format!("{r:?}")))
            }
            Op::ReplDrop { c, s } if c < nn && s < nn => {
                if let Some(l) = self.nodes[c].links.get_mut(&s) {
                    if l.request.is_some() || l.response.is_some() {
                        self.out.fault("msg_drop");
                    }
                    l.request = None;
                    l.response = None;
                }
                Ok((None, "ok".into()))
            }
            Op::Pull { c, s } if c < nn && s < nn => {
                let r = self.pull(c, s);
                Ok((if matches!(r, PullResult::Skipped) { None } else { Some(c) }, format!("{r:?}")))
            }
            Op::Refresh { c, s } if c < nn && s < nn => {
                let r = self.refresh(c, s);
                Ok((if matches!(r, PullResult::Refreshed) { Some(c) } else { None }, format!("{r:?}")))
            }
            Op::Crash { n } if n < nn && self.up(n) && self.nodes[n].path.is_some() => {
                self.out.fault("crash_restart");
                let ok = self.restart(n);
                Ok((if ok { Some(n) } else { None }, format!("{ok}")))
            }
            Op::Abandon { n, u, name } if n < nn && self.up(n) => {
                let ct = self.ct(n);
                let qs = self.nodes[n].qs.clone().expect("up");
                let r = (|| -> Result<(), OperationError> {
                    let mut txn = block(qs.write(ct))?;
                    txn.internal_create(vec![person(u, &name)])?;
                    drop(txn);
                    Ok(())
                })();
                self.out.fault("txn_abandon");
                Ok((Some(n), format!("abandon:{}", r.is_ok())))
            }
            Op::BadCreate { n, kind, u, name } if n < nn && self.up(n) => {
                let r = self.bad_create(n, kind, u, &name);
                Ok((Some(n), r))
            }
            Op::BadModify { n, kind, u } if n < nn && self.up(n) => {
                let r = self.bad_modify(n, kind, u);
                Ok((Some(n), r))
            }
            _ => Ok((None, "skip".into())),
        };
        let (touched, rs) = match res {
            Ok((t, s)) => (t, s),
            Err(e) => {
                let n = op_node(op);
                (n, format!("err:{e:?}"))
            }
        };
        if rs == "ok" {
            match op {
                Op::SetMail { mails, .. } if mails.len() > 1 => self.out.probe("several mail values set on one entry"),
                Op::CreateOauth2 { .. } => self.out.probe("oauth2 client created"),
                Op::ScopeMap { del: false, .. } => self.out.probe("oauth2 scope map set"),
                Op::ClaimMap { del: false, .. } => self.out.probe("oauth2 claim map set"),
                _ => {}
            }
        }
        self.out.chain(fnv64(rs.as_bytes()));
        self.kinds.push(fnv64(op.kind().as_bytes()) ^ fnv64(rs.split(':').next().unwrap_or("").as_bytes()));
        if let Some(n) = touched {
            if n < nn && self.up(n) {
                self.check_node(n);
            }
        }
        rs
    }

    fn entries_diff(&self, n: usize) -> String {
        let (a, b) = (&self.nodes[n].prev_entries, &self.nodes[n].last_entries);
        for (u, ja) in a {
            match b.get(u) {
                None => return format!("{u} disappeared"),
                Some(jb) if ja != jb => {
                    let (va, vb): (J, J) = (serde_json::from_str(ja).unwrap_or(J::Null), serde_json::from_str(jb).unwrap_or(J::Null));
                    return format!("{u} changed: {}", crate::dump::json_diff(&va, &vb));
                }
                _ => {}
            }
        }
        for u in b.keys() {
            if !a.contains_key(u) {
                return format!("{u} appeared");
            }
        }
        "no entry differs".into()
    }

    /// Requests that must be refused (C15/C20): the database must be unchanged afterwards.
    fn bad_create(&mut self, n: usize, kind: u8, u: Uuid, name: &str) -> String {
        let before = self.nodes[n].last_dump_digest;
        let e: Entry<EntryInit, EntryNew> = match kind % 5 {
            0 => entry_init!(
                // person without displayname (missing MUST)
                (Attribute::Class, EntryClass::Object.to_value()),
                (Attribute::Class, EntryClass::Account.to_value()),
                (Attribute::Class, EntryClass::Person.to_value()),
                (Attribute::Name, Value::new_iname(name)),
                (Attribute::Uuid, Value::Uuid(u))
            ),
            1 => entry_init!(
                // ill-typed: name holds a utf8 string with spaces/upper-case via wrong syntax
                (Attribute::Class, EntryClass::Object.to_value()),
                (Attribute::Class, EntryClass::Group.to_value()),
                (Attribute::Name, Value::new_utf8s(name)),
                (Attribute::Uuid, Value::Uuid(u))
            ),
            2 => entry_init!(
                // attribute not allowed by the classes
                (Attribute::Class, EntryClass::Object.to_value()),
                (Attribute::Class, EntryClass::Group.to_value()),
                (Attribute::Name, Value::new_iname(name)),
                (Attribute::Uuid, Value::Uuid(u)),
                (Attribute::DisplayName, Value::new_utf8s(name)),
                (Attribute::LegalName, Value::new_utf8s(name))
            ),
            3 => entry_init!(
                // unknown class
                (Attribute::Class, EntryClass::Object.to_value()),
                (Attribute::Class, Value::new_iutf8("no_such_class")),
                (Attribute::Name, Value::new_iname(name)),
                (Attribute::Uuid, Value::Uuid(u))
            ),
            _ => {
                // two names on a single-valued attribute
                let mut e = group(u, name, &[]);
                e.add_ava(Attribute::Name, Value::new_iname(&format!("{name}x")));
                e
            }
        };
        let r = self.write_op(n, |w| w.internal_create(vec![e]));
        self.check_node(n);
        match r {
            Ok(()) => {
                // Accepted: conformance oracle (C15) decides whether what was stored is valid.
                self.out.probe("adversarial create accepted");
                "accepted".into()
            }
            Err(_) => {
                if self.nodes[n].last_dump_digest != before && before != 0 {
                    self.viol(oracles::Finding { property: "C15", oracle: "rejected-op-left-trace", signature: "bad create".into(), summary: format!("node {n}: refused create (kind {kind}) changed the database: {}", self.entries_diff(n)) });
                }
                self.out.probe("adversarial create refused");
                "refused".into()
            }
        }
    }

    fn bad_modify(&mut self, n: usize, kind: u8, u: Uuid) -> String {
        let before = self.nodes[n].last_dump_digest;
        let ml = match kind % 4 {
            0 => ModifyList::new_list(vec![Modify::Purged(Attribute::Name)]),
            1 => ModifyList::new_append(Attribute::Name, Value::new_iname("second_name")),
            2 => ModifyList::new_append(Attribute::LegalName, Value::new_utf8s("x")),
            _ => ModifyList::new_append(Attribute::Class, Value::new_iutf8("no_such_class")),
        };
        let r = self.write_op(n, |w| w.internal_modify_uuid(u, &ml));
        self.check_node(n);
        match r {
            Ok(()) => {
                self.out.probe("adversarial modify accepted");
                "accepted".into()
            }
            Err(_) => {
                if self.nodes[n].last_dump_digest != before && before != 0 {
                    self.viol(oracles::Finding { property: "C15", oracle: "rejected-op-left-trace", signature: "bad modify".into(), summary: format!("node {n}: refused modify (kind {kind}) changed the database: {}", self.entries_diff(n)) });
                }
                self.out.probe("adversarial modify refused");
                "refused".into()
            }
        }
    }

    /// After the last fault: bring everything up and replicate full-mesh until nothing changes.
    pub fn quiesce(&mut self) {
        let nn = self.nodes.len();
        self.step += 1;
        self.after = "quiesce";
        for n in 0..nn {
            self.nodes[n].skew = 0;
            if !self.up(n) {
                self.restart(n);
            }
            for l in self.nodes[n].links.values_mut() {
                l.request = None;
                l.response = None;
            }
        }
        if nn < 2 {
            return;
        }
        let budget = 2 * nn + 4;
        let mut settled = false;
        let mut stuck: Vec<String> = vec![];
        for _round in 0..budget {
            let mut changed = false;
            stuck.clear();
            for c in 0..nn {
                for s in 0..nn {
                    if c == s {
                        continue;
                    }
                    self.t += 1;
                    self.set_entropy(0x9_0000 + (self.t << 8) + (c * 4 + s) as u64);
                    let saved = self.cfg.auto_refresh;
                    self.cfg.auto_refresh = true;
                    let r = self.pull(c, s);
                    self.cfg.auto_refresh = saved;
                    match r {
                        PullResult::Applied | PullResult::Refreshed => {
                            changed = true;
                            self.check_node(c);
                        }
                        PullResult::NoChanges => {}
                        PullResult::Unwilling => {
                            // The supplier reports that *it* is behind this consumer. The
                            // documented remedy is an administrator refreshing the lagging
                            // server, which is what the simulated administrator does here.
                            // "Unwilling" covers three different verdicts (supplier behind, both
                            // behind, no common server); which side an administrator must refresh
                            // is a human decision, so the simulator does not take it.
                            stuck.push(format!("{c}<-{s}:Unwilling"));
                        }
                        other => stuck.push(format!("{c}<-{s}:{other:?}")),
                    }
                }
            }
            if !changed {
                settled = true;
                break;
            }
        }
        self.out.probe(if settled { "quiescence reached" } else { "quiescence NOT reached" });
        if !stuck.is_empty() {
            self.out.probe("quiescence with a refusing link");
        }
        let mut dumps = vec![];
        for n in 0..nn {
            let qs = self.nodes[n].qs.clone();
            // `last_modified_cid` / `created_at_cid` record when *this replica* stored the entry
            // (kanidm applies them locally on every replica); they are not replicated values.
            let d = qs.and_then(|qs| block(qs.read()).ok().and_then(|mut r| Dump::take(&mut r).ok())).map(|d| d.without_attrs(&["last_modified_cid", "created_at_cid"]));
            dumps.push(d);
        }
        if self.enabled.contains("C08") {
            if !settled {
                self.viol(oracles::Finding { property: "C08", oracle: "bounded-quiescence", signature: "replication still supplying changes".into(), summary: format!("after {budget} full-mesh rounds with no faults some link still supplies changes") });
            }
            if !stuck.is_empty() {
                self.viol(oracles::Finding { property: "C08", oracle: "link-refuses-at-quiescence", signature: stuck.iter().map(|s| s.split(':').nth(1).unwrap_or("")).collect::<BTreeSet<_>>().into_iter().collect::<Vec<_>>().join(","), summary: format!("links not in sync at quiescence: {stuck:?}") });
            }
            for a in 0..nn {
                for b in (a + 1)..nn {
                    if let (Some(da), Some(db)) = (&dumps[a], &dumps[b]) {
                        let (da, db) = (da.clone().live_and_conflict(), db.clone().live_and_conflict());
                        for d in da.diff_all(&db) {
                            let sig = diff_signature(&d);
                            self.viol(oracles::Finding { property: "C08", oracle: "replicas-differ", signature: sig, summary: format!("node {a} vs node {b} at quiescence: {d}") });
                        }
                    }
                }
            }
        }
        if self.enabled.contains("C09") && !stuck.is_empty() {
            // Some replica is refused and waits for an administrator: it legitimately still holds
            // what it held. The per-step form of the oracle (a node that applied a tombstone never
            // holds the entry live again) has been watching throughout.
            self.out.probe("C09 quiescence form skipped: a replica awaits an administrator");
        }
        if self.enabled.contains("C09") && stuck.is_empty() && settled {
            for (n, d) in dumps.iter().enumerate() {
                let Some(d) = d else { continue };
                let ts_all: Vec<Uuid> = self.tombstoned.keys().cloned().collect();
                for u in &ts_all {
                    if let Some((st, _)) = d.entries.get(u) {
                        if matches!(st, EState::Live | EState::Recycled) {
                            self.viol(oracles::Finding { property: "C09", oracle: "tombstone-resurrected", signature: "tombstoned somewhere, live at quiescence".into(), summary: format!("{u} became a tombstone on some replica but is {st:?} on node {n} at quiescence") });
                        }
                    }
                }
                for u in &self.recycled_ever {
                    if !self.revived_ever.contains(u) {
                        if let Some((EState::Live, _)) = d.entries.get(u) {
                            self.out.probe("recycled-never-revived entry live at quiescence");
                        }
                    }
                }
            }
        }
        for d in dumps.iter().flatten() {
            let h = d.digest_masked();
            self.out.chain(h);
        }
    }

    pub fn finish(mut self) -> Outcome {
        crate::entropy::swap_stream(None);
        // trigram signatures over event kinds (interleaving measure)
        let k = &self.kinds;
        for w in k.windows(3) {
            self.out.trigrams.push(w[0].rotate_left(7) ^ w[1].rotate_left(3) ^ w[2]);
        }
        self.out.trigrams.sort();
        self.out.trigrams.dedup();
        self.out.states.sort();
        self.out.states.dedup();
        self.out.nontrivial = self.out.events_run >= 3 && self.out.states.len() >= 2;
        self.out
    }
}

fn diff_signature(d: &str) -> String {
    // categorical: which part differs
    if d.contains("only on") {
        "entry present on one replica only".into()
    } else if d.contains(" state ") {
        "entry state differs".into()
    } else if let Some(i) = d.find("differs: ") {
        let rest = &d[i + 9..];
        let path: String = rest.split(' ').next().unwrap_or("").to_string();
        let state = if d.contains("(Conflict)") {
            "Conflict"
        } else if d.contains("(Recycled)") {
            "Recycled"
        } else if d.contains("(Tombstone)") {
            "Tombstone"
        } else {
            "Live"
        };
        let kind = if rest.contains("missing on") { "missing on one replica" } else { "value differs" };
        let what = if path.contains(".changestate") {
            "change state".to_string()
        } else if state == "Conflict" {
            "an attribute".to_string()
        } else {
            format!("attribute {}", path.trim_start_matches(".ent.V3.attrs.").split('.').next().unwrap_or(""))
        };
        format!("{state} entry: {what} {kind}")
    } else {
        "other".into()
    }
}

fn op_node(op: &Op) -> Option<usize> {
    let v = serde_json::to_value(op).ok()?;
    v.get("n").or_else(|| v.get("c")).and_then(|x| x.as_u64()).map(|x| x as usize)
}

trait FlattenErr<E> {
    fn flatten_err(self) -> Vec<E>;
}
impl<I, E> FlattenErr<E> for I
where
    I: Iterator<Item = Result<(), E>>,
{
    fn flatten_err(self) -> Vec<E> {
        self.filter_map(|r| r.err()).collect()
    }
}

// ------------------------------------------------------------------------------------------------
// Workload generation
// ------------------------------------------------------------------------------------------------

pub struct Weights {
    pub create: u32,
    pub rename: u32,
    pub attr: u32,
    pub member: u32,
    pub delete: u32,
    pub revive: u32,
    pub purge: u32,
    pub domain: u32,
    pub repl: u32,
    pub advance: u32,
    pub skew: u32,
    pub crash: u32,
    pub bad: u32,
    pub dynf: u32,
    pub reindex: u32,
    pub manager: u32,
    pub abandon: u32,
    /// mail values and OAuth2 clients with scope/claim maps (0 = the draw sequence of the other
    /// kinds is unchanged)
    pub extra: u32,
}

pub fn generate(property: &str, seed: u64, cfg: &Cfg, w: &Weights, n_events: usize, big_time: bool) -> Plan {
    let mut g = Rng::stream(seed, "workload");
    let nn = cfg.nodes;
    // "unique" runs draw from a tiny pool so that uuid and name clashes (in one request, across
    // transactions, across replicas, and several at once) are the norm rather than the exception
    let (n_names, n_ent): (usize, u64) = if cfg.focus == "unique" { (3, 3) } else { (6, 8) };
    let names: Vec<String> = (0..n_names).map(|i| format!("n{}{}", ["al", "bo", "cy", "di", "ed", "fy"][i], i)).collect();
    let persons: Vec<Uuid> = (0..n_ent).map(|i| uuid_for(1, i)).collect();
    let groups: Vec<Uuid> = (0..n_ent).map(|i| uuid_for(2, i)).collect();
    let dyns: Vec<Uuid> = (0..2).map(|i| uuid_for(3, i)).collect();
    let mut created: Vec<Uuid> = vec![];
    let mut created_groups: Vec<Uuid> = vec![];
    let mut deleted: Vec<Uuid> = vec![];
    let mut evs: Vec<J> = vec![];
    let weights = [w.create, w.rename, w.attr, w.member, w.delete, w.revive, w.purge, w.domain, w.repl, w.advance, w.skew, w.crash, w.bad, w.dynf, w.reindex, w.manager, w.abandon, w.extra];
    let clients: Vec<Uuid> = (0..2).map(|i| uuid_for(5, i)).collect();
    let mut created_clients: Vec<Uuid> = vec![];
    let anyof = |g: &mut Rng, a: &Vec<Uuid>, b: &Vec<Uuid>| -> Uuid {
        if !a.is_empty() && g.chance(4, 5) {
            *g.pick(a)
        } else {
            *g.pick(b)
        }
    };
    let all: Vec<Uuid> = persons.iter().chain(groups.iter()).cloned().collect();
    let mut id = 0u64;
    let mut fresh = 0u64;
    // "lag" runs: in half of them one node is partitioned from the others for a long stretch of
    // the run (drawn from its own stream so that the other draws are unchanged), then healed.
    let partition: Option<(usize, usize, usize)> = {
        let mut p = Rng::stream(seed, "partition");
        if cfg.focus == "lag" && nn >= 2 && p.chance(1, 2) {
            let from = (n_events as u64 * (10 + p.below(30)) / 100) as usize;
            let to = from + (n_events as u64 * (30 + p.below(40)) / 100) as usize;
            Some((p.below(nn as u64) as usize, from, to))
        } else {
            None
        }
    };
    let mut part_state = 0u8;
    // reference-heavy runs (C16): (holder, target) pairs as generated, used to aim deletes and
    // revives at entries on either end of a reference
    let ref_bias = w.extra >= 30;
    let mut refs: Vec<(Uuid, Uuid)> = vec![];
    while evs.len() < n_events {
        if let Some((x, from, to)) = partition {
            if (part_state == 0 && evs.len() >= from) || (part_state == 1 && evs.len() >= to) {
                id += 1;
                let mut v = serde_json::to_value(&Op::Partition { x, heal: part_state == 1 }).expect("json");
                v["id"] = json!(id);
                evs.push(v);
                part_state += 1;
            }
        }
        let n = g.below(nn as u64) as usize;
        let op = match g.pick_weighted(&weights) {
            0 => {
                // create; sometimes the same uuid / same name on another node (forced collisions)
                let k = g.below(10);
                if k < 5 {
                    // "lag" runs never create the same uuid twice: re-creating a uuid that was
                    // deleted elsewhere is a new create, not the resurrection C09 speaks of.
                    fresh += 1;
                    let u = if cfg.focus == "lag" { uuid_for(1, 100 + fresh) } else { *g.pick(&persons) };
                    created.push(u);
                    Op::CreatePerson { n, u, name: g.pick(&names).clone() }
                } else if k < 9 {
                    fresh += 1;
                    let u = if cfg.focus == "lag" { uuid_for(2, 100 + fresh) } else { *g.pick(&groups) };
                    let mut ms = vec![];
                    for _ in 0..g.below(3) {
                        ms.push(anyof(&mut g, &created, &all));
                    }
                    created.push(u);
                    created_groups.push(u);
                    Op::CreateGroup { n, u, name: g.pick(&names).clone(), members: ms }
                } else {
                    fresh += 1;
                    let u = if cfg.focus == "lag" { uuid_for(3, 100 + fresh) } else { *g.pick(&dyns) };
                    created.push(u);
                    created_groups.push(u);
                    Op::CreateDyn { n, u, name: format!("dyn{}", g.below(2)), pat: if cfg.focus == "graph" { g.pick(&["n", "na", "nb", "g:nal", "g:nbo", "g:ncy", "g:ndi"]).to_string() } else { g.pick(&["n", "na", "nb", "nc", "x"]).to_string() } }
                }
            }
            1 => Op::Rename { n, u: anyof(&mut g, &created, &all), name: g.pick(&names).clone() },
            2 => {
                let u = anyof(&mut g, &created, &all);
                if g.chance(1, 2) {
                    Op::SetDesc { n, u, v: format!("d{}", g.below(4)) }
                } else {
                    Op::SetDisplay { n, u, v: format!("D{}", g.below(4)) }
                }
            }
            3 => {
                let gr = anyof(&mut g, &created_groups, &groups);
                // "graph" runs nest groups in groups most of the time (cycles, chains into cycles)
                let m = if cfg.focus == "graph" && g.chance(7, 10) { anyof(&mut g, &created_groups, &groups) } else { anyof(&mut g, &created, &all) };
                if g.chance(2, 3) {
                    Op::AddMember { n, g: gr, m }
                } else {
                    Op::RemMember { n, g: gr, m }
                }
            }
            4 => {
                let mut u = anyof(&mut g, &created, &all);
                if ref_bias && g.chance(1, 2) {
                    // delete something an already deleted entry refers to (holder first, target later)
                    let c: Vec<Uuid> = refs.iter().filter(|(h, t)| deleted.contains(h) && !deleted.contains(t)).map(|(_, t)| *t).collect();
                    if !c.is_empty() {
                        u = *g.pick(&c);
                    }
                }
                deleted.push(u);
                Op::Delete { n, u }
            }
            5 => {
                let mut u = anyof(&mut g, &deleted, &all);
                if ref_bias && g.chance(1, 2) {
                    // revive an entry whose reference target (or holder) was deleted after it
                    let c: Vec<Uuid> = refs.iter().filter(|(h, t)| deleted.contains(h) && deleted.contains(t)).flat_map(|(h, t)| [*h, *t]).collect();
                    if !c.is_empty() {
                        u = *g.pick(&c);
                    }
                }
                Op::Revive { n, u }
            }
            6 => {
                if g.chance(1, 2) {
                    Op::PurgeRecycled { n }
                } else {
                    Op::PurgeTombstones { n }
                }
            }
            7 => Op::DomainRename { n, name: g.pick(&["example.com", "corp.example", "idm.test"]).to_string() },
            8 => {
                if nn < 2 {
                    continue;
                }
                let c = n;
                let mut s = g.below(nn as u64) as usize;
                if s == c {
                    s = (s + 1) % nn;
                }
                if let Some((x, from, to)) = partition {
                    // partition: no link to or from the isolated node is scheduled inside the window
                    if (c == x || s == x) && evs.len() >= from && evs.len() < to {
                        continue;
                    }
                }
                match g.below(if cfg.faults { 12 } else { 9 }) {
                    0..=2 => Op::Pull { c, s },
                    3 | 4 => Op::ReplBegin { c, s },
                    5 | 6 => Op::ReplSupply { c, s },
                    7 | 8 => Op::ReplApply { c, s, dup: false },
                    9 => Op::ReplApply { c, s, dup: true },
                    10 => Op::ReplDrop { c, s },
                    _ => Op::Refresh { c, s },
                }
            }
            9 => {
                let secs = if big_time {
                    *g.pick(&[1, 5, 60, 3600, DAY, 3 * DAY, 7 * DAY - 1, 7 * DAY, 7 * DAY + 1, 8 * DAY, 15 * DAY])
                } else {
                    *g.pick(&[0, 1, 1, 2, 5, 60, 3600])
                };
                Op::Advance { secs }
            }
            10 => {
                let secs = *g.pick(&[0i64, 0, -1, 1, -5, 5, -3600, 3600, -86400 * 2, 86400 * 2]);
                Op::Skew { n, secs }
            }
            11 => Op::Crash { n },
            12 => {
                if g.chance(1, 2) {
                    Op::BadCreate { n, kind: g.below(5) as u8, u: uuid_for(4, g.below(4)), name: format!("bad{}", g.below(3)) }
                } else {
                    Op::BadModify { n, kind: g.below(4) as u8, u: anyof(&mut g, &created, &all) }
                }
            }
            13 => Op::SetDynFilter { n, u: *g.pick(&dyns), pat: if cfg.focus == "graph" { g.pick(&["n", "na", "nb", "g:nal", "g:nbo", "g:ncy", "g:ndi"]).to_string() } else { g.pick(&["n", "na", "nb", "nc", "x"]).to_string() } },
            14 => Op::Reindex { n },
            15 => Op::SetManager { n, u: anyof(&mut g, &created_groups, &groups), mgr: anyof(&mut g, &created, &all) },
            16 => Op::Abandon { n, u: *g.pick(&persons), name: g.pick(&names).clone() },
            _ => match g.below(10) {
                0..=3 => {
                    // 0-3 addresses of one owner tag, sharing local part and domain substrings;
                    // rarely an address that another person may hold too (uniqueness)
                    let tag = g.below(8);
                    let pool = [format!("p{tag}@example.com"), format!("p{tag}.alias@example.com"), format!("p{tag}@corp.example"), "shared@example.com".to_string()];
                    let mut mails = vec![];
                    for (i, m) in pool.iter().enumerate() {
                        if g.chance(if i == 3 { 1 } else { 5 }, 10) {
                            mails.push(m.clone());
                        }
                    }
                    Op::SetMail { n, u: anyof(&mut g, &created, &persons), mails }
                }
                4 | 5 => {
                    let u = *g.pick(&clients);
                    created_clients.push(u);
                    Op::CreateOauth2 { n, u, name: format!("rs{}", g.below(2)) }
                }
                6 | 7 => Op::ScopeMap { n, rs: anyof(&mut g, &created_clients, &clients), g: anyof(&mut g, &created_groups, &all), del: g.chance(1, 4) },
                _ => {
                    let rs = anyof(&mut g, &created_clients, &clients);
                    let gr = anyof(&mut g, &created_groups, &all);
                    let ci = g.below(3) as usize;
                    let claims = ["ca", "cb", "cc"];
                    let del = g.chance(1, 5);
                    if !del && g.chance(1, 2) {
                        // the same group under a second claim name of the same client
                        id += 1;
                        let mut v = serde_json::to_value(&Op::ClaimMap { n, rs, claim: claims[(ci + 1) % 3].to_string(), g: gr, del: false }).expect("json");
                        v["id"] = json!(id);
                        evs.push(v);
                    }
                    Op::ClaimMap { n, rs, claim: claims[ci].to_string(), g: gr, del }
                }
            },
        };
        match &op {
            Op::CreateGroup { u, members, .. } => refs.extend(members.iter().map(|m| (*u, *m))),
            Op::AddMember { g: gr, m, .. } => refs.push((*gr, *m)),
            Op::SetManager { u, mgr, .. } => refs.push((*u, *mgr)),
            Op::ScopeMap { rs, g: gr, del: false, .. } | Op::ClaimMap { rs, g: gr, del: false, .. } => refs.push((*rs, *gr)),
            _ => {}
        }
        id += 1;
        let mut v = serde_json::to_value(&op).expect("json");
        v["id"] = json!(id);
        evs.push(v);
    }
    Plan { property: property.to_string(), seed, cfg: serde_json::to_value(cfg).expect("json"), events: evs }
}

pub fn execute(plan: &Plan, enabled: &[&'static str]) -> Outcome {
    let cfg: Cfg = match serde_json::from_value(plan.cfg.clone()) {
        Ok(c) => c,
        Err(e) => return Outcome { harness_error: Some(format!("bad cfg: {e}")), ..Default::default() },
    };
    let mut cl = match Cluster::new(cfg.clone(), plan.seed, enabled) {
        Ok(c) => c,
        Err(e) => return Outcome { harness_error: Some(e), ..Default::default() },
    };
    for n in 0..cfg.nodes {
        cl.check_node(n);
    }
    for (i, ev) in plan.events.iter().enumerate() {
        cl.step = i;
        let id = ev.get("id").and_then(|x| x.as_u64()).unwrap_or(i as u64);
        let Ok(op) = serde_json::from_value::<Op>(ev.clone()) else { continue };
        cl.apply(id, &op);
        if cl.out.harness_error.is_some() || cl.aborted {
            break;
        }
    }
    if cfg.quiesce && cl.out.harness_error.is_none() && !cl.aborted {
        cl.quiesce();
    }
    cl.finish()
}

// ------------------------------------------------------------------------------------------------
// Scenarios (one per property served by this engine)
// ------------------------------------------------------------------------------------------------

pub struct ClusterScenario {
    pub id: &'static str,
    pub enabled: Vec<&'static str>,
    pub quick_runs: u64,
    pub thorough_runs: u64,
    pub rule: &'static str,
    pub mk: fn(&mut Rng, Tier) -> (Cfg, Weights, usize, bool),
}

const ALL_STEP: [&str; 9] = ["C03", "C07", "C15", "C16", "C17", "C18", "C19", "C20", "C22"];

fn w_default() -> Weights {
    Weights { create: 14, rename: 6, attr: 8, member: 10, delete: 6, revive: 3, purge: 1, domain: 0, repl: 22, advance: 8, skew: 0, crash: 0, bad: 0, dynf: 1, reindex: 0, manager: 2, abandon: 0, extra: 0 }
}

impl Scenario for ClusterScenario {
    fn property(&self) -> &'static str {
        self.id
    }
    fn engine(&self) -> &'static str {
        "E1 cluster"
    }
    fn budget(&self, tier: Tier) -> Budget {
        match tier {
            Tier::Quick => Budget { runs: self.quick_runs, wall_cap_s: 150 },
            Tier::Thorough => Budget { runs: self.thorough_runs, wall_cap_s: 1800 },
        }
    }
    fn generate(&self, seed: u64, tier: Tier) -> Plan {
        let mut k = Rng::stream(seed, "knobs");
        let (cfg, w, n, big) = (self.mk)(&mut k, tier);
        generate(self.id, seed, &cfg, &w, n, big)
    }
    fn execute(&self, plan: &Plan) -> Outcome {
        execute(plan, &self.enabled)
    }
    fn rule(&self) -> String {
        format!("{} A run = one seeded swarm configuration (node count, storage, cache floor, fault subset, op mix) + an explicit event list executed against real kanidm servers. distinct_nontrivial = number of distinct canonical whole-database digests reached across all runs (a run counts only if it executed ≥3 events and reached ≥2 distinct states).", self.rule)
    }
    fn components(&self) -> J {
        json!({
            "real": ["kanidmd_lib (QueryServer, backend, ARC caches, bundled SQLite, schema, plugins, replication supplier/consumer)", "kanidm_proto", "kanidm_lib_crypto", "concread", "idlset"],
            "stub": ["replication transport (TCP+mTLS, repl_task loop): simulator link state machine carrying the JSON-encoded ConsumerRequest/SupplierResponse payloads", "interval task scheduler (real task bodies purge_recycled/purge_tombstones fired as events)", "wall clock (ct parameter / hook H1)", "OS entropy (seeded stream via interposed getrandom)"],
            "not_run": ["HTTP/axum layer", "TLS", "admin socket", "CLI"]
        })
    }
    fn assumptions(&self) -> Vec<String> {
        vec![
            "SQLite is trusted; crash = process death (files as left by the last completed call), not power loss".into(),
            "replication transport modelled as three separately scheduled steps per link (ranges read, supply, apply) as in server/core/src/repl/mod.rs".into(),
            "sampled, not exhaustive: a clean batch is evidence, not proof".into(),
        ]
    }
}

pub fn scenarios() -> Vec<Box<dyn Scenario>> {
    let mut v: Vec<Box<dyn Scenario>> = vec![];
    v.push(Box::new(ClusterScenario {
        id: "C08",
        enabled: vec!["C08"],
        quick_runs: 320,
        thorough_runs: 40_000,
        rule: "Concurrent write histories with forced uuid/name collisions on 2–3 replicas under random three-step replication schedules (stale ranges, loss, duplication), then fault-free full-mesh replication to quiescence; canonical dumps compared pairwise.",
        mk: |k, tier| {
            let nodes = 2 + k.below(2) as usize;
            let faults = k.chance(1, 2);
            let cfg = Cfg { nodes, file_backed: false, arc: None, focus: "converge".into(), auto_refresh: true, quiesce: true, faults, tick: true };
            // Clocks are consistent with causality in these runs (one second per event, no skew):
            // the statement is about concurrent writes and replication order, not clock faults
            // (those are C07's).
            let w = w_default();
            let n = if tier == Tier::Quick { 20 + k.below(40) as usize } else { 20 + k.below(100) as usize };
            (cfg, w, n, false)
        },
    }));
    // Directory-invariant properties: same engine, swarm biased toward each property, own oracle only.
    fn mk_dir(k: &mut Rng, tier: Tier) -> (Cfg, Weights, usize, bool) {
        let nodes = 1 + k.below(3) as usize;
        let file_backed = k.chance(1, 4);
        let arc = if k.chance(1, 3) { Some(*k.pick(&[4usize, 16, 64])) } else { None };
        let cfg = Cfg { nodes, file_backed, arc, focus: "dir".into(), auto_refresh: true, quiesce: true, faults: k.chance(1, 2), tick: k.chance(1, 2) };
        let mut w = w_default();
        w.purge = 3;
        w.domain = 1;
        w.reindex = 1;
        w.bad = 3;
        w.dynf = 2;
        w.revive = 5;
        if file_backed {
            w.crash = 3;
        }
        if nodes == 1 {
            w.repl = 0;
        } else {
            // A domain rename is an offline administrative action (`danger_domain_rename`); it is
            // exercised on single-node runs only (C22's quantifier has no replication in it).
            w.domain = 0;
        }
        let big = k.chance(1, 3);
        let n = if tier == Tier::Quick { 20 + k.below(50) as usize } else { 20 + k.below(180) as usize };
        (cfg, w, n, big)
    }
    let dir = |id: &'static str, rule: &'static str, quick: u64| -> Box<dyn Scenario> {
        Box::new(ClusterScenario { id, enabled: vec![id], quick_runs: quick, thorough_runs: 30_000, rule, mk: mk_dir })
    };
    // Same, and in half of the runs also mail values (multi-valued, unique, substring-indexed)
    // and OAuth2 clients with scope and claim maps (reference-valued maps keyed by group).
    fn mk_dir_x(k: &mut Rng, tier: Tier) -> (Cfg, Weights, usize, bool) {
        let (cfg, mut w, n, big) = mk_dir(k, tier);
        if k.chance(1, 2) {
            w.extra = 12;
        }
        (cfg, w, n, big)
    }
    // C16: reference-bearing entries dominate; deletes of referenced entries are frequent.
    fn mk_dir_ref(k: &mut Rng, tier: Tier) -> (Cfg, Weights, usize, bool) {
        let (cfg, mut w, n, big) = mk_dir(k, tier);
        if k.chance(2, 3) {
            w.extra = 30;
            w.delete = 10;
            w.revive = 8;
            w.manager = 5;
        }
        (cfg, w, n, big)
    }
    // C19: half of the runs draw names and uuids from a pool of three, on 2-3 replicas.
    fn mk_dir_uniq(k: &mut Rng, tier: Tier) -> (Cfg, Weights, usize, bool) {
        let (mut cfg, mut w, n, big) = mk_dir_x(k, tier);
        if k.chance(1, 2) {
            cfg.focus = "unique".into();
            w.create = 24;
            w.rename = 10;
            w.delete = 3;
            if cfg.nodes == 1 {
                cfg.nodes = 2;
                w.repl = 22;
                w.domain = 0;
            }
        }
        (cfg, w, n, big)
    }
    let dirx = |id: &'static str, rule: &'static str, quick: u64| -> Box<dyn Scenario> {
        Box::new(ClusterScenario { id, enabled: vec![id], quick_runs: quick, thorough_runs: 30_000, rule, mk: mk_dir_x })
    };
    // C07: adversarial clocks (repeats, regressions, jumps), abandoned transactions, restarts.
    v.push(Box::new(ClusterScenario {
        id: "C07",
        enabled: vec!["C07"],
        quick_runs: 320,
        thorough_runs: 60_000,
        rule: "Write transactions whose clock is drawn adversarially per node (repeats, regressions of seconds to days, jumps), interleaved with abandoned transactions, replication applies, refreshes (new server uuid) and crash/restart on file-backed nodes; per server uuid the change time of every committed transaction must be strictly greater than that of every earlier committed one, across incarnations.",
        mk: |k, tier| {
            let nodes = 1 + k.below(2) as usize;
            let file_backed = k.chance(2, 3);
            let cfg = Cfg { nodes, file_backed, arc: None, focus: "cid".into(), auto_refresh: true, quiesce: false, faults: true, tick: false };
            let mut w = w_default();
            w.skew = 14;
            w.advance = 6;
            w.abandon = 6;
            w.crash = if file_backed { 8 } else { 0 };
            w.repl = if nodes > 1 { 10 } else { 0 };
            let n = if tier == Tier::Quick { 30 + k.below(50) as usize } else { 30 + k.below(200) as usize };
            (cfg, w, n, k.chance(1, 4))
        },
    }));
    // C09 / C10: deletes, purges and reaping around the retention and changelog windows, lag
    // beyond the window, refresh; the range monitor runs on every supplier step.
    fn mk_lag(k: &mut Rng, tier: Tier) -> (Cfg, Weights, usize, bool) {
        let nodes = 2 + k.below(2) as usize;
        let cfg = Cfg { nodes, file_backed: false, arc: None, focus: "lag".into(), auto_refresh: k.chance(3, 4), quiesce: true, faults: k.chance(1, 2), tick: true };
        let mut w = w_default();
        w.delete = 12;
        w.revive = 4;
        w.purge = 10;
        w.advance = 14;
        w.repl = 24;
        let n = if tier == Tier::Quick { 30 + k.below(50) as usize } else { 30 + k.below(200) as usize };
        (cfg, w, n, true)
    }
    v.push(Box::new(ClusterScenario {
        id: "C09",
        enabled: vec!["C09"],
        quick_runs: 320,
        thorough_runs: 40_000,
        rule: "Histories biased to delete/revive/purge with the simulated clock jumping around the 7-day recycle-bin and changelog windows, replication delayed up to several windows, refresh on demand; a uuid that became a tombstone anywhere must never be live again on a node that applied the tombstone, nor anywhere at quiescence.",
        mk: mk_lag,
    }));
    v.push(Box::new(ClusterScenario {
        id: "C10",
        enabled: vec!["C10"],
        quick_runs: 320,
        thorough_runs: 40_000,
        rule: "Monitor on every supplier step of lag-heavy histories (trimming, lag beyond the window, refresh): the reply (supply ranges / no changes / refresh / refuse) is compared with an independent decision function written from the property statement, evaluated on the consumer's ranges and the supplier's trimmed ranges.",
        mk: mk_lag,
    }));
    v.push(dirx("C03", "Random directory histories (renames, mail value sets sharing substrings, OAuth2 clients, recycle/revive, purge, reaping, replication applies incl. uuid-changing conflicts, reindex, restart, small ARC caches); after every commit on the touched node: server verify(), index tables == keys recomputed from stored entries (two-sided), lookup tables and name resolution == scan, indexed search == scan.", 240));
    v.push(dirx("C15","Random directory histories with adversarial (ill-typed, missing-must, disallowed-attribute, unknown-class, multi-value) creates and modifies and replicated merges; after every commit each live entry is checked against the schema dumped from the same transaction; refused operations must leave the database digest unchanged.", 240));
    let dirref = |id: &'static str, rule: &'static str, quick: u64| -> Box<dyn Scenario> {
        Box::new(ClusterScenario { id, enabled: vec![id], quick_runs: quick, thorough_runs: 30_000, rule, mk: mk_dir_ref })
    };
    v.push(dirref("C16","Random histories over reference-bearing entries (members, entry managers, OAuth2 scope maps and claim maps naming one group under several claims), deletes, revives, purges, replicated conflicts; after every commit every reference-typed attribute of every live entry must point at a live entry on that node.", 240));
    fn mk_graph(k: &mut Rng, tier: Tier) -> (Cfg, Weights, usize, bool) {
        let nodes = if k.chance(2, 3) { 1 } else { 2 };
        let cfg = Cfg { nodes, file_backed: false, arc: None, focus: "graph".into(), auto_refresh: true, quiesce: true, faults: false, tick: true };
        let mut w = w_default();
        w.create = 10;
        w.member = 40;
        w.delete = 5;
        w.revive = 4;
        w.rename = 1;
        w.attr = 1;
        w.dynf = 5;
        w.repl = if nodes > 1 { 12 } else { 0 };
        let n = if tier == Tier::Quick { 30 + k.below(50) as usize } else { 30 + k.below(150) as usize };
        (cfg, w, n, false)
    }
    v.push(Box::new(ClusterScenario { id: "C17", enabled: vec!["C17"], quick_runs: 320, thorough_runs: 40_000, rule: "Random group graphs up to 8 groups (cycles, self-membership, chains into cycles, dyngroups) built and edited by member add/remove (groups nested in groups most of the time), group delete/revive and replicated membership changes; after every commit memberof/directmemberof are recomputed by breadth-first closure in the harness and compared exactly.", mk: mk_graph }));
    v.push(dir("C18", "Dynamic groups with random filters, candidate create/rename/delete/revive, filter edits, replication, restart; after every commit dynmember == harness evaluation of the group's filter over the live entries of that node.", 240));
    let diruniq = |id: &'static str, rule: &'static str, quick: u64| -> Box<dyn Scenario> {
        Box::new(ClusterScenario { id, enabled: vec![id], quick_runs: quick, thorough_runs: 30_000, rule, mk: mk_dir_uniq })
    };
    v.push(diruniq("C19","Creates, renames and mail changes from a tiny name/uuid/address pool on 1–3 replicas with random replication schedules; after every commit no two live entries share a uuid or a unique attribute value.", 240));
    fn mk_single(k: &mut Rng, tier: Tier) -> (Cfg, Weights, usize, bool) {
        let file_backed = k.chance(1, 2);
        let arc = if k.chance(1, 3) { Some(*k.pick(&[4usize, 16, 64])) } else { None };
        let cfg = Cfg { nodes: 1, file_backed, arc, focus: "single".into(), auto_refresh: true, quiesce: false, faults: false, tick: k.chance(1, 2) };
        let mut w = w_default();
        w.repl = 0;
        w.domain = 5;
        w.rename = 12;
        w.revive = 4;
        w.purge = 2;
        w.reindex = 1;
        w.crash = if file_backed { 4 } else { 0 };
        let n = if tier == Tier::Quick { 20 + k.below(50) as usize } else { 20 + k.below(180) as usize };
        (cfg, w, n, k.chance(1, 4))
    }
    v.push(Box::new(ClusterScenario { id: "C22", enabled: vec!["C22"], quick_runs: 320, thorough_runs: 40_000, rule: "Creates/renames of persons and groups interleaved with domain renames, delete/revive and restart on one server; after every commit every live account/group that has a name has exactly one spn == name@domain.", mk: mk_single }));
    v
}
