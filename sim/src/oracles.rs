//! Independent step invariants computed from a full scan of one node's database. None of these
//! calls kanidm's own verify code; each is written from the property statement.
use crate::dump::{ava_strings, entry_state, EState, EntryArc};
use kanidmd_lib::prelude::*;
use kanidmd_lib::schema::SchemaTransaction;
use kanidmd_lib::valueset::ValueSetT;
use std::collections::{BTreeMap, BTreeSet};

pub struct Finding {
    pub property: &'static str,
    pub oracle: &'static str,
    pub signature: String,
    pub summary: String,
}

pub struct Snap {
    pub entries: Vec<EntryArc>,
    pub state: BTreeMap<Uuid, EState>,
    pub domain: String,
}

impl Snap {
    pub fn take<'a, T: QueryServerTransaction<'a>>(txn: &mut T) -> Result<Snap, OperationError> {
        let entries = crate::dump::search_all(txn)?;
        // A uuid can be carried by more than one stored entry (a conflict entry keeps the uuid it
        // had, and the uuid may be created again): the per-uuid state is Live if any of them is
        // live, and liveness of an entry is judged on that entry alone.
        let mut state: BTreeMap<Uuid, EState> = BTreeMap::new();
        for e in &entries {
            let st = entry_state(e);
            let cur = state.entry(e.get_uuid()).or_insert(st);
            if st == EState::Live {
                *cur = EState::Live;
            }
        }
        let domain = txn.get_domain_name().to_string();
        Ok(Snap { entries, state, domain })
    }
    pub fn live(&self) -> impl Iterator<Item = &EntryArc> {
        self.entries.iter().filter(|e| entry_state(e) == EState::Live)
    }
    pub fn is_live(&self, u: &Uuid) -> bool {
        self.state.get(u) == Some(&EState::Live)
    }
}

fn has_class(e: &EntryArc, c: EntryClass) -> bool {
    e.attribute_equality(Attribute::Class, &c.into())
}

pub fn refers(e: &EntryArc, a: Attribute) -> BTreeSet<Uuid> {
    e.get_ava_set(a).and_then(|vs| vs.as_ref_uuid_iter().map(|i| i.collect())).unwrap_or_default()
}

pub fn uuids_of(e: &EntryArc, a: Attribute) -> Vec<Uuid> {
    ava_strings(e, a).iter().filter_map(|s| Uuid::parse_str(s).ok()).collect()
}

/// C16: every reference-valued attribute of a live entry points at a live entry.
pub fn refint<S: SchemaTransaction>(snap: &Snap, schema: &S) -> Vec<Finding> {
    let mut out = vec![];
    let reft: Vec<Attribute> = schema.get_reference_types().keys().cloned().collect();
    for e in snap.live() {
        for a in &reft {
            let Some(vs) = e.get_ava_set(a.clone()) else { continue };
            let Some(it) = vs.as_ref_uuid_iter() else { continue };
            for u in it {
                if !snap.is_live(&u) {
                    out.push(Finding {
                        property: "C16",
                        oracle: "dangling-reference",
                        signature: format!("attr={a}; target={:?}", snap.state.get(&u)),
                        summary: format!("live entry {} has {a} -> {u} which is {:?} on this node", e.get_uuid(), snap.state.get(&u)),
                    });
                }
            }
        }
    }
    out
}

/// C17: memberof == groups reachable through ≥1 member/dynmember link among live groups;
/// directmemberof == live groups listing the entry directly.
pub fn memberof(snap: &Snap) -> Vec<Finding> {
    let mut out = vec![];
    // group -> members
    let mut members: BTreeMap<Uuid, BTreeSet<Uuid>> = BTreeMap::new();
    for e in snap.live() {
        if has_class(e, EntryClass::Group) {
            let mut m = refers(e, Attribute::Member);
            m.extend(refers(e, Attribute::DynMember));
            members.insert(e.get_uuid(), m);
        }
    }
    // entry -> direct groups
    let mut direct: BTreeMap<Uuid, BTreeSet<Uuid>> = BTreeMap::new();
    for (g, ms) in &members {
        for m in ms {
            direct.entry(*m).or_default().insert(*g);
        }
    }
    for e in snap.live() {
        let u = e.get_uuid();
        let exp_direct = direct.get(&u).cloned().unwrap_or_default();
        // closure upward
        let mut exp_mo: BTreeSet<Uuid> = BTreeSet::new();
        let mut stack: Vec<Uuid> = exp_direct.iter().cloned().collect();
        while let Some(g) = stack.pop() {
            if exp_mo.insert(g) {
                if let Some(up) = direct.get(&g) {
                    stack.extend(up.iter().cloned());
                }
            }
        }
        let got_mo = refers(e, Attribute::MemberOf);
        let got_direct = refers(e, Attribute::DirectMemberOf);
        if got_mo != exp_mo {
            out.push(Finding {
                property: "C17",
                oracle: "memberof-closure",
                signature: match (got_mo.difference(&exp_mo).next().is_some(), exp_mo.difference(&got_mo).next().is_some()) {
                    (true, false) => "memberof: stale group kept (no membership path)".to_string(),
                    (false, true) => "memberof: group missing".to_string(),
                    _ => "memberof: stale and missing".to_string(),
                },
                summary: format!("entry {u}: memberof {:?} but closure over live groups gives {:?}", got_mo, exp_mo),
            });
        }
        if got_direct != exp_direct {
            out.push(Finding {
                property: "C17",
                oracle: "directmemberof",
                signature: "directmemberof".into(),
                summary: format!("entry {u}: directmemberof {:?} but live groups listing it are {:?}", got_direct, exp_direct),
            });
        }
    }
    out
}

/// C19: no two live entries share a uuid or a value of a unique attribute.
pub fn unique<S: SchemaTransaction>(snap: &Snap, schema: &S) -> Vec<Finding> {
    let mut out = vec![];
    let mut seen_uuid: BTreeSet<Uuid> = BTreeSet::new();
    for e in snap.live() {
        if !seen_uuid.insert(e.get_uuid()) {
            out.push(Finding { property: "C19", oracle: "duplicate-uuid", signature: "uuid".into(), summary: format!("two live entries share uuid {}", e.get_uuid()) });
        }
    }
    for a in schema.get_attributes_unique() {
        let mut seen: BTreeMap<String, Uuid> = BTreeMap::new();
        for e in snap.live() {
            for v in ava_strings(e, a.clone()) {
                if let Some(prev) = seen.insert(v.clone(), e.get_uuid()) {
                    if prev != e.get_uuid() {
                        out.push(Finding {
                            property: "C19",
                            oracle: "duplicate-unique-value",
                            signature: format!("attr={a}"),
                            summary: format!("live entries {prev} and {} both hold {a}={v}", e.get_uuid()),
                        });
                    }
                }
            }
        }
    }
    out
}

/// C22: every live account or group has exactly one spn == name@domain.
pub fn spn(snap: &Snap) -> Vec<Finding> {
    let mut out = vec![];
    for e in snap.live() {
        if !(has_class(e, EntryClass::Account) || has_class(e, EntryClass::Group)) {
            continue;
        }
        let names = ava_strings(e, Attribute::Name);
        if names.is_empty() {
            // A group whose (optional) name was purged has nothing to derive an SPN from; the
            // statement speaks of creates and renames, so such an entry is outside it.
            continue;
        }
        let spns = ava_strings(e, Attribute::Spn);
        let ok = names.len() == 1 && spns.len() == 1 && spns[0] == format!("{}@{}", names[0], snap.domain);
        if !ok {
            out.push(Finding {
                property: "C22",
                oracle: "spn-shape",
                signature: "spn!=name@domain".into(),
                summary: format!("entry {} name={:?} spn={:?} domain={}", e.get_uuid(), names, spns, snap.domain),
            });
        }
    }
    out
}

/// C15: every live, non-conflict entry satisfies the schema in force.
pub fn schema_conformance<S: SchemaTransaction>(snap: &Snap, schema: &S) -> Vec<Finding> {
    let mut out = vec![];
    let classes = schema.get_classes();
    let attrs = schema.get_attributes();
    for e in snap.live() {
        let u = e.get_uuid();
        let ecls = ava_strings(e, Attribute::Class);
        let mut may: BTreeSet<Attribute> = BTreeSet::new();
        let mut must: BTreeSet<Attribute> = BTreeSet::new();
        let mut extensible = false;
        let mut bad = |sig: &str, msg: String| {
            out.push(Finding { property: "C15", oracle: "schema-conformance", signature: sig.to_string(), summary: format!("entry {u}: {msg}") });
        };
        for c in &ecls {
            if c == "extensibleobject" {
                extensible = true;
            }
            match classes.get(c.as_str()) {
                None => bad("unknown-class", format!("class {c} not in schema")),
                Some(sc) => {
                    may.extend(sc.may.iter().cloned());
                    may.extend(sc.systemmay.iter().cloned());
                    must.extend(sc.must.iter().cloned());
                    must.extend(sc.systemmust.iter().cloned());
                }
            }
        }
        for m in &must {
            if e.get_ava_set(m.clone()).map(|v| v.len()).unwrap_or(0) == 0 {
                bad("missing-must", format!("required attribute {m} absent (classes {ecls:?})"));
            }
        }
        for (a, vs) in e.get_ava_iter() {
            let Some(sa) = attrs.get(a) else {
                bad("unknown-attr", format!("attribute {a} not in schema"));
                continue;
            };
            if !extensible && !may.contains(a) && !must.contains(a) {
                bad("attr-not-allowed", format!("attribute {a} not allowed by classes {ecls:?}"));
            }
            if !sa.multivalue && vs.len() > 1 {
                bad("single-value", format!("single-valued {a} has {} values", vs.len()));
            }
            if vs.syntax() != sa.syntax || !vs.validate(sa) {
                bad("syntax", format!("attribute {a} holds {:?}, schema says {:?}", vs.syntax(), sa.syntax));
            }
        }
    }
    out
}

/// Evaluate a proto filter on an entry with ordinary boolean semantics (NOT = complement).
/// Returns None when the filter uses something this evaluator does not model.
pub fn eval_proto<S: SchemaTransaction>(f: &ProtoFilter, e: &EntryArc, schema: &S, self_uuid: Option<Uuid>) -> Option<bool> {
    let norm = |attr: &str, v: &str| -> Option<(Attribute, String)> {
        let a = Attribute::from(attr);
        let sa = schema.get_attributes().get(&a)?;
        let v = match sa.syntax {
            SyntaxType::Utf8StringInsensitive | SyntaxType::Utf8StringIname | SyntaxType::Uuid | SyntaxType::ReferenceUuid => v.to_lowercase(),
            SyntaxType::Utf8String | SyntaxType::Uint32 | SyntaxType::Boolean => v.to_string(),
            _ => return None,
        };
        Some((a, v))
    };
    Some(match f {
        ProtoFilter::Eq(a, v) => {
            let (a, v) = norm(a, v)?;
            ava_strings(e, a).iter().any(|x| *x == v)
        }
        ProtoFilter::Cnt(a, v) => {
            let (a, v) = norm(a, v)?;
            ava_strings(e, a).iter().any(|x| x.contains(&v))
        }
        ProtoFilter::Pres(a) => {
            let a = Attribute::from(a.as_str());
            schema.get_attributes().get(&a)?;
            e.get_ava_set(a).map(|v| v.len() > 0).unwrap_or(false)
        }
        ProtoFilter::And(v) => {
            let mut r = true;
            for x in v {
                r &= eval_proto(x, e, schema, self_uuid)?;
            }
            r
        }
        ProtoFilter::Or(v) => {
            let mut r = false;
            for x in v {
                r |= eval_proto(x, e, schema, self_uuid)?;
            }
            r
        }
        ProtoFilter::AndNot(x) => !eval_proto(x, e, schema, self_uuid)?,
        ProtoFilter::SelfUuid => Some(e.get_uuid()) == self_uuid,
    })
}

/// C18: dynmember(g) == live entries matching g's filter (the group itself included when it matches).
pub fn dyngroups<S: SchemaTransaction>(snap: &Snap, schema: &S) -> (Vec<Finding>, u64) {
    let mut out = vec![];
    let mut evaluated = 0;
    for g in snap.live() {
        if !has_class(g, EntryClass::DynGroup) {
            continue;
        }
        let Some(filt) = g.get_ava_set(Attribute::DynGroupFilter).and_then(|vs| vs.to_json_filter_single().cloned()) else { continue };
        let mut exp: BTreeSet<Uuid> = BTreeSet::new();
        let mut ok = true;
        for e in snap.live() {
            match eval_proto(&filt, e, schema, None) {
                Some(true) => {
                    exp.insert(e.get_uuid());
                }
                Some(false) => {}
                None => {
                    ok = false;
                    break;
                }
            }
        }
        if !ok {
            continue;
        }
        evaluated += 1;
        let got = refers(g, Attribute::DynMember);
        if got != exp {
            let extra: Vec<_> = got.difference(&exp).collect();
            let missing: Vec<_> = exp.difference(&got).collect();
            out.push(Finding {
                property: "C18",
                oracle: "dynmember-exact",
                signature: format!(
                    "{}{}",
                    if extra.is_empty() { String::new() } else { format!("stale-member({:?}) ", extra.iter().map(|u| snap.state.get(*u).copied()).collect::<BTreeSet<_>>()) },
                    if missing.is_empty() { "" } else { "missing-member" }
                )
                .trim()
                .to_string(),
                summary: format!("dyngroup {} filter {:?}: dynmember has extra {:?}, lacks {:?}", g.get_uuid(), filt, extra, missing),
            });
        }
    }
    (out, evaluated)
}
