//! C10 — independent decision function for the supplier's range comparison, written from the
//! property statement, applied as a monitor to every supplier step of a cluster run.
use crate::oracles::Finding;
use kanidmd_lib::repl::proto::ReplIncrementalContext;
use kanidmd_lib::verif_hooks as vh;
use std::collections::BTreeMap;
use std::time::Duration;
use uuid::Uuid;

pub type Ranges = BTreeMap<Uuid, (Duration, Duration)>;

#[derive(Debug, PartialEq, Eq, Clone)]
pub enum Decision {
    Supply(Ranges),
    NoChanges,
    Refresh,
    Refuse,
}

/// The statement: supply only when every server both sides know has overlapping windows, sending
/// (consumer newest, supplier newest] for each such server that is behind plus (0, newest] for
/// servers the consumer has never seen; consumer behind some window → refresh; ahead → refuse;
/// both → refuse; no common server → refuse.
pub fn decide(cons: &Ranges, sup: &Ranges) -> Decision {
    let mut common = 0;
    let mut lag = false;
    let mut adv = false;
    let mut supply: Ranges = BTreeMap::new();
    for (s, (smin, smax)) in sup {
        match cons.get(s) {
            Some((cmin, cmax)) => {
                common += 1;
                let overlap = !(cmax < smin) && !(smax < cmin);
                if !overlap {
                    if cmax < smin {
                        lag = true;
                    } else {
                        adv = true;
                    }
                } else if cmax < smax {
                    supply.insert(*s, (*cmax, *smax));
                }
            }
            None => {
                supply.insert(*s, (Duration::ZERO, *smax));
            }
        }
    }
    if common == 0 {
        return Decision::Refuse;
    }
    match (lag, adv) {
        (true, true) => Decision::Refuse,
        (true, false) => Decision::Refresh,
        (false, true) => Decision::Refuse,
        (false, false) => {
            if supply.is_empty() {
                Decision::NoChanges
            } else {
                Decision::Supply(supply)
            }
        }
    }
}

pub fn self_test() -> Result<(), String> {
    let u = |n: u8| Uuid::from_bytes([n; 16]);
    let d = Duration::from_secs;
    let r = |v: &[(u8, u64, u64)]| -> Ranges { v.iter().map(|(k, a, b)| (u(*k), (d(*a), d(*b)))).collect() };
    let cases: Vec<(Ranges, Ranges, Decision)> = vec![
        (r(&[(1, 1, 3)]), r(&[(1, 1, 3)]), Decision::NoChanges),
        (r(&[(1, 1, 3)]), r(&[(1, 2, 5)]), Decision::Supply(r(&[(1, 3, 5)]))),
        (r(&[(1, 1, 3)]), r(&[(1, 3, 5)]), Decision::Supply(r(&[(1, 3, 5)]))), // equal bound overlaps
        (r(&[(1, 1, 2)]), r(&[(1, 3, 5)]), Decision::Refresh),
        (r(&[(1, 4, 6)]), r(&[(1, 1, 3)]), Decision::Refuse),
        (r(&[(1, 1, 2), (2, 5, 6)]), r(&[(1, 3, 4), (2, 1, 2)]), Decision::Refuse),
        (r(&[(1, 1, 2)]), r(&[(2, 1, 2)]), Decision::Refuse),
        (r(&[(1, 1, 3)]), r(&[(1, 1, 3), (2, 4, 9)]), Decision::Supply(r(&[(2, 0, 9)]))),
        (r(&[]), r(&[(1, 1, 3)]), Decision::Refuse),
    ];
    for (c, s, want) in cases {
        let got = decide(&c, &s);
        if got != want {
            return Err(format!("rangeoracle self-test: decide({c:?},{s:?}) = {got:?}, want {want:?}"));
        }
    }
    Ok(())
}

/// `sup_full`: supplier's complete ranges; servers whose newest change is older than the
/// supplier's trim point are not part of the comparison (they were trimmed from its view).
pub fn check(cons: &Ranges, sup_full: &Ranges, trim_ts: Duration, same_domain: bool, reply: &ReplIncrementalContext) -> Option<Finding> {
    let f = |sig: &str, msg: String| Some(Finding { property: "C10", oracle: "range-decision", signature: sig.to_string(), summary: msg });
    if !same_domain {
        return match reply {
            ReplIncrementalContext::DomainMismatch => None,
            other => f("domain mismatch not reported", format!("consumer of another domain got {:?}", variant(other))),
        };
    }
    let sup: Ranges = sup_full.iter().filter(|(_, (_, mx))| *mx >= trim_ts).map(|(k, v)| (*k, *v)).collect();
    let want = decide(cons, &sup);
    // the server's own comparison on the same inputs
    let own = vh::range_diff(cons, &sup);
    let own_d = match &own {
        vh::RangeDiff::Ok(m) if m.is_empty() => Decision::NoChanges,
        vh::RangeDiff::Ok(m) => Decision::Supply(m.clone()),
        vh::RangeDiff::Refresh => Decision::Refresh,
        _ => Decision::Refuse,
    };
    if own_d != want {
        return f(&format!("range comparison {}", dname(&want)), format!("range_diff({cons:?}, {sup:?}) = {own:?}, the statement gives {want:?}"));
    }
    let got = match reply {
        ReplIncrementalContext::NoChangesAvailable => Decision::NoChanges,
        ReplIncrementalContext::RefreshRequired => Decision::Refresh,
        ReplIncrementalContext::UnwillingToSupply => Decision::Refuse,
        ReplIncrementalContext::DomainMismatch => return f("spurious domain mismatch", "same domain but DomainMismatch".into()),
        ReplIncrementalContext::V1 { ranges, .. } => Decision::Supply(ranges.iter().map(|(k, v)| (*k, (v.ts_min, v.ts_max))).collect()),
    };
    if got != want {
        return f(&format!("reply differs: want {}", dname(&want)), format!("consumer {cons:?} supplier {sup:?} (trim {trim_ts:?}): reply {got:?}, the statement gives {want:?}"));
    }
    None
}

fn dname(d: &Decision) -> &'static str {
    match d {
        Decision::Supply(_) => "supply",
        Decision::NoChanges => "no-changes",
        Decision::Refresh => "refresh",
        Decision::Refuse => "refuse",
    }
}

fn variant(r: &ReplIncrementalContext) -> &'static str {
    match r {
        ReplIncrementalContext::DomainMismatch => "DomainMismatch",
        ReplIncrementalContext::NoChangesAvailable => "NoChangesAvailable",
        ReplIncrementalContext::RefreshRequired => "RefreshRequired",
        ReplIncrementalContext::UnwillingToSupply => "UnwillingToSupply",
        ReplIncrementalContext::V1 { .. } => "V1",
    }
}
