//! E2 — storage engine: one file-backed server, a bounded set of write transactions, and
//! ENUMERATION of every storage call of each transaction as (C04) a failure point and (C05) a
//! process-death point. C04: after a failed or abandoned transaction the live server must observe
//! exactly the pre-state (entries and every server-wide setting readers use). C05: a server booted
//! from the files as they were at the moment of death holds the whole pre-state or the whole
//! post-state, passes its own consistency check, and issues greater change ids afterwards.
use crate::driver::{Budget, Outcome, Plan, Scenario, Tier};
use crate::dump::Dump;
use crate::node::{block, boot_idm, boot_qs, snapshot_db, Idm, NodeCfg, Scratch};
use crate::rng::{fnv64, uuid_for, Rng};
use kanidmd_lib::entry::{Entry, EntryInit, EntryNew};
use kanidmd_lib::prelude::*;
use kanidmd_lib::verif_hooks as vh;
use serde::{Deserialize, Serialize};
use serde_json::{json, Value as J};
use std::cell::RefCell;
use std::collections::BTreeSet;
use std::path::{Path, PathBuf};
use std::rc::Rc;

#[derive(Serialize, Deserialize, Clone, Debug, PartialEq)]
pub enum Kind {
    CreatePerson,
    CreateGroupWithMembers,
    ModifyEntry,
    DeleteWithReferences,
    CreateAcp,
    DomainDisplayName,
    CreateOauth2Client,
    PurgeRecycled,
    Reindex,
    /// bulk transactions: many entries rewritten by one commit
    BatchCreate,
    /// key material: a key object entry (loaded into the key providers at commit)
    CreateKeyObject,
}

#[derive(Serialize, Deserialize, Clone, Debug)]
pub struct Cfg {
    pub kind: Kind,
    pub prefix: u32,
    pub arc: Option<usize>,
    /// cap on enumerated points (all when the transaction has fewer)
    pub max_points: usize,
}

fn person(u: Uuid, name: &str) -> Entry<EntryInit, EntryNew> {
    entry_init!(
        (Attribute::Class, EntryClass::Object.to_value()),
        (Attribute::Class, EntryClass::Account.to_value()),
        (Attribute::Class, EntryClass::Person.to_value()),
        (Attribute::Name, Value::new_iname(name)),
        (Attribute::Uuid, Value::Uuid(u)),
        (Attribute::Description, Value::new_utf8s(name)),
        (Attribute::DisplayName, Value::new_utf8s(name))
    )
}

fn group(u: Uuid, name: &str, members: &[Uuid]) -> Entry<EntryInit, EntryNew> {
    let mut e = entry_init!(
        (Attribute::Class, EntryClass::Object.to_value()),
        (Attribute::Class, EntryClass::Group.to_value()),
        (Attribute::Name, Value::new_iname(name)),
        (Attribute::Uuid, Value::Uuid(u))
    );
    for m in members {
        e.add_ava(Attribute::Member, Value::Refer(*m));
    }
    e
}

fn acp(u: Uuid, name: &str) -> Entry<EntryInit, EntryNew> {
    entry_init!(
        (Attribute::Class, EntryClass::Object.to_value()),
        (Attribute::Class, EntryClass::AccessControlProfile.to_value()),
        (Attribute::Class, EntryClass::AccessControlSearch.to_value()),
        (Attribute::Class, EntryClass::AccessControlReceiverGroup.to_value()),
        (Attribute::Class, EntryClass::AccessControlTargetScope.to_value()),
        (Attribute::Name, Value::new_iname(name)),
        (Attribute::Uuid, Value::Uuid(u)),
        (Attribute::AcpReceiverGroup, Value::Refer(uuid::uuid!("00000000-0000-0000-0000-000000000036"))),
        (Attribute::AcpTargetScope, Value::new_json_filter_s("{\"eq\":[\"class\",\"person\"]}").expect("filter")),
        (Attribute::AcpSearchAttr, Value::from(Attribute::LegalName))
    )
}

fn oauth2_client(u: Uuid, name: &str) -> Entry<EntryInit, EntryNew> {
    entry_init!(
        (Attribute::Class, EntryClass::Object.to_value()),
        (Attribute::Class, EntryClass::Account.to_value()),
        (Attribute::Class, EntryClass::OAuth2ResourceServer.to_value()),
        (Attribute::Class, EntryClass::OAuth2ResourceServerBasic.to_value()),
        (Attribute::Uuid, Value::Uuid(u)),
        (Attribute::Name, Value::new_iname(name)),
        (Attribute::DisplayName, Value::new_utf8s(name)),
        (Attribute::OAuth2RsOriginLanding, Value::new_url_s("https://demo.example.com").expect("url"))
    )
}

/// Everything a reader can observe that the statement lists.
#[derive(Clone, Debug, PartialEq)]
struct Observed {
    entries: u64,
    dump: Dump,
    display_name: String,
    acp_counts: (usize, usize, usize, usize),
    oauth2_known: bool,
    /// key objects a reader's key providers hold, for the uuids the transaction under test creates
    keys_loaded: Vec<bool>,
}

impl Observed {
    /// Entries created by the harness only (a boot rewrites bookkeeping of built-in entries).
    fn user_entries_only(mut self) -> Observed {
        self.dump.entries.retain(|u, _| u.as_bytes()[0] >= 0xe0);
        self.entries = self.dump.digest();
        self
    }
}

const OAUTH_NAME: &str = "simclient";

struct World {
    path: PathBuf,
    arc: Option<usize>,
    idm: Option<Idm>,
    t: u64,
}

impl World {
    fn ct(&self) -> Duration {
        Duration::from_secs(crate::cluster::BASE_EPOCH + self.t)
    }
    fn ncfg(&self, path: &Path) -> NodeCfg {
        NodeCfg { path: Some(path.to_path_buf()), pool: 8, arc: self.arc, level: DOMAIN_TGT_LEVEL }
    }
    fn boot(&mut self) -> Result<(), String> {
        self.idm = None;
        self.t += 1;
        let qs = boot_qs(&self.ncfg(&self.path.clone()), self.ct()).map_err(|e| format!("boot {e:?}"))?;
        self.idm = Some(boot_idm(qs, self.ct()).map_err(|e| format!("boot idm {e:?}"))?);
        Ok(())
    }
    fn idms(&self) -> &IdmServer {
        &self.idm.as_ref().expect("booted").idms
    }

    fn observe(&self) -> Result<Observed, OperationError> {
        let mut pr = block(self.idms().proxy_read())?;
        let dump = Dump::take(&mut pr.qs_read)?;
        let display_name = pr.qs_read.get_domain_display_name().to_string();
        let ac = pr.qs_read.get_accesscontrols();
        let acp_counts = (ac.get_search().len(), ac.get_create().len(), ac.get_modify().len(), ac.get_delete().len());
        let oauth2_known = pr.oauth2_openid_publickey(OAUTH_NAME).is_ok();
        let keys_loaded: Vec<bool> = [uuid_for(6, 1000), uuid_for(9, 1000)].iter().map(|u| vh::key_object_es256_jwks(&pr.qs_read, *u).is_ok()).collect();
        Ok(Observed { entries: dump.digest(), dump, display_name, acp_counts, oauth2_known, keys_loaded })
    }

    /// The transaction under test. Returns Ok only when commit reported success.
    fn run_txn(&mut self, kind: &Kind, gen: u64) -> Result<(), OperationError> {
        self.t += 1;
        let ct = self.ct();
        let idms = &self.idm.as_ref().expect("booted").idms;
        let mut w = block(idms.proxy_write(ct))?;
        let u = |c: u8, n: u64| uuid_for(c, 1000 + gen * 16 + n);
        match kind {
            Kind::CreatePerson => w.qs_write.internal_create(vec![person(u(1, 0), &format!("txp{gen}"))])?,
            Kind::CreateGroupWithMembers => {
                w.qs_write.internal_create(vec![person(u(1, 1), &format!("txm{gen}a")), person(u(1, 2), &format!("txm{gen}b"))])?;
                w.qs_write.internal_create(vec![group(u(2, 0), &format!("txg{gen}"), &[u(1, 1), u(1, 2), uuid_for(1, 0)])])?
            }
            Kind::ModifyEntry => w.qs_write.internal_modify_uuid(uuid_for(1, 0), &ModifyList::new_purge_and_set(Attribute::Description, Value::new_utf8s(&format!("changed{gen}"))))?,
            Kind::DeleteWithReferences => w.qs_write.internal_delete_uuid(uuid_for(1, 1))?,
            Kind::CreateAcp => w.qs_write.internal_create(vec![acp(u(5, 0), &format!("txacp{gen}"))])?,
            Kind::DomainDisplayName => w.qs_write.set_domain_display_name(&format!("Display {gen}"))?,
            Kind::CreateOauth2Client => w.qs_write.internal_create(vec![oauth2_client(u(6, 0), OAUTH_NAME)])?,
            Kind::PurgeRecycled => {
                w.qs_write.purge_recycled()?;
            }
            Kind::Reindex => w.qs_write.reindex(false)?,
            Kind::CreateKeyObject => w.qs_write.internal_create(vec![entry_init!(
                (Attribute::Class, EntryClass::Object.to_value()),
                (Attribute::Class, EntryClass::KeyObject.to_value()),
                (Attribute::Class, EntryClass::KeyObjectJwtEs256.to_value()),
                (Attribute::Uuid, Value::Uuid(u(9, 0)))
            )])?,
            Kind::BatchCreate => {
                let ps: Vec<_> = (0..24u64).map(|i| person(uuid_for(7, 1000 + gen * 32 + i), &format!("txb{gen}x{i}"))).collect();
                let us: Vec<Uuid> = (0..24u64).map(|i| uuid_for(7, 1000 + gen * 32 + i)).collect();
                w.qs_write.internal_create(ps)?;
                w.qs_write.internal_create(vec![group(uuid_for(8, 1000 + gen), &format!("txbg{gen}"), &us)])?
            }
        }
        w.commit()
    }
}

fn phase(k: u64, commit_start: u64, kind: &str) -> &'static str {
    if kind == "commit" {
        "the COMMIT statement"
    } else if commit_start != 0 && k >= commit_start {
        "a statement of the commit-time flush"
    } else {
        "a statement of the operation"
    }
}

fn diff_observed(a: &Observed, b: &Observed) -> Vec<(&'static str, String)> {
    let mut out = vec![];
    if a.entries != b.entries {
        out.push(("stored entries", a.dump.diff(&b.dump).unwrap_or_default()));
    }
    if a.display_name != b.display_name {
        out.push(("domain display name", format!("{:?} -> {:?}", a.display_name, b.display_name)));
    }
    if a.acp_counts != b.acp_counts {
        out.push(("access controls", format!("{:?} -> {:?}", a.acp_counts, b.acp_counts)));
    }
    if a.keys_loaded != b.keys_loaded {
        out.push(("key material", format!("key objects loaded {:?} -> {:?}", a.keys_loaded, b.keys_loaded)));
    }
    if a.oauth2_known != b.oauth2_known {
        out.push(("OAuth2 client configuration", format!("{} -> {}", a.oauth2_known, b.oauth2_known)));
    }
    out
}

fn build_prefix(w: &mut World, n: u32, seed: u64) -> Result<(), String> {
    // a small population every transaction kind can work on
    let mut g = Rng::stream(seed, "prefix");
    let ct0 = {
        w.t += 1;
        w.ct()
    };
    let idms = &w.idm.as_ref().expect("booted").idms;
    let mut pw = block(idms.proxy_write(ct0)).map_err(|e| format!("{e:?}"))?;
    pw.qs_write.internal_create(vec![person(uuid_for(1, 0), "basea"), person(uuid_for(1, 1), "baseb"), person(uuid_for(1, 2), "basec")]).map_err(|e| format!("{e:?}"))?;
    pw.qs_write.internal_create(vec![group(uuid_for(2, 0), "baseg", &[uuid_for(1, 1), uuid_for(1, 2)])]).map_err(|e| format!("{e:?}"))?;
    pw.commit().map_err(|e| format!("{e:?}"))?;
    for i in 0..n {
        w.t += 1 + g.below(5);
        let ct = w.ct();
        let idms = &w.idm.as_ref().expect("booted").idms;
        let mut pw = block(idms.proxy_write(ct)).map_err(|e| format!("{e:?}"))?;
        let r = match g.below(4) {
            0 => pw.qs_write.internal_create(vec![person(uuid_for(1, 10 + i as u64), &format!("pre{i}"))]),
            1 => pw.qs_write.internal_modify_uuid(uuid_for(1, 2), &ModifyList::new_purge_and_set(Attribute::Description, Value::new_utf8s(&format!("d{i}")))),
            2 => pw.qs_write.internal_create(vec![person(uuid_for(1, 50 + i as u64), &format!("del{i}"))]).and_then(|_| pw.qs_write.internal_delete_uuid(uuid_for(1, 50 + i as u64))),
            _ => pw.qs_write.internal_modify_uuid(uuid_for(2, 0), &ModifyList::new_append(Attribute::Member, Value::Refer(uuid_for(1, 0)))),
        };
        if r.is_ok() {
            pw.commit().map_err(|e| format!("{e:?}"))?;
        }
    }
    Ok(())
}

fn points_to_try(n: u64, max: usize, g: &mut Rng) -> Vec<u64> {
    let all: Vec<u64> = (1..=n).collect();
    if all.len() <= max {
        return all;
    }
    // keep the first and last 40 (operation start, commit flush end) and sample the middle
    let mut keep: BTreeSet<u64> = all.iter().take(40).chain(all.iter().rev().take(40)).cloned().collect();
    while keep.len() < max {
        keep.insert(1 + g.below(n));
    }
    keep.into_iter().collect()
}

// ------------------------------------------------------------------------------------------------
// C04
// ------------------------------------------------------------------------------------------------

pub fn execute_c04(plan: &Plan) -> Outcome {
    let mut out = Outcome::default();
    let cfg: Cfg = match serde_json::from_value(plan.cfg.clone()) {
        Ok(c) => c,
        Err(e) => return Outcome { harness_error: Some(format!("bad cfg {e}")), ..Default::default() },
    };
    let scratch = Scratch::new(&format!("st4-{:x}", plan.seed));
    let mut w = World { path: scratch.path().join("db.sqlite"), arc: cfg.arc, idm: None, t: 0 };
    crate::entropy::swap_stream(Some(Rng::new(plan.seed ^ 0xc04)));
    let r = (|| -> Result<(), String> {
        w.boot()?;
        build_prefix(&mut w, cfg.prefix, plan.seed)?;
        if cfg.kind == Kind::PurgeRecycled {
            w.t += 8 * 86400;
        }
        // make durable and keep a pristine copy of the files
        w.idm = None;
        let pristine = scratch.path().join("pristine");
        snapshot_db(&w.path, &pristine).map_err(|e| e.to_string())?;
        w.boot()?;
        let pre = w.observe().map_err(|e| format!("observe {e:?}"))?;
        // dry run: count the storage calls and where the commit starts
        let commit_start = Rc::new(RefCell::new(0u64));
        let cs = commit_start.clone();
        vh::set_pause_callback(Some(Box::new(move |name| {
            if name == "qs_commit:before_publish" {
                *cs.borrow_mut() = vh::storage_count() + 1;
            }
        })));
        vh::reset_storage_count();
        let dry = w.run_txn(&cfg.kind, 0);
        let n = vh::storage_count();
        let commit_at = *commit_start.borrow();
        vh::set_pause_callback(None);
        if dry.is_err() {
            return Err(format!("dry run of {:?} failed: {dry:?}", cfg.kind));
        }
        out.probe(&format!("storage calls in {:?}", cfg.kind));
        let post = w.observe().map_err(|e| format!("observe {e:?}"))?;
        if diff_observed(&pre, &post).is_empty() {
            out.probe("transaction without observable effect");
        }
        // restore and enumerate
        let restore = |w: &mut World| -> Result<(), String> {
            w.idm = None;
            for suffix in ["", "-wal", "-shm"] {
                let mut p = w.path.as_os_str().to_owned();
                p.push(suffix);
                let _ = std::fs::remove_file(PathBuf::from(p));
            }
            snapshot_db(&pristine.join("db.sqlite"), scratch.path()).map_err(|e| e.to_string())?;
            w.boot()
        };
        restore(&mut w)?;
        // a boot itself rewrites some built-in entries (start-up migrations), so the pre-state is
        // re-observed after every restore
        let mut pre = w.observe().map_err(|e| format!("observe {e:?}"))?;
        let mut g = Rng::stream(plan.seed, "points");
        let pts = points_to_try(n, cfg.max_points, &mut g);
        let mut gen = 1u64;
        for k in pts {
            let fired = Rc::new(RefCell::new(None::<&'static str>));
            let f2 = fired.clone();
            vh::reset_storage_count();
            vh::set_storage_callback(Some(Box::new(move |kind, idx| {
                if idx == k && kind != "committed" {
                    *f2.borrow_mut() = Some(kind);
                    return Err(OperationError::SqliteError);
                }
                Ok(())
            })));
            let r = w.run_txn(&cfg.kind, 0);
            vh::set_storage_callback(None);
            out.events_run += 1;
            let Some(kind) = *fired.borrow() else {
                // the point was not reached (the run took a shorter path): restore if it committed
                if r.is_ok() {
                    restore(&mut w)?;
                    pre = w.observe().map_err(|e| format!("observe {e:?}"))?;
                }
                continue;
            };
            out.fault(if kind == "commit" { "commit_error" } else { "stmt_error" });
            let ph = phase(k, commit_at, kind);
            if r.is_ok() {
                // a failed storage call must fail the transaction
                out.violate("C04", "failed-storage-call-reported-success", &format!("{:?}: commit reported success although {ph} failed", cfg.kind), format!("{:?}: storage call {k}/{n} ({ph}) failed but the transaction reported success", cfg.kind), k as usize);
                restore(&mut w)?;
                pre = w.observe().map_err(|e| format!("observe {e:?}"))?;
                continue;
            }
            let now = w.observe().map_err(|e| format!("observe {e:?}"))?;
            let d = diff_observed(&pre, &now);
            out.states.push(fnv64(format!("{:?}{ph}{}", cfg.kind, d.len()).as_bytes()) ^ k);
            if !d.is_empty() {
                for (what, detail) in &d {
                    let sig = format!("{:?}: {what} visible after failure of {ph}", cfg.kind);
                    if !out.violations.iter().any(|v| v.signature == sig) {
                        out.violate("C04", "failed-transaction-left-trace", &sig, format!("{:?}: storage call {k}/{n} ({ph}) failed, commit returned {r:?}, yet readers now see a changed {what}: {detail}", cfg.kind), k as usize);
                    }
                }
                restore(&mut w)?;
                pre = w.observe().map_err(|e| format!("observe {e:?}"))?;
                continue;
            }
            // a following ordinary write must succeed and commit
            gen += 1;
            let follow = w.run_txn(&Kind::ModifyEntry, gen);
            if follow.is_err() {
                let sig = format!("{:?}: next write fails after failure of {ph}", cfg.kind);
                if !out.violations.iter().any(|v| v.signature == sig) {
                    out.violate("C04", "server-unusable-after-failed-transaction", &sig, format!("{:?}: after storage call {k}/{n} ({ph}) failed, an ordinary write returns {follow:?}", cfg.kind), k as usize);
                }
            }
            restore(&mut w)?;
            pre = w.observe().map_err(|e| format!("observe {e:?}"))?;
        }
        // abandoned transactions: operation done, dropped without commit
        {
            w.t += 1;
            let ct = w.ct();
            let idms = &w.idm.as_ref().expect("booted").idms;
            if let Ok(mut pw) = block(idms.proxy_write(ct)) {
                let _ = pw.qs_write.internal_create(vec![person(uuid_for(1, 900), "abandoned")]);
                let _ = pw.qs_write.set_domain_display_name("Abandoned");
                let _ = pw.qs_write.internal_create(vec![acp(uuid_for(5, 900), "abandonedacp")]);
                drop(pw);
            }
            out.fault("txn_abandon");
            let now = w.observe().map_err(|e| format!("observe {e:?}"))?;
            for (what, detail) in diff_observed(&pre, &now) {
                out.violate("C04", "abandoned-transaction-left-trace", &format!("abandoned transaction: {what} visible"), format!("a transaction dropped without commit changed {what}: {detail}"), 0);
            }
            // and after restart
            w.boot()?;
            let now = w.observe().map_err(|e| format!("observe {e:?}"))?.user_entries_only();
            for (what, detail) in diff_observed(&pre.clone().user_entries_only(), &now) {
                out.violate("C04", "state-after-restart-differs", &format!("after restart: {what} differs from pre-state"), format!("after failed/abandoned transactions and a restart {what} differs: {detail}"), 0);
            }
        }
        Ok(())
    })();
    vh::set_storage_callback(None);
    vh::set_pause_callback(None);
    crate::entropy::swap_stream(None);
    if let Err(e) = r {
        out.harness_error = Some(e);
    }
    out.states.sort();
    out.states.dedup();
    out.chain(fnv64(format!("{:?}{:?}", out.violations, out.faults).as_bytes()));
    out.nontrivial = out.events_run >= 3;
    out
}

// ------------------------------------------------------------------------------------------------
// C05
// ------------------------------------------------------------------------------------------------

fn max_cid_secs(j: &J, best: &mut (u64, u32)) {
    match j {
        J::Object(m) => {
            if let (Some(s), Some(n)) = (m.get("secs").and_then(|x| x.as_u64()), m.get("nanos").and_then(|x| x.as_u64())) {
                if (s, n as u32) > *best {
                    *best = (s, n as u32);
                }
            }
            for v in m.values() {
                max_cid_secs(v, best);
            }
        }
        J::Array(a) => {
            for v in a {
                max_cid_secs(v, best);
            }
        }
        _ => {}
    }
}

struct CrashResult {
    k: u64,
    kind: &'static str,
    torn: bool,
    digest: Option<u64>,
    verify: Vec<String>,
    cid_ok: bool,
    boot_err: Option<String>,
    dump: Option<Dump>,
}

fn boot_snapshot(dir: &Path, arc: Option<usize>, ct: Duration) -> CrashResult {
    let mut res = CrashResult { k: 0, kind: "", torn: false, digest: None, verify: vec![], cid_ok: true, boot_err: None, dump: None };
    let ncfg = NodeCfg { path: Some(dir.join("db.sqlite")), pool: 4, arc, level: DOMAIN_TGT_LEVEL };
    // What recovery left on disk, read BEFORE the start-up migrations touch anything.
    let mut best = (0u64, 0u32);
    match crate::node::open_raw(&ncfg, ct) {
        Ok(raw) => {
            if let Ok(mut r) = block(raw.read()) {
                if let Ok(d) = Dump::take(&mut r) {
                    for (_, j) in d.entries.values() {
                        max_cid_secs(j, &mut best);
                    }
                    res.digest = Some(d.digest());
                    res.dump = Some(d);
                }
            }
        }
        Err(e) => {
            res.boot_err = Some(format!("open: {e:?}"));
            return res;
        }
    }
    // a process that died long ago is restarted with a clock that went BACKWARDS
    let qs = match boot_qs(&ncfg, ct) {
        Ok(q) => q,
        Err(e) => {
            res.boot_err = Some(format!("{e:?}"));
            return res;
        }
    };
    if let Ok(mut r) = block(qs.read()) {
        for e in vh::verify_read(&mut r).into_iter().filter_map(|x| x.err()) {
            res.verify.push(format!("{e:?}"));
        }
    }
    // first write after the restart
    if let Ok(mut w) = block(qs.write(ct)) {
        let (ts, _) = vh::write_txn_cid(&w);
        if (ts.as_secs(), ts.subsec_nanos()) <= best {
            res.cid_ok = false;
        }
        let _ = w.internal_modify_uuid(uuid_for(1, 2), &ModifyList::new_purge_and_set(Attribute::Description, Value::new_utf8s("after-crash")));
        let _ = w.commit();
    }
    res
}

pub fn execute_c05(plan: &Plan) -> Outcome {
    let mut out = Outcome::default();
    let cfg: Cfg = match serde_json::from_value(plan.cfg.clone()) {
        Ok(c) => c,
        Err(e) => return Outcome { harness_error: Some(format!("bad cfg {e}")), ..Default::default() },
    };
    let scratch = Scratch::new(&format!("st5-{:x}", plan.seed));
    let mut w = World { path: scratch.path().join("db.sqlite"), arc: cfg.arc, idm: None, t: 0 };
    crate::entropy::swap_stream(Some(Rng::new(plan.seed ^ 0xc05)));
    let r = (|| -> Result<(), String> {
        w.boot()?;
        build_prefix(&mut w, cfg.prefix, plan.seed)?;
        if cfg.kind == Kind::PurgeRecycled {
            w.t += 8 * 86400;
        }

        // dry count on a copy? No: one execution yields every snapshot. First learn n cheaply by
        // running the transaction on a throw-away copy of the files.
        let n = {
            let probe_dir = scratch.path().join("probe");
            w.idm = None;
            snapshot_db(&w.path, &probe_dir).map_err(|e| e.to_string())?;
            let mut pw = World { path: probe_dir.join("db.sqlite"), arc: cfg.arc, idm: None, t: w.t };
            pw.boot()?;
            vh::reset_storage_count();
            let r = pw.run_txn(&cfg.kind, 0);
            let n = vh::storage_count();
            if r.is_err() {
                return Err(format!("dry run failed {r:?}"));
            }
            drop(pw);
            let _ = std::fs::remove_dir_all(&probe_dir);
            w.boot()?;
            n
        };
        let pre = w.observe().map_err(|e| format!("{e:?}"))?;
        let wal_len_pre = std::fs::metadata(scratch.path().join("db.sqlite-wal")).map(|m| m.len()).unwrap_or(0);
        let mut g = Rng::stream(plan.seed, "points");
        let pts: BTreeSet<u64> = points_to_try(n, cfg.max_points, &mut g).into_iter().collect();
        let torn_pts: BTreeSet<u64> = pts.iter().filter(|_| g.chance(1, 3)).cloned().collect();
        let results: Rc<RefCell<Vec<CrashResult>>> = Rc::new(RefCell::new(vec![]));
        let res2 = results.clone();
        let db = w.path.clone();
        let snapdir = scratch.path().join("snap");
        let arc = cfg.arc;
        let ct_back = Duration::from_secs(crate::cluster::BASE_EPOCH.saturating_sub(1000)); // clock regression at restart
        let mut tg = Rng::stream(plan.seed, "torn");
        vh::reset_storage_count();
        let mut my_idx = 0u64;
        vh::set_storage_callback(Some(Box::new(move |kind, _idx| {
            // own counter: servers booted inside this callback also pass storage points (the hook's
            // counter keeps running, the callback itself is not re-entered)
            my_idx += 1;
            let idx = my_idx;
            if !pts.contains(&idx) {
                return Ok(());
            }
            // the process dies HERE: what is on disk is what a new process finds
            let _ = std::fs::remove_dir_all(&snapdir);
            if snapshot_db(&db, &snapdir).is_err() {
                return Ok(());
            }
            let saved = crate::entropy::swap_stream(Some(Rng::new(idx ^ 0x5a5a)));
            let mut r = boot_snapshot(&snapdir, arc, ct_back);
            r.k = idx;
            r.kind = kind;
            res2.borrow_mut().push(r);
            if torn_pts.contains(&idx) {
                // death inside a write(): the WAL tail is cut at an arbitrary byte past the
                // pre-transaction length
                let _ = std::fs::remove_dir_all(&snapdir);
                if snapshot_db(&db, &snapdir).is_ok() {
                    let wal = snapdir.join("db.sqlite-wal");
                    if let Ok(m) = std::fs::metadata(&wal) {
                        if m.len() > wal_len_pre + 1 {
                            let cut = wal_len_pre + 1 + tg.below(m.len() - wal_len_pre - 1);
                            if let Ok(f) = std::fs::OpenOptions::new().write(true).open(&wal) {
                                let _ = f.set_len(cut);
                            }
                            let mut r = boot_snapshot(&snapdir, arc, ct_back);
                            r.k = idx;
                            r.kind = kind;
                            r.torn = true;
                            res2.borrow_mut().push(r);
                        }
                    }
                }
            }
            crate::entropy::swap_stream(saved);
            Ok(())
        })));
        let txn = w.run_txn(&cfg.kind, 0);
        vh::set_storage_callback(None);
        if txn.is_err() {
            return Err(format!("transaction under test failed without faults: {txn:?}"));
        }
        let post = w.observe().map_err(|e| format!("{e:?}"))?;
        if pre.entries == post.entries {
            out.probe("transaction without effect on stored entries");
        }
        let results = std::mem::take(&mut *results.borrow_mut());
        let (mut n_pre, mut n_post) = (0u64, 0u64);
        for r in &results {
            out.events_run += 1;
            out.fault(if r.torn { "torn_wal_tail" } else { "crash_in_commit" });
            let at = format!("{}{}", if r.kind == "committed" { "after COMMIT returned" } else if r.kind == "commit" { "at COMMIT" } else { "at a statement" }, if r.torn { " (torn WAL tail)" } else { "" });
            let mut pending: Vec<(String, String, String)> = vec![];
            let mut bad = |oracle: &str, sig: String, msg: String| pending.push((oracle.to_string(), sig, msg));
            if let Some(e) = &r.boot_err {
                let k = r.k;
                out.violate("C05", "restart-fails", &format!("{:?}: restart fails after death {at}", cfg.kind), format!("{:?}: death at storage call {k}/{n} {at}: restart fails with {e}", cfg.kind), k as usize);
                continue;
            }
            match r.digest {
                Some(d) if d == pre.entries => n_pre += 1,
                Some(d) if d == post.entries => n_post += 1,
                _ => {
                    let detail = r.dump.as_ref().map(|d| format!("vs pre: {:?}; vs post: {:?}", pre.dump.diff(d), post.dump.diff(d))).unwrap_or_default();
                    bad("recovered-state-is-a-mixture", format!("{:?}: neither pre- nor post-state after death {at}", cfg.kind), format!("{:?}: death at storage call {}/{n} {at}: the restarted server holds neither the pre- nor the post-state: {detail}", cfg.kind, r.k));
                }
            }
            if r.kind == "committed" && !r.torn && r.digest != Some(post.entries) {
                bad("acknowledged-commit-lost", format!("{:?}: committed transaction lost", cfg.kind), format!("{:?}: COMMIT had returned, yet after death the post-state is not there", cfg.kind));
            }
            if !r.verify.is_empty() {
                bad("restarted-server-fails-consistency-check", format!("{:?}: verify() reports {} after death {at}", cfg.kind, r.verify[0].chars().take(32).collect::<String>()), format!("{:?}: death at storage call {}/{n} {at}: verify() reports {:?}", cfg.kind, r.k, r.verify));
            }
            if !r.cid_ok {
                bad("change-id-not-greater-after-restart", format!("{:?}: change id after restart not greater", cfg.kind), format!("{:?}: death at storage call {}/{n} {at}: the first write after restart (clock set back) got a change id not greater than one already stored", cfg.kind, r.k));
            }
            drop(bad);
            for (oracle, sig, msg) in pending {
                if !out.violations.iter().any(|v| v.signature == sig) {
                    out.violate("C05", &oracle, &sig, msg, r.k as usize);
                }
            }
            out.states.push(fnv64(format!("{:?}{}{}{:?}", cfg.kind, r.kind, r.torn, r.digest == Some(pre.entries)).as_bytes()) ^ r.k);
        }
        for _ in 0..n_pre {
            out.probe("recovered to pre-state");
        }
        for _ in 0..n_post {
            out.probe("recovered to post-state");
        }
        out.probe0("recovered to pre-state");
        out.probe0("recovered to post-state");
        Ok(())
    })();
    vh::set_storage_callback(None);
    crate::entropy::swap_stream(None);
    if let Err(e) = r {
        out.harness_error = Some(e);
    }
    out.states.sort();
    out.states.dedup();
    out.chain(fnv64(format!("{:?}{:?}{:?}", out.violations, out.faults, out.probes).as_bytes()));
    out.nontrivial = out.events_run >= 3;
    out
}

const KINDS: [Kind; 11] = [Kind::BatchCreate, Kind::CreateKeyObject, Kind::CreatePerson, Kind::CreateGroupWithMembers, Kind::ModifyEntry, Kind::DeleteWithReferences, Kind::CreateAcp, Kind::DomainDisplayName, Kind::CreateOauth2Client, Kind::PurgeRecycled, Kind::Reindex];

pub struct StorageScenario {
    id: &'static str,
}

impl Scenario for StorageScenario {
    fn property(&self) -> &'static str {
        self.id
    }
    fn engine(&self) -> &'static str {
        "E2 storage"
    }
    fn level(&self) -> &'static str {
        "fault_enumeration"
    }
    fn budget(&self, tier: Tier) -> Budget {
        match tier {
            Tier::Quick => Budget { runs: 20, wall_cap_s: 330 },
            Tier::Thorough => Budget { runs: 11 * 20, wall_cap_s: 1700 },
        }
    }
    fn generate(&self, seed: u64, tier: Tier) -> Plan {
        // run index → transaction kind (all kinds covered), prefix length and cache knob from the seed
        let i = seed & 0xffff_ffff;
        let mut k = Rng::stream(seed, "knobs");
        let kinds: Vec<Kind> = if self.id == "C05" { KINDS.iter().filter(|k| **k != Kind::Reindex || tier == Tier::Thorough).cloned().collect() } else { KINDS.iter().filter(|k| **k != Kind::Reindex || tier == Tier::Thorough).cloned().collect() };
        let kind = kinds[(i as usize) % kinds.len()].clone();
        let cfg = Cfg { kind, prefix: k.below(if tier == Tier::Quick { 6 } else { 24 }) as u32, arc: if k.chance(1, 2) { Some(*k.pick(&[4usize, 64])) } else { None }, max_points: if tier == Tier::Quick { if self.id == "C05" { 110 } else { 160 } } else { 600 } };
        Plan { property: self.id.into(), seed, cfg: serde_json::to_value(&cfg).expect("json"), events: vec![json!({"id": 1, "op": "enumerate every storage point of the transaction in cfg.kind"})] }
    }
    fn execute(&self, plan: &Plan) -> Outcome {
        if self.id == "C04" {
            execute_c04(plan)
        } else {
            execute_c05(plan)
        }
    }
    fn droppable(&self, _ev: &J) -> bool {
        false
    }
    fn rule(&self) -> String {
        if self.id == "C04" {
            "A run = one transaction kind (entry create / group with member-of fan-out / modify / delete with references / access-control profile / domain display name / OAuth2 client through the IDM proxy / purge / reindex / batch create of 24 entries and their group / key object) after a seeded prefix history on a file-backed server. A dry run counts the storage calls N (hook H2: every statement of the write transaction, and COMMIT); then the transaction is repeated with call k failing, for every k (sampled above the cap), the live server is observed (canonical entry dump, domain display name, access-control lists, OAuth2 client lookup, key objects loaded in a reader's key providers) and must equal the pre-state; a following ordinary write must commit; abandoned transactions and a final restart are checked too. evaluations = runs; distinct_nontrivial = distinct (kind, phase, outcome, k) digests.".into()
        } else {
            "A run = one transaction kind after a seeded prefix history on a file-backed server. At every storage call k of the transaction (hook H2; sampled above the cap) the database file and WAL are copied as a dying process would leave them (one third also with the WAL tail cut at a random byte past its pre-transaction length) and a new server is booted on the copy with its clock set back: its canonical dump must equal the whole pre-state or the whole post-state, verify() must be empty, a copy taken after COMMIT returned must hold the post-state, and its first write must carry a change id greater than every one stored. distinct_nontrivial = distinct (kind, point kind, torn, recovered side, k) digests.".into()
        }
    }
    fn components(&self) -> J {
        json!({"real": ["kanidmd_lib write path: QueryServerWriteTransaction, IdmServerProxyWriteTransaction commit, backend, ARC caches, bundled SQLite in WAL mode on /dev/shm files", "production start-up path on the recovered files"], "stub": ["failure / death injected at hook H2 (every statement of a write transaction, COMMIT)", "wall clock", "OS entropy"], "not_run": ["power loss (lost or reordered unsynced pages)", "crash inside a SQLite checkpoint"]})
    }
    fn assumptions(&self) -> Vec<String> {
        vec!["crash = process death: the files as left by the last completed storage call (plus an optionally torn WAL tail); SQLite's own recovery is trusted".into(), "a failed storage call is modelled as the call returning an error before reaching SQLite".into(), "storage points above the per-run cap are sampled (first 40, last 40, random middle)".into()]
    }
}

pub fn scenarios() -> Vec<Box<dyn Scenario>> {
    vec![Box::new(StorageScenario { id: "C04" }), Box::new(StorageScenario { id: "C05" })]
}
