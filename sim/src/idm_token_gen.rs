// ---- plan generation + scenario objects (included into idm_token.rs) ------------------------------

const WORDS: [&str; 12] = ["orchid", "lantern", "pelt", "quartz", "bramble", "fjord", "mosaic", "tundra", "velvet", "cobalt", "sextant", "gazebo"];

fn gen_pw(r: &mut Rng) -> String {
    format!("Kv{:05}-{}-{:06}-{}-{:03}", r.below(100_000), r.pick(&WORDS), r.below(1_000_000), r.pick(&WORDS), r.below(1000))
}

#[derive(Clone)]
enum Lazy {
    Op(Op),
    /// the cred step of a pending auth: the password is resolved when the step is emitted
    Cred { slot: u64, p: usize, wrong: bool, privileged: bool, reauth: bool },
}

#[derive(Clone)]
struct GTok {
    slot: u64,
    p: Option<usize>,
    api: bool,
    login: bool,
    /// has a login session (destroy / oauth2 parent candidates)
    sess: bool,
    /// can be re-authenticated (non-privileged password login of a person)
    capable: bool,
    /// estimated time at which the token expires
    dies: u64,
}

struct Gen {
    r: Rng,
    cfg: Cfg,
    focus: &'static str,
    t: u64,
    id: u64,
    evs: Vec<J>,
    next_slot: u64,
    next_cu: u64,
    next_o: u64,
    next_ls: u64,
    pw: Vec<Option<String>>,
    unixpw: Vec<Option<String>>,
    toks: Vec<GTok>,
    queued: u64,
    pol_sess: u64,
    pol_priv: u64,
    marks: Vec<u64>,
    threads: Vec<std::collections::VecDeque<Lazy>>,
    deleted: Vec<AcctRef>,
    prompt: bool,
    /// next steps follow each other within a second or two
    tight: bool,
    cu_pending: BTreeMap<u64, (usize, Option<String>)>,
    svc_pw: Vec<bool>,
    generated: Vec<bool>,
    /// fewer multi-hour jumps (tokens live long enough to be re-authenticated and expire in view)
    calm: bool,
}

impl Gen {
    fn advance(&mut self) {
        if self.tight {
            self.t += 1 + self.r.below(2);
            return;
        }
        let mut c = self.r.below(1000);
        if self.calm && c >= 970 && self.r.chance(3, 4) {
            c = self.r.below(900);
        }
        let mut future: Vec<u64> = self.marks.iter().copied().filter(|m| *m > self.t).collect();
        future.sort_unstable();
        future.dedup();
        future.truncate(6);
        let nt = if c < 560 {
            self.t + 1 + self.r.below(4)
        } else if c < 800 && !future.is_empty() {
            // land exactly on (or one second around) one of the nearest interesting instants
            *self.r.pick(&future)
        } else if c < 900 {
            self.t + 5 + self.r.below(295)
        } else if c < 970 {
            self.t + 300 + self.r.below(3600)
        } else if c < 994 {
            self.t + 3600 + self.r.below(90_000)
        } else {
            self.t + 86_400 + self.r.below(8 * 86_400)
        };
        self.t = nt.max(self.t + 1);
    }

    fn mark3(&mut self, x: u64) {
        self.marks.push(x.saturating_sub(1));
        self.marks.push(x);
        self.marks.push(x + 1);
    }

    fn emit(&mut self, op: Op) {
        self.advance();
        self.id += 1;
        // shadow bookkeeping (only to bias later choices; the executor keeps the real ledger)
        match &op {
            Op::CuSetPw { .. } | Op::CuDelPrimary { .. } => {}
            Op::SetPolicy { sess, privx } => {
                self.pol_sess = *sess as u64;
                self.pol_priv = *privx as u64;
            }
            Op::Deliver { .. } => self.queued = self.queued.saturating_sub(1),
            Op::DeliverAll | Op::Restart => self.queued = 0,
            Op::ApiIssue { slot, exp, .. } => {
                self.toks.push(GTok { slot: *slot, p: None, api: true, login: false, sess: false, capable: false, dies: u64::MAX });
                let t = self.t;
                self.mark3(t + GRACE);
                if let Some(e) = exp {
                    self.mark3(*e);
                }
            }
            Op::AnonLogin { slot } => {
                self.toks.push(GTok { slot: *slot, p: None, api: false, login: false, sess: false, capable: false, dies: u64::MAX });
                let t = self.t;
                self.mark3(t + self.pol_sess);
            }
            Op::SetValidity { from, to, .. } => {
                if let Some(f) = from {
                    self.mark3(*f);
                }
                if let Some(x) = to {
                    self.mark3(*x);
                }
            }
            Op::O2Grant { .. } => {
                let t = self.t;
                self.mark3(t + GRACE);
            }
            _ => {}
        }
        let mut v = serde_json::to_value(&op).expect("json");
        v["id"] = json!(self.id);
        v["t"] = json!(self.t);
        self.evs.push(v);
    }

    fn emit_lazy(&mut self, l: Lazy) {
        match l {
            Lazy::Op(op) => {
                // the shadow password follows the credential-update steps
                match &op {
                    Op::CuSetPw { pw, cu } => {
                        if let Some(p) = self.cu_person(*cu) {
                            self.cu_pending.insert(*cu, (p, Some(pw.clone())));
                        }
                    }
                    Op::CuDelPrimary { cu } => {
                        if let Some(p) = self.cu_person(*cu) {
                            self.cu_pending.insert(*cu, (p, None));
                        }
                    }
                    Op::CuCommit { cu } => {
                        // deleting the only credential is refused at commit; a new password sticks
                        if let Some((p, Some(pw))) = self.cu_pending.remove(cu) {
                            self.pw[p] = Some(pw);
                            self.generated[p] = false;
                        }
                    }
                    Op::CuCancel { cu } => {
                        self.cu_pending.remove(cu);
                    }
                    Op::Recover { p, pw } => {
                        self.pw[*p] = Some(pw.clone());
                        self.generated[*p] = true;
                    }
                    Op::SvcGenPw { s } => self.svc_pw[*s] = true,
                    _ => {}
                }
                self.emit(op)
            }
            Lazy::Cred { slot, p, wrong, privileged, reauth } => {
                let pw = match (&self.pw[p], wrong) {
                    (Some(x), false) => x.clone(),
                    _ => gen_pw(&mut self.r),
                };
                let good = !wrong && self.pw[p].is_some();
                self.emit(Op::LoginCred { slot, pw });
                if good {
                    let t = self.t;
                    let mut dies = u64::MAX;
                    if reauth {
                        self.mark3(t + self.pol_priv.min(PRIV_MAX));
                    } else {
                        self.queued += 1;
                        self.mark3(t + GRACE);
                        let life = if privileged || self.generated[p] { self.pol_sess.min(PRIV_MAX) } else { self.pol_sess };
                        self.mark3(t + life);
                        dies = t + life;
                    }
                    let capable = !reauth && !privileged && !self.generated[p];
                    self.toks.push(GTok { slot, p: Some(p), api: false, login: !reauth, sess: true, capable, dies });
                    if self.prompt && !reauth {
                        self.emit(Op::Deliver { k: 0 });
                    }
                }
            }
        }
    }

    fn cu_person(&self, cu: u64) -> Option<usize> {
        self.evs.iter().rev().find_map(|e| if e["op"] == "CuBegin" && e["cu"] == json!(cu) { e["p"].as_u64().map(|x| x as usize) } else { None })
    }

    fn spawn(&mut self, items: Vec<Lazy>, adjacent: bool) {
        if adjacent {
            for (n, i) in items.into_iter().enumerate() {
                self.tight = n > 0;
                self.emit_lazy(i);
            }
            self.tight = false;
        } else {
            self.threads.push(items.into_iter().collect());
        }
    }

    fn person(&mut self, want_pw: bool) -> usize {
        let with: Vec<usize> = (0..self.cfg.persons).filter(|p| self.pw[*p].is_some()).collect();
        if want_pw && !with.is_empty() && self.r.chance(9, 10) {
            *self.r.pick(&with)
        } else {
            self.r.below(self.cfg.persons as u64) as usize
        }
    }

    fn acct(&mut self) -> AcctRef {
        if self.cfg.svcs > 0 && self.r.chance(1, 3) {
            AcctRef { svc: true, i: self.r.below(self.cfg.svcs as u64) as usize }
        } else {
            AcctRef { svc: false, i: self.r.below(self.cfg.persons as u64) as usize }
        }
    }

    fn slot(&mut self) -> u64 {
        self.next_slot += 1;
        self.next_slot
    }

    fn new_op(&mut self, w: &[u32; 20]) {
        let split = self.r.chance(1, 4);
        let logins: Vec<GTok> = self.toks.iter().filter(|t| t.sess).cloned().collect();
        let apis: Vec<GTok> = self.toks.iter().filter(|t| t.api).cloned().collect();
        match self.r.pick_weighted(w) {
            0 => {
                // set / replace the primary password through a credential-update session
                let p = self.person(false);
                self.next_cu += 1;
                let cu = self.next_cu;
                let pw = gen_pw(&mut self.r);
                self.spawn(vec![Lazy::Op(Op::CuBegin { cu, p }), Lazy::Op(Op::CuSetPw { cu, pw }), Lazy::Op(Op::CuCommit { cu })], !split);
            }
            1 => {
                // other ways a primary credential goes away
                match self.r.below(8) {
                    0..=3 => {
                        let p = self.person(true);
                        let pw = gen_pw(&mut self.r);
                        self.emit_lazy(Lazy::Op(Op::Recover { p, pw }));
                    }
                    4 | 5 if self.cfg.svcs > 0 => {
                        let s = self.r.below(self.cfg.svcs as u64) as usize;
                        self.emit_lazy(Lazy::Op(Op::SvcGenPw { s }));
                    }
                    _ => {
                        // deleting the only credential (refused at commit) or a cancelled session
                        let p = self.person(true);
                        self.next_cu += 1;
                        let cu = self.next_cu;
                        let last = if self.r.chance(1, 3) { Op::CuCancel { cu } } else { Op::CuCommit { cu } };
                        self.spawn(vec![Lazy::Op(Op::CuBegin { cu, p }), Lazy::Op(Op::CuDelPrimary { cu }), Lazy::Op(last)], !split);
                    }
                }
            }
            2 => {
                let svc_ready: Vec<usize> = (0..self.cfg.svcs).filter(|s| self.svc_pw[*s]).collect();
                if !svc_ready.is_empty() && self.r.chance(1, 5) {
                    // service account password login (generated password)
                    let s = *self.r.pick(&svc_ready);
                    let slot = self.slot();
                    let privileged = self.r.chance(1, 2);
                    self.tight = false;
                    self.emit(Op::SvcLoginBegin { slot, s, privileged });
                    self.tight = true;
                    self.emit(Op::LoginCred { slot, pw: GENERATED.to_string() });
                    self.tight = false;
                    let t = self.t;
                    self.queued += 1;
                    self.mark3(t + GRACE);
                    self.mark3(t + PRIV_MAX);
                    self.toks.push(GTok { slot, p: None, api: false, login: false, sess: true, capable: false, dies: t + PRIV_MAX });
                    return;
                }
                let p = self.person(true);
                let slot = self.slot();
                let privileged = self.r.chance(2, 5);
                let wrong = self.r.chance(1, 16);
                if self.pw[p].is_some() && self.r.chance(if self.focus == "credrm" { 1 } else { 0 } + 1, 10) {
                    // the credential is replaced between the first and the last step of a login:
                    // the auth session still holds (and accepts) the old credential
                    let old = self.pw[p].clone().unwrap_or_default();
                    self.emit(Op::LoginBegin { slot, p, privileged });
                    self.tight = true;
                    if self.r.chance(1, 2) {
                        let pw = gen_pw(&mut self.r);
                        self.emit_lazy(Lazy::Op(Op::Recover { p, pw }));
                    } else {
                        self.next_cu += 1;
                        let cu = self.next_cu;
                        let pw = gen_pw(&mut self.r);
                        self.emit_lazy(Lazy::Op(Op::CuBegin { cu, p }));
                        self.emit_lazy(Lazy::Op(Op::CuSetPw { cu, pw }));
                        self.emit_lazy(Lazy::Op(Op::CuCommit { cu }));
                    }
                    self.emit(Op::LoginCred { slot, pw: old });
                    self.tight = false;
                    let t = self.t;
                    self.queued += 1;
                    self.mark3(t + GRACE);
                    self.toks.push(GTok { slot, p: Some(p), api: false, login: true, sess: true, capable: false, dies: t + self.pol_sess });
                    return;
                }
                self.spawn(vec![Lazy::Op(Op::LoginBegin { slot, p, privileged }), Lazy::Cred { slot, p, wrong, privileged, reauth: false }], !split);
            }
            3 => {
                let slot = self.slot();
                self.emit(Op::AnonLogin { slot });
            }
            4 => {
                // re-authentication of an earlier login
                let all: Vec<GTok> = logins.iter().filter(|t| t.login && t.p.is_some()).cloned().collect();
                let good: Vec<GTok> = all.iter().filter(|t| t.capable && self.t + 2 < t.dies).cloned().collect();
                let cands = if !good.is_empty() && self.r.chance(9, 10) { good } else { all };
                if let Some(t) = (!cands.is_empty()).then(|| self.r.pick(&cands).clone()) {
                    // re-authentication needs the session record: usually make sure it is there
                    if self.queued > 0 && self.r.chance(3, 4) {
                        self.emit(Op::DeliverAll);
                    }
                    let slot = self.slot();
                    let rw = self.r.chance(3, 4);
                    let p = t.p.expect("login");
                    let wrong = self.r.chance(1, 20);
                    self.spawn(vec![Lazy::Op(Op::ReauthBegin { slot, from: t.slot, rw }), Lazy::Cred { slot, p, wrong, privileged: false, reauth: true }], !split);
                } else {
                    self.emit(Op::Present);
                }
            }
            5 => {
                let k = self.r.below(4);
                self.emit(Op::Deliver { k });
            }
            6 => self.emit(Op::DeliverAll),
            7 => self.emit(Op::Present),
            8 => {
                if let Some(t) = (!logins.is_empty()).then(|| self.r.pick(&logins).clone()) {
                    self.emit(Op::DestroySession { slot: t.slot });
                } else {
                    self.emit(Op::Present);
                }
            }
            9 => {
                if self.cfg.svcs > 0 {
                    let slot = self.slot();
                    let s = self.r.below(self.cfg.svcs as u64) as usize;
                    let span = if self.r.chance(1, 2) { 600 } else { 100_000 };
                    let exp = if self.r.chance(1, 2) { Some(self.t + 2 + self.r.below(span)) } else { None };
                    let (rw, compact) = (self.r.chance(1, 2), self.r.chance(1, 3));
                    self.emit(Op::ApiIssue { slot, s, rw, compact, exp });
                } else {
                    self.emit(Op::Present);
                }
            }
            10 => {
                if let Some(t) = (!apis.is_empty()).then(|| self.r.pick(&apis).clone()) {
                    self.emit(Op::ApiDestroy { slot: t.slot });
                } else {
                    self.emit(Op::Present);
                }
            }
            11 => {
                let a = self.acct();
                let t = self.t;
                let (from, to) = match self.r.below(5) {
                    0 => (None, None),
                    1 => (None, Some(t + 2 + self.r.below(900))),
                    2 => (Some(t + 2 + self.r.below(600)), None),
                    3 => (Some(t.saturating_sub(self.r.below(100))), Some(t + 2 + self.r.below(5000))),
                    _ => (None, Some(t.saturating_sub(1 + self.r.below(50)))),
                };
                self.emit(Op::SetValidity { a, from, to });
            }
            12 => {
                if !self.deleted.is_empty() && self.r.chance(3, 5) {
                    let i = self.r.below(self.deleted.len() as u64) as usize;
                    let a = self.deleted.remove(i);
                    self.emit(Op::Revive { a });
                } else {
                    let a = self.acct();
                    if !self.deleted.contains(&a) {
                        self.deleted.push(a);
                    }
                    self.emit(Op::Delete { a });
                }
            }
            13 => {
                let at = if self.r.chance(1, 2) { self.t } else { self.t + 1 + self.r.below(900) };
                self.emit(Op::KeyRotate { at });
            }
            14 => {
                if let Some(t) = (!self.toks.is_empty()).then(|| self.r.pick(&self.toks).clone()) {
                    self.emit(Op::KeyRevokeOf { slot: t.slot });
                } else {
                    self.emit(Op::Present);
                }
            }
            15 => {
                let sess = *self.r.pick(&[60u32, 299, 301, 600, 1800, 3600, 3601, 7200, 86_400, 864_000]);
                let privx = *self.r.pick(&[1u32, 30, 299, 300, 600, 900, 3599, 3600]);
                self.emit(Op::SetPolicy { sess, privx });
            }
            16 => {
                if self.cfg.file_backed {
                    if self.r.chance(1, 3) {
                        self.emit(Op::DeliverAll);
                    }
                    self.emit(Op::Restart);
                    self.threads.clear();
                } else {
                    self.emit(Op::Present);
                }
            }
            17 => {
                if self.cfg.nodes > 1 {
                    self.emit(Op::Pull);
                } else {
                    self.emit(Op::Present);
                }
            }
            18 => {
                // LDAP paths
                let p = self.person(false);
                let pick = if self.cfg.ldap_sessions && !self.toks.is_empty() && self.r.chance(1, 2) { 2 } else { self.r.below(4) };
                match pick {
                    0 => {
                        let pw = gen_pw(&mut self.r);
                        self.unixpw[p] = Some(pw.clone());
                        self.emit(Op::SetUnixPw { p, pw });
                    }
                    1 => self.emit(Op::LdapAnonBind),
                    2 if self.cfg.ldap_sessions && !self.toks.is_empty() => {
                        let t = self.r.pick(&self.toks).clone();
                        self.next_ls += 1;
                        self.emit(Op::LdapTokenBind { ls: self.next_ls, slot: t.slot });
                    }
                    _ => {
                        if self.unixpw[p].is_none() && self.r.chance(4, 5) {
                            let pw = gen_pw(&mut self.r);
                            self.unixpw[p] = Some(pw.clone());
                            self.emit(Op::SetUnixPw { p, pw });
                        }
                        let pw = self.unixpw[p].clone().unwrap_or_else(|| "not-the-password-000".into());
                        self.emit(Op::LdapBind { p, pw });
                    }
                }
            }
            _ => {
                if let Some(t) = (!logins.is_empty()).then(|| self.r.pick(&logins).clone()) {
                    self.next_o += 1;
                    let life = *self.r.pick(&[200u64, 900, 14_400]);
                    self.emit(Op::O2Grant { o: self.next_o, slot: t.slot, life });
                } else {
                    self.emit(Op::Present);
                }
            }
        }
    }
}

pub fn generate(property: &str, seed: u64, tier: Tier, focus: &'static str) -> Plan {
    let mut k = Rng::stream(seed, "tok-knobs");
    let cfg = Cfg {
        persons: 1 + k.below(3) as usize,
        svcs: 1 + k.below(2) as usize,
        nodes: if k.chance(1, 3) { 2 } else { 1 },
        file_backed: k.chance(1, 3),
        // the bound-connection path is part of C32's exploration only
        ldap_sessions: focus == "accept" && k.chance(1, 2),
    };
    let n_events = if tier == Tier::Quick { 30 + k.below(45) as usize } else { 30 + k.below(170) as usize };
    //            setpw del login anon reauth dlv dlvall present destroy apiI apiD valid del/rev rot rev pol restart pull ldap o2
    let mut w: [u32; 20] = [5, 3, 16, 2, 6, 12, 3, 12, 5, 5, 3, 4, 3, 2, 2, 3, 3, 8, 3, 3];
    match focus {
        "scope" => {
            w[2] = 20;
            w[4] = 14;
            w[15] = 6;
            w[9] = 6;
            w[18] = 5;
            w[5] = 16;
            w[1] = 1;
            w[12] = 1;
            w[14] = 1;
            w[19] = 0;
        }
        "accept" => {
            if cfg.ldap_sessions {
                w[18] = 7;
            }
        }
        "credrm" => {
            w[0] = 9;
            w[1] = 8;
            w[2] = 20;
            w[19] = 8;
            w[8] = 6;
            w[9] = 1;
            w[10] = 1;
            w[13] = 1;
            w[14] = 1;
            w[18] = 0;
        }
        _ => {}
    }
    // swarm: switch a few families off per run
    for i in [3usize, 9, 11, 12, 13, 14, 15, 18, 19] {
        if k.chance(1, 4) {
            w[i] = 0;
        }
    }
    let prompt = k.chance(1, 3);
    let mut g = Gen {
        r: Rng::stream(seed, "tok-events"),
        cfg: cfg.clone(),
        focus,
        t: 2,
        id: 0,
        evs: vec![],
        next_slot: 0,
        next_cu: 0,
        next_o: 0,
        next_ls: 0,
        pw: vec![None; cfg.persons],
        unixpw: vec![None; cfg.persons],
        toks: vec![],
        queued: 0,
        pol_sess: DEFAULT_AUTH_SESSION_EXPIRY as u64,
        pol_priv: DEFAULT_AUTH_PRIVILEGE_EXPIRY as u64,
        marks: vec![],
        threads: vec![],
        deleted: vec![],
        prompt,
        tight: false,
        cu_pending: BTreeMap::new(),
        svc_pw: vec![false; cfg.svcs],
        generated: vec![false; cfg.persons],
        calm: focus == "scope" || k.chance(1, 3),
    };
    let _ = g.focus;
    // every person starts by setting a password (ordinary, droppable events)
    for p in 0..cfg.persons {
        g.next_cu += 1;
        let cu = g.next_cu;
        let pw = gen_pw(&mut g.r);
        g.spawn(vec![Lazy::Op(Op::CuBegin { cu, p }), Lazy::Op(Op::CuSetPw { cu, pw }), Lazy::Op(Op::CuCommit { cu })], true);
    }
    while g.evs.len() < n_events {
        if !g.threads.is_empty() && g.r.chance(7, 10) {
            let i = g.r.below(g.threads.len() as u64) as usize;
            if let Some(l) = g.threads[i].pop_front() {
                g.tight = g.r.chance(2, 3);
                g.emit_lazy(l);
                g.tight = false;
            }
            if g.threads[i].is_empty() {
                g.threads.remove(i);
            }
            continue;
        }
        let mut ww = w;
        if g.queued > 0 {
            ww[5] += 6;
        }
        if g.toks.len() >= 14 {
            ww[2] = 1;
            ww[3] = 0;
            ww[4] = 1;
            ww[9] = 0;
        }
        g.new_op(&ww);
    }
    Plan { property: property.to_string(), seed, cfg: serde_json::to_value(&cfg).expect("json"), events: g.evs }
}

pub struct TokScenario {
    id: &'static str,
    focus: &'static str,
    quick_runs: u64,
    thorough_runs: u64,
    rule: &'static str,
}

impl Scenario for TokScenario {
    fn property(&self) -> &'static str {
        self.id
    }
    fn engine(&self) -> &'static str {
        "E5 idm/token"
    }
    fn budget(&self, tier: Tier) -> Budget {
        match tier {
            Tier::Quick => Budget { runs: self.quick_runs, wall_cap_s: 120 },
            Tier::Thorough => Budget { runs: self.thorough_runs, wall_cap_s: 1500 },
        }
    }
    fn generate(&self, seed: u64, tier: Tier) -> Plan {
        generate(self.id, seed, tier, self.focus)
    }
    fn execute(&self, plan: &Plan) -> Outcome {
        execute(plan)
    }
    fn rule(&self) -> String {
        format!(
            "{} A run = one seeded configuration (1-3 persons, 1-2 service accounts, 1 or 2 nodes, in-memory or file-backed, op families switched off at random) + an explicit timed event list executed against real IdmServer instances; every outstanding token is presented on every node after every event and, when the clock jumped, also before it. distinct_nontrivial = number of distinct abstract observation digests (per token: kind, accepted?, scope, in-grace, recorded, revoked, key revoked, expired, account exists, node; plus queue length); a run counts as non-trivial when it ran >=3 events and saw at least one acceptance and one rejection.",
            self.rule
        )
    }
    fn components(&self) -> J {
        json!({
            "real": ["kanidmd_lib IdmServer (auth sessions, reauth, credential-update sessions, token validation, service-account api tokens, LDAP bind/session validation, check_oauth2_account_uuid_valid)", "QueryServer + plugins (session consistency, refint) + key objects (domain ES256/HS256 keys, rotate/revoke)", "replication supplier/consumer (node 0 -> node 1)", "bundled SQLite (file-backed restart)", "compact_jwt"],
            "stub": ["delayed-action worker: the simulator owns the queue (deliver in any order / lose at restart), each delivery is the real process_delayedaction in its own write transaction", "replication transport: whole pull (ranges, supply, apply) executed as one event with JSON-encoded payloads", "OAuth2 grant: the Oauth2Session value is written directly on the account (the validity check used by introspect/refresh/userinfo, check_oauth2_account_uuid_valid, is the real one)", "wall clock (ct parameter)", "OS entropy (seeded stream)"],
            "not_run": ["HTTP/axum layer, cookies, TLS", "passkey / TOTP / backup-code logins (password-only credentials)", "certificate and OAuth2-trust identities", "OAuth2 token exchange/refresh endpoints"]
        })
    }
    fn assumptions(&self) -> Vec<String> {
        vec![
            "the ledger is the harness' own record of what it did and what kanidm reported as committed (delivered records, successful revocations, observed credential uuids); rules are one-sided: accepted => conditions".into(),
            "anonymous tokens have no session record by design and are exempt from the session conjunct".into(),
            "'expired' means now > expiry (the instant now == expiry is not judged); validity window is the closed interval".into(),
            "node 1 is judged against the ledger snapshot taken at its last successful pull".into(),
            "sampled, not exhaustive: a clean batch is evidence, not proof".into(),
        ]
    }
}

pub fn scenarios() -> Vec<Box<dyn Scenario>> {
    vec![
        Box::new(TokScenario {
            id: "C32",
            focus: "accept",
            quick_runs: 320,
            thorough_runs: 40_000,
            rule: "Random histories of password set/replace/delete through real credential-update sessions, split logins, anonymous logins, re-authentication, delayed/reordered/lost session records, session destroy, api-token issue/destroy (json and compact), validity-window edits, delete/revive, domain key rotation/revocation, policy edits, restart and replication, with the clock landing on and around grace/expiry/validity instants. Accepted => key not revoked, not expired, account exists and inside its window, and (session recorded with matching expiry and not revoked, or now < issued + 300 s); api tokens: own session present or inside grace. The same rule is also evaluated literally on the stored entry (db-rule).",
        }),
        Box::new(TokScenario {
            id: "C33",
            focus: "scope",
            quick_runs: 320,
            thorough_runs: 40_000,
            rule: "Same engine biased to privileged/non-privileged password logins of persons (ordinary and administrator-recovered, i.e. generated, passwords) and of service accounts (generated password), re-authentication (grant-read-write and verify-only) at random times, policy edits of session and privilege expiry, api tokens rw/ro, anonymous logins, LDAP password/anonymous binds. For every accepted presentation: scope ReadWrite => read-write api token, or now in [auth time, auth time + window) of the privileged login (window min(session expiry, 3600 s)) or rw re-authentication (window min(privilege expiry, 3600 s)) that produced the token; after each re-authentication token expiry <= the login's expiry.",
        }),
        Box::new(TokScenario {
            id: "C36",
            focus: "credrm",
            quick_runs: 320,
            thorough_runs: 40_000,
            rule: "Same engine biased to primary-credential replacement (credential-update commit, administrator recover_account, service-account password regeneration; deleting the only credential is refused by kanidm and is exercised as a refusal) interleaved with logins (incl. logins begun before and finished after the removal), late/lost session records, OAuth2 session values with a login session as parent, session destroy, clock steps across the grace window. At each commit that changes or removes the primary credential uuid c: every stored session with cred_id == c is revoked in that change; a record delivered later for c must not be live; tokens of recorded sessions of c are rejected from then on; an OAuth2 session whose parent is revoked or unrecorded is unusable (check_oauth2_account_uuid_valid) once now >= issued + 300 s.",
        }),
    ]
}
