//! kvsim — deterministic simulation harness for kanidm (see /verif/DESIGN.md).
#[macro_use]
extern crate tracing;
#[macro_use]
extern crate kanidmd_lib;

mod cluster;
mod driver;
mod dump;
mod entropy;
mod idm_access;
mod idm_auth;
mod idm_oauth;
mod idm_front;
mod idm_lock;
mod idm_reset;
mod idm_roles;
mod idm_token;
mod lifecycle;
mod media;
mod mirror;
mod rangeoracle;
mod node;
mod oracles;
mod rng;
mod search;
mod sessions;
mod storage;
mod txnsched;

use driver::{Scenario, Tier};

fn registry() -> Vec<Box<dyn Scenario>> {
    let mut v: Vec<Box<dyn Scenario>> = vec![];
    v.extend(cluster::scenarios());
    v.extend(search::scenarios());
    v.extend(storage::scenarios());
    v.extend(txnsched::scenarios());
    v.extend(idm_auth::scenarios());
    v.extend(idm_oauth::scenarios());
    v.extend(idm_roles::scenarios());
    v.extend(idm_reset::scenarios());
    v.extend(idm_lock::scenarios());
    v.extend(idm_front::scenarios());
    v.extend(idm_access::scenarios());
    v.extend(sessions::scenarios());
    v.extend(media::scenarios());
    v.extend(lifecycle::scenarios());
    v.extend(idm_token::scenarios());
    v
}

fn find(id: &str) -> Option<Box<dyn Scenario>> {
    registry().into_iter().find(|s| s.property() == id)
}

fn usage() -> ! {
    eprintln!("usage: kvsim check <Cxx> <quick|thorough> | replay <file> | worker … | determinism <Cxx> [n] | list");
    std::process::exit(2)
}

fn main() {
    let a: Vec<String> = std::env::args().collect();
    if a.len() < 2 {
        usage();
    }
    // Harness-side evaluators are self-tested against hand-computed cases on every start.
    if let Err(e) = rangeoracle::self_test() {
        println!("HARNESS-ERROR oracle self-test failed: {e}");
        std::process::exit(2);
    }
    // Fixed warm-up: boot one server under a fixed entropy stream so that everything a process
    // initialises lazily on first use is initialised identically in every process, before any run.
    // Runs then execute in forked children of this state (driver::run_isolated).
    if matches!(a[1].as_str(), "check" | "worker" | "replay" | "explore" | "determinism") {
        entropy::swap_stream(Some(rng::Rng::new(0x5eed_0001)));
        let ct = std::time::Duration::from_secs(cluster::BASE_EPOCH);
        let ok = node::boot_qs(&node::NodeCfg::mem(), ct).and_then(|qs| node::boot_idm(qs, ct)).is_ok();
        entropy::swap_stream(None);
        if !ok {
            println!("HARNESS-ERROR warm-up boot failed");
            std::process::exit(2);
        }
    }
    match a[1].as_str() {
        "list" => {
            for s in registry() {
                println!("{} {}", s.property(), s.engine());
            }
        }
        "check" => {
            if a.len() < 4 {
                usage();
            }
            let Some(sc) = find(&a[2]) else {
                eprintln!("unknown property {}", a[2]);
                std::process::exit(2)
            };
            std::process::exit(driver::check(sc.as_ref(), Tier::parse(&a[3])));
        }
        "worker" => {
            // worker <Cxx> <tier> <base> <start> <stride> <runs> <wall_cap_s>
            if a.len() < 9 {
                usage();
            }
            let Some(sc) = find(&a[2]) else { std::process::exit(2) };
            let p = |i: usize| a[i].parse::<u64>().unwrap_or(0);
            driver::worker(sc.as_ref(), Tier::parse(&a[3]), p(4), p(5), p(6), p(7), p(8));
        }
        "replay" => {
            if a.len() < 3 {
                usage();
            }
            let prop = match driver::load_replay(&a[2]) {
                Ok((plan, _)) => plan.property,
                Err(e) => {
                    eprintln!("{e}");
                    std::process::exit(2)
                }
            };
            let Some(sc) = find(&prop) else {
                eprintln!("unknown property {prop}");
                std::process::exit(2)
            };
            std::process::exit(driver::replay(sc.as_ref(), &a[2]));
        }
        "smoke" => {
            // boot a query server and an IDM server through the production path
            entropy::swap_stream(Some(rng::Rng::new(7)));
            let ct = std::time::Duration::from_secs(cluster::BASE_EPOCH);
            let qs = node::boot_qs(&node::NodeCfg::mem(), ct).expect("boot qs");
            let idm = node::boot_idm(qs, ct).expect("boot idm");
            let n = node::block(idm.idms.proxy_read()).map(|_| 1).unwrap_or(0);
            entropy::swap_stream(None);
            println!("smoke ok: qs + idm booted, proxy_read={n}, entropy draws={}", entropy::draws());
        }
        "explore" => {
            if a.len() < 4 {
                usage();
            }
            let Some(sc) = find(&a[2]) else { std::process::exit(2) };
            let n = a.get(4).and_then(|s| s.parse().ok()).unwrap_or(200);
            std::process::exit(driver::explore(sc.as_ref(), Tier::parse(&a[3]), n));
        }
        "determinism" => {
            if a.len() < 3 {
                usage();
            }
            let n = a.get(3).and_then(|s| s.parse().ok()).unwrap_or(32);
            let ids: Vec<String> = if a[2] == "all" { registry().iter().map(|s| s.property().to_string()).collect() } else { vec![a[2].clone()] };
            for id in ids {
                let Some(sc) = find(&id) else { std::process::exit(2) };
                match driver::determinism(sc.as_ref(), Tier::Quick, n) {
                    Ok(k) => println!("determinism {id}: {k} seeds x 2 processes x worker counts {{16,3}}: identical"),
                    Err(e) => {
                        println!("HARNESS-ERROR determinism {id}: {e}");
                        std::process::exit(2)
                    }
                }
            }
        }
        _ => usage(),
    }
}
