//! E3 — transaction interleaving (C06): everything one read transaction observes comes from a
//! single committed state, whatever writes commit concurrently. Thread-free ("nested") mode: at a
//! chosen pause point (hook H3) of the reader's snapshot acquisition the simulator runs a complete
//! writer transaction inline, or at a chosen pause point of the writer's commit publication it
//! runs a complete reader; plus readers held open across whole writer commits. One reader, one
//! writer, file-backed database, pool ≥ 2, optionally tiny ARC caches and cold caches.
use crate::driver::{Budget, Outcome, Plan, Scenario, Tier};
use crate::dump::ava_strings;
use crate::node::{block, boot_qs, poll_now, NodeCfg, Scratch};
use crate::rng::{fnv64, uuid_for, Rng};
use kanidmd_lib::entry::{Entry, EntryInit, EntryNew};
use kanidmd_lib::prelude::*;
use kanidmd_lib::verif_hooks as vh;
use serde::{Deserialize, Serialize};
use serde_json::{json, Value as J};
use std::cell::{Cell, RefCell};
use std::collections::BTreeSet;
use std::rc::Rc;

pub const READER_GAPS: [&str; 9] = ["qs_read:begin", "qs_read:after_schema", "arc_read:begin", "arc_read:after_entry_cache", "arc_read:after_db", "arc_read:after_idl_cache", "arc_read:after_name_cache", "arc_read:end", "qs_read:after_be"];
pub const WRITER_GAPS: [&str; 7] = ["qs_commit:before_publish", "arc_commit:before_db", "arc_commit:after_db", "arc_commit:after_name_cache", "arc_commit:after_idl_cache", "arc_commit:after_allids", "arc_commit:end"];

#[derive(Serialize, Deserialize, Clone, Debug)]
#[serde(tag = "op")]
pub enum Op {
    /// a plain writer transaction (next generation)
    Write,
    /// reader begins; `writes` complete writer transactions run inside the named gap of its read()
    ReadWithWriterAtGap { gap: String, writes: u32 },
    /// writer commits; a complete reader (begin, queries, end) runs inside the named gap of commit()
    WriteWithReaderAtGap { gap: String },
    /// reader begins, `writes` writers commit, then the reader queries (snapshot held across commits)
    ReadAcrossWrites { writes: u32 },
    Restart,
}

#[derive(Serialize, Deserialize, Clone, Debug)]
pub struct Cfg {
    pub arc: Option<usize>,
    pub pool: u32,
    pub extra_entries: u32,
}

fn gname(g: u64) -> String {
    format!("gen{g}")
}

fn grp() -> Uuid {
    uuid_for(2, 1)
}
fn per() -> Uuid {
    uuid_for(1, 1)
}

/// One generation-stamped writer transaction: renames the group, rewrites the member's description
/// and the domain display name together.
fn write_gen(w: &mut QueryServerWriteTransaction<'_>, g: u64) -> Result<(), OperationError> {
    w.internal_modify_uuid(grp(), &ModifyList::new_purge_and_set(Attribute::Name, Value::new_iname(&gname(g))))?;
    w.internal_modify_uuid(per(), &ModifyList::new_purge_and_set(Attribute::Description, Value::new_utf8s(&gname(g))))?;
    w.set_domain_display_name(&gname(g))
}

#[derive(Debug, Clone, PartialEq, Eq)]
struct Obs {
    /// (what was asked, generation it answered with; None = no answer)
    items: Vec<(&'static str, Option<u64>)>,
}

fn parse_gen(s: &str) -> Option<u64> {
    s.strip_prefix("gen").and_then(|x| x.parse().ok())
}

/// Everything the reader looks at, each mapped to the generation it belongs to.
fn observe(r: &mut QueryServerReadTransaction<'_>, latest: u64) -> Obs {
    let mut items: Vec<(&'static str, Option<u64>)> = vec![];
    // entry by uuid
    let by_uuid = r.internal_search_uuid(grp()).ok().and_then(|e| ava_strings(&e, Attribute::Name).first().and_then(|n| parse_gen(n)));
    items.push(("group name by uuid", by_uuid));
    let pdesc = r.internal_search_uuid(per()).ok().and_then(|e| ava_strings(&e, Attribute::Description).first().and_then(|n| parse_gen(n)));
    items.push(("member description by uuid", pdesc));
    // name lookup table: which generation's name resolves
    let lo = latest.saturating_sub(4);
    let mut res = None;
    for g in lo..=latest {
        if r.name_to_uuid(&gname(g)) == Ok(grp()) {
            res = Some(g);
        }
    }
    items.push(("name_to_uuid", res));
    // index search: which generation's name finds the group, and what name the found entry carries
    let mut found = None;
    let mut carried = None;
    for g in lo..=latest {
        if let Ok(v) = r.internal_search(filter!(f_eq(Attribute::Name, PartialValue::new_iname(&gname(g))))) {
            if let Some(e) = v.iter().find(|e| e.get_uuid() == grp()) {
                found = Some(g);
                carried = ava_strings(e, Attribute::Name).first().and_then(|n| parse_gen(n));
            }
        }
    }
    items.push(("indexed search by name", found));
    items.push(("name carried by the entry the search returned", carried));
    // full scan
    let scan = r.internal_search(filter!(f_pres(Attribute::Class))).ok().and_then(|v| v.iter().find(|e| e.get_uuid() == grp()).and_then(|e| ava_strings(e, Attribute::Name).first().and_then(|n| parse_gen(n))));
    items.push(("group name by full scan", scan));
    // server-wide setting
    items.push(("domain display name", parse_gen(r.get_domain_display_name())));
    Obs { items }
}

struct World {
    qs: QueryServer,
    gen: Rc<Cell<u64>>,
    t: Rc<Cell<u64>>,
    out: Outcome,
    step: usize,
}

fn ct_of(t: &Rc<Cell<u64>>) -> Duration {
    t.set(t.get() + 1);
    Duration::from_secs(crate::cluster::BASE_EPOCH + t.get())
}

impl World {
    fn judge(&mut self, what: &str, gapsig: &str, first: &Obs, second: &Obs, expect: Option<u64>) {
        let gens: BTreeSet<Option<u64>> = first.items.iter().map(|(_, g)| *g).collect();
        let step = self.step;
        if gens.len() > 1 || gens.contains(&None) {
            let which: Vec<String> = first.items.iter().map(|(k, g)| format!("{k}={}", g.map(|x| x.to_string()).unwrap_or_else(|| "none".into()))).collect();
            let kinds: BTreeSet<&str> = {
                // categorical: which families of observation disagree with the entry read by uuid
                let base = first.items[0].1;
                first.items.iter().filter(|(_, g)| *g != base).map(|(k, _)| *k).collect()
            };
            // storage-side observations (entries, indexes, lookups) vs server-wide settings
            let storage_mixed = kinds.iter().any(|k| *k != "domain display name");
            let settings_mixed = kinds.contains("domain display name");
            let sig = format!("{what}: one read transaction mixes generations; {gapsig}; {}", match (storage_mixed, settings_mixed) {
                (true, true) => "entries/indexes and settings disagree",
                (true, false) => "entries/indexes disagree among themselves",
                _ => "settings disagree with entries",
            });
            if !self.out.violations.iter().any(|v| v.signature == sig) {
                self.out.violate("C06", "read-sees-one-committed-state", &sig, format!("{what} ({gapsig}): observations of one read transaction: {}", which.join("; ")), step);
            }
        }
        if first != second {
            let sig = format!("{what}: repeated query differs; {gapsig}");
            if !self.out.violations.iter().any(|v| v.signature == sig) {
                self.out.violate("C06", "repeatable-read", &sig, format!("{what} ({gapsig}): first pass {first:?}, second pass {second:?}"), step);
            }
        }
        if let Some(g) = expect {
            // a reader that began before the writers must not see them (held snapshot)
            if gens.len() == 1 && !gens.contains(&Some(g)) {
                let sig = format!("{what}: held snapshot moved; {gapsig}");
                if !self.out.violations.iter().any(|v| v.signature == sig) {
                    self.out.violate("C06", "snapshot-held", &sig, format!("{what} ({gapsig}): reader began at generation {g} but observes {gens:?}"), step);
                }
            }
        }
        let h = fnv64(format!("{what}{gapsig}{first:?}").as_bytes());
        self.out.chain(h);
        self.out.states.push(fnv64(format!("{what}{gapsig}{:?}", gens).as_bytes()));
    }

    fn plain_write(&mut self) -> Result<(), OperationError> {
        let g = self.gen.get() + 1;
        let qs = self.qs.clone();
        let mut w = block(qs.write(ct_of(&self.t)))?;
        write_gen(&mut w, g)?;
        w.commit()?;
        self.gen.set(g);
        Ok(())
    }

    fn fresh_reader_sees_latest(&mut self) {
        let latest = self.gen.get();
        let qs = self.qs.clone();
        let obs = match block(qs.read()) {
            Ok(mut r) => Some((observe(&mut r, latest), observe(&mut r, latest))),
            Err(_) => None,
        };
        if let Some((o, o2)) = obs {
            self.judge("fresh reader", "after everything committed", &o, &o2, Some(latest));
        }
    }

    fn read_with_writer_at_gap(&mut self, gap: &str, writes: u32) {
        let fired = Rc::new(Cell::new(false));
        let (qs, gen, t, f2, gap_s) = (self.qs.clone(), self.gen.clone(), self.t.clone(), fired.clone(), gap.to_string());
        let errs: Rc<RefCell<Vec<String>>> = Rc::new(RefCell::new(vec![]));
        let e2 = errs.clone();
        vh::set_pause_callback(Some(Box::new(move |name| {
            if name != gap_s || f2.get() {
                return;
            }
            f2.set(true);
            for _ in 0..writes {
                let g = gen.get() + 1;
                // complete writer transaction, inline: tickets are free, so write() is ready at once
                match poll_now(qs.write(ct_of(&t))) {
                    Some(Ok(mut w)) => match write_gen(&mut w, g).and_then(|_| w.commit()) {
                        Ok(()) => gen.set(g),
                        Err(e) => e2.borrow_mut().push(format!("{e:?}")),
                    },
                    Some(Err(e)) => e2.borrow_mut().push(format!("write(): {e:?}")),
                    None => e2.borrow_mut().push("write() pending".into()),
                }
            }
        })));
        let qs_r = self.qs.clone();
        let r = block(qs_r.read());
        vh::set_pause_callback(None);
        if !errs.borrow().is_empty() {
            self.out.probe("nested writer could not run");
            return;
        }
        if !fired.get() {
            self.out.probe("gap not reached");
            return;
        }
        self.out.probe("writer committed inside a reader gap");
        let latest = self.gen.get();
        let obs = match r {
            Ok(mut r) => Some((observe(&mut r, latest), observe(&mut r, latest))),
            Err(_) => None,
        };
        if let Some((o, o2)) = obs {
            self.judge("reader with writer inside read()", &format!("writer at gap {gap}"), &o, &o2, None);
        }
    }

    fn write_with_reader_at_gap(&mut self, gap: &str) {
        let fired = Rc::new(Cell::new(false));
        let result: Rc<RefCell<Option<(Obs, Obs)>>> = Rc::new(RefCell::new(None));
        let (qs, gen, f2, gap_s, res2) = (self.qs.clone(), self.gen.clone(), fired.clone(), gap.to_string(), result.clone());
        let g = self.gen.get() + 1;
        let qs_w = self.qs.clone();
        let Ok(mut w) = block(qs_w.write(ct_of(&self.t))) else { return };
        if write_gen(&mut w, g).is_err() {
            return;
        }
        vh::set_pause_callback(Some(Box::new(move |name| {
            if name != gap_s || f2.get() {
                return;
            }
            f2.set(true);
            // complete reader inside the writer's commit (commit() is synchronous: not inside block_on)
            if let Ok(mut r) = block(qs.read()) {
                let latest = gen.get() + 1;
                let o = observe(&mut r, latest);
                let o2 = observe(&mut r, latest);
                *res2.borrow_mut() = Some((o, o2));
            }
        })));
        let c = w.commit();
        vh::set_pause_callback(None);
        if c.is_ok() {
            self.gen.set(g);
        }
        if !fired.get() {
            self.out.probe("gap not reached");
            return;
        }
        self.out.probe("reader ran inside a writer commit gap");
        let taken = result.borrow_mut().take();
        if let Some((o, o2)) = taken {
            self.judge("reader inside writer commit()", &format!("reader at gap {gap}"), &o, &o2, None);
        }
    }

    fn read_across_writes(&mut self, writes: u32) {
        let g0 = self.gen.get();
        let qs_r = self.qs.clone();
        let Ok(mut r) = block(qs_r.read()) else { return };
        // the reader exists; now whole writer transactions commit
        for _ in 0..writes {
            let g = self.gen.get() + 1;
            match Some(block(qs_r.write(ct_of(&self.t)))) {
                Some(Ok(mut w)) => {
                    if write_gen(&mut w, g).and_then(|_| w.commit()).is_ok() {
                        self.gen.set(g);
                    }
                }
                _ => {
                    self.out.probe("writer could not start beside an open reader");
                    return;
                }
            }
        }
        self.out.probe("reader held across writer commits");
        let latest = self.gen.get();
        let o = observe(&mut r, latest);
        let o2 = observe(&mut r, latest);
        drop(r);
        self.judge("reader held open across commits", "commits after begin", &o, &o2, Some(g0));
    }
}

pub fn generate(seed: u64, tier: Tier) -> Plan {
    let mut k = Rng::stream(seed, "knobs");
    let cfg = Cfg { arc: if k.chance(2, 3) { Some(*k.pick(&[4usize, 16, 2048])) } else { None }, pool: 2 + k.below(3) as u32, extra_entries: k.below(40) as u32 };
    let mut g = Rng::stream(seed, "workload");
    let n = if tier == Tier::Quick { 14 + g.below(10) } else { 20 + g.below(40) };
    let mut evs = vec![];
    for i in 0..n {
        let op = match g.below(10) {
            0 => Op::Write,
            1..=4 => Op::ReadWithWriterAtGap { gap: g.pick(&READER_GAPS).to_string(), writes: 1 + g.below(2) as u32 },
            5..=7 => Op::WriteWithReaderAtGap { gap: g.pick(&WRITER_GAPS).to_string() },
            8 => Op::ReadAcrossWrites { writes: 1 + g.below(3) as u32 },
            _ => Op::Restart,
        };
        let mut v = serde_json::to_value(&op).expect("json");
        v["id"] = json!(i + 1);
        evs.push(v);
    }
    Plan { property: "C06".into(), seed, cfg: serde_json::to_value(&cfg).expect("json"), events: evs }
}

pub fn execute(plan: &Plan) -> Outcome {
    let cfg: Cfg = match serde_json::from_value(plan.cfg.clone()) {
        Ok(c) => c,
        Err(e) => return Outcome { harness_error: Some(format!("bad cfg {e}")), ..Default::default() },
    };
    let scratch = Scratch::new(&format!("tx-{:x}", plan.seed));
    let path = scratch.path().join("t.db");
    let ncfg = NodeCfg { path: Some(path), pool: cfg.pool, arc: cfg.arc, level: DOMAIN_TGT_LEVEL };
    crate::entropy::swap_stream(Some(Rng::new(plan.seed ^ 0xc06)));
    let t = Rc::new(Cell::new(0u64));
    let qs = match boot_qs(&ncfg, ct_of(&t)) {
        Ok(q) => q,
        Err(e) => return Outcome { harness_error: Some(format!("boot {e:?}")), ..Default::default() },
    };
    let mut w = World { qs, gen: Rc::new(Cell::new(0)), t, out: Outcome::default(), step: 0 };
    // generation 0
    let setup = (|| -> Result<(), OperationError> {
        let mut wt = block(w.qs.write(ct_of(&w.t)))?;
        let p: Entry<EntryInit, EntryNew> = entry_init!(
            (Attribute::Class, EntryClass::Object.to_value()),
            (Attribute::Class, EntryClass::Account.to_value()),
            (Attribute::Class, EntryClass::Person.to_value()),
            (Attribute::Name, Value::new_iname("member1")),
            (Attribute::Uuid, Value::Uuid(per())),
            (Attribute::Description, Value::new_utf8s("gen0")),
            (Attribute::DisplayName, Value::new_utf8s("member1"))
        );
        let g: Entry<EntryInit, EntryNew> = entry_init!(
            (Attribute::Class, EntryClass::Object.to_value()),
            (Attribute::Class, EntryClass::Group.to_value()),
            (Attribute::Name, Value::new_iname("gen0")),
            (Attribute::Uuid, Value::Uuid(grp())),
            (Attribute::Member, Value::Refer(per()))
        );
        wt.internal_create(vec![p, g])?;
        for i in 0..cfg.extra_entries {
            let e: Entry<EntryInit, EntryNew> = entry_init!(
                (Attribute::Class, EntryClass::Object.to_value()),
                (Attribute::Class, EntryClass::Group.to_value()),
                (Attribute::Name, Value::new_iname(&format!("filler{i}"))),
                (Attribute::Uuid, Value::Uuid(uuid_for(2, 100 + i as u64)))
            );
            wt.internal_create(vec![e])?;
        }
        wt.set_domain_display_name("gen0")?;
        wt.commit()
    })();
    if let Err(e) = setup {
        return Outcome { harness_error: Some(format!("setup {e:?}")), ..Default::default() };
    }
    for p in ["writer committed inside a reader gap", "reader ran inside a writer commit gap", "reader held across writer commits", "gap not reached"] {
        w.out.probe0(p);
    }
    for (i, ev) in plan.events.iter().enumerate() {
        w.step = i;
        let id = ev.get("id").and_then(|x| x.as_u64()).unwrap_or(i as u64);
        crate::entropy::swap_stream(Some(Rng::new(plan.seed ^ id.wrapping_mul(0x9E37_79B9_7F4A_7C15))));
        let Ok(op) = serde_json::from_value::<Op>(ev.clone()) else { continue };
        w.out.events_run += 1;
        match op {
            Op::Write => {
                let _ = w.plain_write();
            }
            Op::ReadWithWriterAtGap { gap, writes } => w.read_with_writer_at_gap(&gap, writes),
            Op::WriteWithReaderAtGap { gap } => w.write_with_reader_at_gap(&gap),
            Op::ReadAcrossWrites { writes } => w.read_across_writes(writes),
            Op::Restart => {
                let (gen, t) = (w.gen.clone(), w.t.clone());
                let out = std::mem::take(&mut w.out);
                let step = w.step;
                drop(w);
                match boot_qs(&ncfg, ct_of(&t)) {
                    Ok(q) => {
                        w = World { qs: q, gen, t, out, step };
                        w.out.fault("restart_cold_caches");
                    }
                    Err(e) => return Outcome { harness_error: Some(format!("restart {e:?}")), ..Default::default() },
                }
            }
        }
        w.fresh_reader_sees_latest();
    }
    vh::set_pause_callback(None);
    crate::entropy::swap_stream(None);
    w.out.states.sort();
    w.out.states.dedup();
    w.out.nontrivial = w.out.events_run >= 3;
    w.out
}

pub struct TxnScenario;

impl Scenario for TxnScenario {
    fn property(&self) -> &'static str {
        "C06"
    }
    fn engine(&self) -> &'static str {
        "E3 txn-sched"
    }
    fn budget(&self, tier: Tier) -> Budget {
        match tier {
            Tier::Quick => Budget { runs: 240, wall_cap_s: 120 },
            Tier::Thorough => Budget { runs: 40_000, wall_cap_s: 1500 },
        }
    }
    fn generate(&self, seed: u64, tier: Tier) -> Plan {
        generate(seed, tier)
    }
    fn execute(&self, plan: &Plan) -> Outcome {
        execute(plan)
    }
    fn rule(&self) -> String {
        "A run = a file-backed server (pool 2–4, ARC target 4/16/2048/default, 0–40 filler entries) and 14–60 events: plain generation-stamped writer transactions (rename a group + rewrite its member + change the domain display name in one transaction), a reader whose read() is interrupted at one of 9 snapshot-acquisition pause points by 1–2 complete writer transactions, a writer whose commit() is interrupted at one of 7 publication pause points by a complete reader, readers held open across 1–3 commits, restarts (cold caches). Every reader reads the group by uuid, by name lookup, by indexed search, by full scan, the member, and the domain display name, twice. distinct_nontrivial = distinct (mode, gap, set of generations observed) digests. Schedules where both transactions are preempted more than once (true thread interleaving inside one gap) are not explored: one transaction is always atomic inside one gap of the other.".into()
    }
    fn components(&self) -> J {
        json!({"real": ["QueryServer::read / write / commit, BackendWriteTransaction::commit, IdlArcSqlite read/commit (ARC caches), SQLite WAL snapshot semantics (BEGIN DEFERRED), connection pool"], "stub": ["thread scheduling: nested execution at hook H3 pause points instead of OS threads", "wall clock", "OS entropy"], "not_run": ["interleavings with more than one preemption per transaction"]})
    }
    fn assumptions(&self) -> Vec<String> {
        vec!["a complete transaction of the other party runs atomically inside one pause point (covers every schedule in which one transaction fits inside one gap of the other)".into(), "pause points are the add-only hook sites of DESIGN.md §3 H3".into()]
    }
}

pub fn scenarios() -> Vec<Box<dyn Scenario>> {
    vec![Box::new(TxnScenario)]
}
