//! E5 — idm/auth engine: one real `IdmServer` (in-memory or file-backed, restartable) under a
//! simulated nanosecond clock. Accounts get their credentials through the real credential-update
//! session API (password, TOTP registration with the secret shown to the client, backup codes),
//! `recover_account` (generated password) and the `totp_import` path (arbitrary TOTP parameters).
//! Authentication steps go through the same sequence as `QueryServerReadV1::handle_auth`:
//! `idms.auth()` → `AuthEvent::from_message` → `expire_auth_sessions(ct)` → `auth(..)` → `commit()`.
//! Delayed actions (session records, backup-code removal, password upgrade) are delivered by
//! explicit events and are lost at a restart.
#[path = "idm_auth_rfc.rs"]
pub mod rfc;
#[path = "idm_auth_c27.rs"]
mod c27;
#[path = "idm_auth_c29.rs"]
mod c29;

use crate::driver::{Outcome, Scenario};
use crate::node::{block, boot_idm, boot_qs, poll_now, Idm, NodeCfg, Scratch};
use crate::rng::{fnv64, Rng};
use kanidm_proto::internal::TotpAlgo as ProtoAlgo;
use kanidm_proto::v1::{AuthAllowed, AuthIssueSession, AuthMech};
use kanidmd_lib::entry::{Entry, EntryInit, EntryNew};
use kanidmd_lib::idm::authentication::{AuthCredential, AuthState, AuthStep};
use kanidmd_lib::idm::credupdatesession::{InitCredentialUpdateEvent, MfaRegStateStatus};
use kanidmd_lib::idm::delayed::DelayedAction;
use kanidmd_lib::idm::event::AuthEvent;
use kanidmd_lib::prelude::*;
use rfc::Algo;
use std::collections::VecDeque;
use std::path::PathBuf;
use std::sync::OnceLock;

pub const K: u64 = 0x9E37_79B9_7F4A_7C15;
pub const NS: u64 = 1_000_000_000;

pub fn dur(t_ns: u64) -> Duration {
    Duration::new(t_ns / NS, (t_ns % NS) as u32)
}

pub fn self_test_once() -> Result<(), String> {
    static R: OnceLock<Result<(), String>> = OnceLock::new();
    R.get_or_init(rfc::self_test).clone()
}

/// A TOTP token as the harness knows it (from the plan for imported tokens, from the
/// registration status shown to the client for API-generated ones).
#[derive(Clone, Debug)]
pub struct Tok {
    pub label: String,
    pub secret: Vec<u8>,
    pub algo: Algo,
    pub digits: u32,
    pub step: u64,
}

impl Tok {
    pub fn code_at_counter(&self, c: u64) -> u32 {
        rfc::hotp(self.algo, &self.secret, c, self.digits)
    }
    pub fn counter(&self, t_ns: u64) -> u64 {
        rfc::counter(t_ns / NS, self.step)
    }
    /// The statement's acceptance set at time t: code of the step containing t and of the step before.
    pub fn model_accepts(&self, code: u32, t_ns: u64) -> bool {
        let c = self.counter(t_ns);
        code == self.code_at_counter(c) || (c >= 1 && code == self.code_at_counter(c - 1))
    }
    pub fn long_key(&self) -> bool {
        self.secret.len() > self.algo.block()
    }
    pub fn kanidm(&self) -> Option<kanidmd_lib::credential::totp::Totp> {
        use kanidmd_lib::credential::totp::{Totp, TotpAlgo, TotpDigits};
        let algo = match self.algo {
            Algo::Sha1 => TotpAlgo::Sha1,
            Algo::Sha256 => TotpAlgo::Sha256,
            Algo::Sha512 => TotpAlgo::Sha512,
        };
        let digits = TotpDigits::try_from(self.digits as u8).ok()?;
        Some(Totp::new(self.secret.clone(), self.step, algo, digits))
    }
}

pub fn hex(b: &[u8]) -> String {
    b.iter().map(|x| format!("{x:02x}")).collect()
}
pub fn unhex(s: &str) -> Vec<u8> {
    (0..s.len() / 2).filter_map(|i| u8::from_str_radix(&s[2 * i..2 * i + 2], 16).ok()).collect()
}

/// Categorical reply of one auth step.
#[derive(Clone, Debug, PartialEq, Eq)]
pub enum Rep {
    Choose(Vec<String>),
    Continue(Vec<String>),
    Success,
    Denied(String),
    External,
    Err(String),
}

impl Rep {
    pub fn cat(&self) -> String {
        match self {
            Rep::Choose(m) => format!("choose({})", m.join(",")),
            Rep::Continue(m) => format!("continue({})", m.join(",")),
            Rep::Success => "success".into(),
            Rep::Denied(m) => format!("denied({m})"),
            Rep::External => "external".into(),
            Rep::Err(e) => format!("err({e})"),
        }
    }
    pub fn short(&self) -> &'static str {
        match self {
            Rep::Choose(_) => "choose",
            Rep::Continue(_) => "continue",
            Rep::Success => "success",
            Rep::Denied(_) => "denied",
            Rep::External => "external",
            Rep::Err(_) => "error",
        }
    }
    /// the server took the step (anything but a refusal or an error)
    pub fn accepted(&self) -> bool {
        matches!(self, Rep::Choose(_) | Rep::Continue(_) | Rep::Success | Rep::External)
    }
}

pub const LOCKED_MSG: &str = "Account is temporarily locked";
pub const BAD_TOTP_MSG: &str = "incorrect totp";

pub fn mech_name(m: &AuthMech) -> String {
    format!("{m:?}").to_lowercase()
}
pub fn mech_parse(s: &str) -> AuthMech {
    match s {
        "anonymous" => AuthMech::Anonymous,
        "password" => AuthMech::Password,
        "passwordtotp" => AuthMech::PasswordTotp,
        "passwordbackupcode" => AuthMech::PasswordBackupCode,
        "passwordsecuritykey" => AuthMech::PasswordSecurityKey,
        "passkey" => AuthMech::Passkey,
        _ => AuthMech::OAuth2Trust,
    }
}
fn allowed_name(a: &AuthAllowed) -> String {
    match a {
        AuthAllowed::Anonymous => "anonymous",
        AuthAllowed::BackupCode => "backupcode",
        AuthAllowed::Password => "password",
        AuthAllowed::Totp => "totp",
        AuthAllowed::SecurityKey(_) => "securitykey",
        AuthAllowed::Passkey(_) => "passkey",
    }
    .to_string()
}

fn person(u: Uuid, name: &str) -> Entry<EntryInit, EntryNew> {
    entry_init!(
        (Attribute::Class, EntryClass::Object.to_value()),
        (Attribute::Class, EntryClass::Account.to_value()),
        (Attribute::Class, EntryClass::Person.to_value()),
        (Attribute::Name, Value::new_iname(name)),
        (Attribute::Uuid, Value::Uuid(u)),
        (Attribute::Description, Value::new_utf8s(name)),
        (Attribute::DisplayName, Value::new_utf8s(name))
    )
}

/// What the credential-update session is asked to register.
#[derive(Clone, Debug, Default)]
pub struct CredSpec {
    pub pw: String,
    /// one entry per TOTP to register: true = the client answers with a SHA-1 code (legacy
    /// authenticator), the server then stores the token as SHA-1
    pub totps: Vec<bool>,
    pub backup: bool,
    /// remove every registered TOTP again before committing (credential reverts to password-only)
    pub remove_totp: bool,
}

#[derive(Clone, Debug, Default)]
pub struct CredOut {
    pub toks: Vec<Tok>,
    pub backup: Vec<String>,
}

pub struct World {
    pub seed: u64,
    _scratch: Option<Scratch>,
    path: Option<PathBuf>,
    pub idm: Option<Idm>,
    /// incarnation of the server process
    pub epoch: u32,
    pub pending: VecDeque<DelayedAction>,
    pub out: Outcome,
    kinds: Vec<u64>,
    pub t_first: u64,
    pub t_last: u64,
}

macro_rules! es {
    ($e:expr, $ctx:expr) => {
        $e.map_err(|e| format!("{}: {:?}", $ctx, e))
    };
}

impl World {
    pub fn entropy(&self, id: u64) {
        crate::entropy::swap_stream(Some(Rng::new(self.seed ^ id.wrapping_mul(K))));
        kanidmd_lib::verif_hooks::reseed_thread_rng();
    }

    pub fn new(seed: u64, file_backed: bool, t0: u64, tag: &str) -> Result<World, String> {
        let scratch = if file_backed { Some(Scratch::new(&format!("{tag}-{seed:x}"))) } else { None };
        let path = scratch.as_ref().map(|s| s.path().join("n0.db"));
        let mut w = World {
            seed,
            _scratch: scratch,
            path,
            idm: None,
            epoch: 0,
            pending: VecDeque::new(),
            out: Outcome::default(),
            kinds: vec![],
            t_first: t0,
            t_last: t0,
        };
        w.entropy(0xb007_0000);
        w.boot(t0)?;
        Ok(w)
    }

    fn boot(&mut self, t: u64) -> Result<(), String> {
        let cfg = match &self.path {
            Some(p) => NodeCfg::file(p),
            None => NodeCfg::mem(),
        };
        let qs = es!(boot_qs(&cfg, dur(t)), "boot qs")?;
        let idm = es!(boot_idm(qs, dur(t)), "boot idm")?;
        self.idm = Some(idm);
        Ok(())
    }

    /// Process death and restart on the same database file: auth sessions, soft locks and queued
    /// delayed actions are gone.
    pub fn restart(&mut self, t: u64) -> Result<(), String> {
        if self.path.is_none() {
            return Ok(());
        }
        self.pull_delayed();
        if !self.pending.is_empty() {
            self.out.fault("delayed-actions-lost-at-restart");
        }
        self.pending.clear();
        self.idm = None;
        self.epoch += 1;
        self.out.fault("restart");
        self.boot(t)
    }

    pub fn idm(&self) -> Result<&Idm, String> {
        self.idm.as_ref().ok_or_else(|| "node down".to_string())
    }

    pub fn note_time(&mut self, t: u64) {
        if t > self.t_last {
            self.t_last = t;
        }
        if t < self.t_first {
            self.t_first = t;
        }
    }

    pub fn kind(&mut self, k: &str) {
        self.kinds.push(fnv64(k.as_bytes()));
        let n = self.kinds.len();
        if n >= 3 {
            let h = self.kinds[n - 3].rotate_left(21) ^ self.kinds[n - 2].rotate_left(7) ^ self.kinds[n - 1];
            if !self.out.trigrams.contains(&h) {
                self.out.trigrams.push(h);
            }
        }
    }

    pub fn state(&mut self, s: &str) {
        let h = fnv64(s.as_bytes());
        if !self.out.states.contains(&h) {
            self.out.states.push(h);
        }
    }

    pub fn violate(&mut self, property: &str, oracle: &str, sig: &str, summary: String, step: usize) {
        if self.out.violations.iter().any(|v| v.oracle == oracle && v.signature == sig) {
            return;
        }
        if self.out.violations.len() < 12 {
            self.out.violate(property, oracle, sig, summary, step);
        }
    }

    /// Administrative set-up done once per run: drop the default "persons need MFA" minimum so
    /// that password-only persons can exist (as `kanidm group account-policy credential-type-minimum any`).
    pub fn relax_policy(&mut self, t: u64) -> Result<(), String> {
        let idm = self.idm()?;
        block(async {
            let mut pw = es!(idm.idms.proxy_write(dur(t)).await, "proxy_write")?;
            let g = es!(pw.qs_write.name_to_uuid("idm_all_persons"), "idm_all_persons")?;
            es!(pw.qs_write.internal_modify_uuid(g, &ModifyList::new_purge(Attribute::CredentialTypeMinimum)), "purge policy")?;
            es!(pw.commit(), "commit")
        })
    }

    pub fn create_person(&mut self, t: u64, u: Uuid, name: &str) -> Result<(), String> {
        let idm = self.idm()?;
        block(async {
            let mut pw = es!(idm.idms.proxy_write(dur(t)).await, "proxy_write")?;
            es!(pw.qs_write.create(&CreateEvent::new_internal(vec![person(u, name)])), "create person")?;
            es!(pw.commit(), "commit")
        })
    }

    /// Register credentials through the real credential update session.
    pub fn cred_update(&mut self, t: u64, u: Uuid, spec: &CredSpec) -> Result<CredOut, String> {
        let idm = self.idm()?;
        let ct = dur(t);
        block(async {
            let mut out = CredOut::default();
            let mut pw = es!(idm.idms.proxy_write(ct).await, "proxy_write")?;
            let e = es!(pw.qs_write.internal_search_uuid(u), "search")?;
            let (cust, _st) = es!(pw.init_credential_update(&InitCredentialUpdateEvent::new(Identity::from_impersonate_entry_readwrite(e), u), ct), "init_credential_update")?;
            es!(pw.commit(), "commit")?;
            let cu = es!(idm.idms.cred_update_transaction().await, "cred_update_transaction")?;
            es!(cu.credential_primary_set_password(&cust, ct, &spec.pw), "set_password")?;
            for (i, legacy) in spec.totps.iter().enumerate() {
                let label = format!("tok{i}");
                let st = es!(cu.credential_primary_init_totp(&cust, ct), "init_totp")?;
                let MfaRegStateStatus::TotpCheck(sec) = st.mfaregstate() else {
                    return Err("init_totp: no secret shown".to_string());
                };
                let algo = match sec.algo {
                    ProtoAlgo::Sha1 => Algo::Sha1,
                    ProtoAlgo::Sha256 => Algo::Sha256,
                    ProtoAlgo::Sha512 => Algo::Sha512,
                };
                let mut tok = Tok { label: label.clone(), secret: sec.secret.clone(), algo, digits: sec.digits as u32, step: sec.step };
                if *legacy {
                    tok.algo = Algo::Sha1;
                }
                let code = tok.code_at_counter(tok.counter(t));
                let st = es!(cu.credential_primary_check_totp(&cust, ct, code, &label), "check_totp")?;
                match st.mfaregstate() {
                    MfaRegStateStatus::None if !*legacy => {}
                    MfaRegStateStatus::TotpInvalidSha1 if *legacy => {
                        es!(cu.credential_primary_accept_sha1_totp(&cust, ct), "accept_sha1")?;
                    }
                    other => return Err(format!("totp registration with the harness-computed code not accepted: {other:?}")),
                }
                out.toks.push(tok);
            }
            if spec.backup {
                let st = es!(cu.credential_primary_init_backup_codes(&cust, ct), "init_backup_codes")?;
                let MfaRegStateStatus::BackupCodes(codes) = st.mfaregstate() else {
                    return Err("backup codes not shown".to_string());
                };
                out.backup = codes.iter().cloned().collect();
                out.backup.sort();
            }
            if spec.remove_totp {
                for tok in &out.toks {
                    es!(cu.credential_primary_remove_totp(&cust, ct, &tok.label), "remove_totp")?;
                }
                out.toks.clear();
                out.backup.clear();
            }
            drop(cu);
            let mut pw = es!(idm.idms.proxy_write(ct).await, "proxy_write")?;
            es!(pw.commit_credential_update(&cust, ct), "commit_credential_update")?;
            es!(pw.commit(), "commit")?;
            Ok(out)
        })
    }

    /// `kanidmd recover-account` with a chosen cleartext: generated-password credential.
    pub fn recover(&mut self, t: u64, name: &str, cleartext: &str) -> Result<(), String> {
        let idm = self.idm()?;
        block(async {
            let mut pw = es!(idm.idms.proxy_write(dur(t)).await, "proxy_write")?;
            es!(pw.recover_account(name, Some(cleartext)), "recover_account")?;
            es!(pw.commit(), "commit")
        })
    }

    pub fn set_window(&mut self, t: u64, u: Uuid, vf: Option<u64>, ex: Option<u64>) -> Result<(), String> {
        let idm = self.idm()?;
        block(async {
            let mut pw = es!(idm.idms.proxy_write(dur(t)).await, "proxy_write")?;
            let mut ml = vec![m_purge(Attribute::AccountValidFrom), m_purge(Attribute::AccountExpire)];
            if let Some(v) = vf {
                ml.push(Modify::Present(Attribute::AccountValidFrom, Value::new_datetime_epoch(Duration::from_secs(v))));
            }
            if let Some(v) = ex {
                ml.push(Modify::Present(Attribute::AccountExpire, Value::new_datetime_epoch(Duration::from_secs(v))));
            }
            es!(pw.qs_write.internal_modify_uuid(u, &ModifyList::new_list(ml)), "set window")?;
            es!(pw.commit(), "commit")
        })
    }

    /// The import path (`totp_import`, what a SCIM sync import writes): arbitrary TOTP parameters.
    pub fn import_totp(&mut self, t: u64, u: Uuid, tok: &Tok) -> Result<(), String> {
        let idm = self.idm()?;
        let Some(kt) = tok.kanidm() else { return Err("bad digits".into()) };
        block(async {
            let mut pw = es!(idm.idms.proxy_write(dur(t)).await, "proxy_write")?;
            let ml = ModifyList::new_list(vec![Modify::Present(Attribute::TotpImport, Value::TotpSecret(tok.label.clone(), kt))]);
            es!(pw.qs_write.internal_modify_uuid(u, &ml), "totp import")?;
            es!(pw.commit(), "commit")
        })
    }

    /// One authentication step, exactly as `handle_auth` performs it.
    pub fn auth_step(&mut self, t: u64, sid: Option<Uuid>, step: AuthStep) -> (Rep, Option<Uuid>) {
        let Ok(idm) = self.idm() else { return (Rep::Err("node down".into()), None) };
        let ct = dur(t);
        let r = block(async {
            let mut a = idm.idms.auth().await?;
            let ae = AuthEvent::from_message(sid, step)?;
            a.expire_auth_sessions(ct).await;
            let r = a.auth(&ae, ct, ClientAuthInfo::new(Source::Internal, None, None, None)).await;
            r.and_then(|r| a.commit().map(|_| r))
        });
        match r {
            Ok(ar) => {
                let rep = match &ar.state {
                    AuthState::Choose(m) => Rep::Choose(m.iter().map(mech_name).collect()),
                    AuthState::Continue(a) => Rep::Continue(a.iter().map(allowed_name).collect()),
                    AuthState::External(_) => Rep::External,
                    AuthState::Denied(m) => Rep::Denied(m.clone()),
                    AuthState::Success(_, _) => Rep::Success,
                };
                (rep, Some(ar.sessionid))
            }
            Err(e) => (Rep::Err(format!("{e:?}")), None),
        }
    }

    pub fn init_step(name: &str, privileged: bool) -> AuthStep {
        AuthStep::Init2 { username: name.to_string(), issue: AuthIssueSession::Token, privileged }
    }

    fn pull_delayed(&mut self) {
        if let Some(idm) = self.idm.as_mut() {
            loop {
                let mut buf: Vec<DelayedAction> = Vec::with_capacity(16);
                let n = poll_now(idm.delayed.recv_many(&mut buf)).unwrap_or(0);
                if n == 0 {
                    break;
                }
                self.pending.extend(buf);
            }
            // the audit queue is not part of any checked property: drain it
            while idm.audit.audit_rx().try_recv().is_ok() {}
        }
    }

    /// Deliver up to `n` queued delayed actions in order; returns the backup codes whose removal was
    /// applied, as (account uuid, code).
    pub fn deliver(&mut self, t: u64, n: usize) -> Vec<(Uuid, String)> {
        self.pull_delayed();
        let mut removed = vec![];
        for _ in 0..n {
            let Some(da) = self.pending.pop_front() else { break };
            let Ok(idm) = self.idm() else { break };
            let ct = dur(t);
            let r = block(async {
                let mut pw = idm.idms.proxy_write(ct).await?;
                pw.process_delayedaction(&da, ct).and_then(|_| pw.commit())
            });
            let kind = match &da {
                DelayedAction::PwUpgrade(_) => "pwupgrade",
                DelayedAction::UnixPwUpgrade(_) => "unixpwupgrade",
                DelayedAction::WebauthnCounterIncrement(_) => "webauthn",
                DelayedAction::BackupCodeRemoval(_) => "backupcoderemoval",
                DelayedAction::AuthSessionRecord(_) => "authsessionrecord",
            };
            self.out.probe(&format!("delayed.{kind}.{}", if r.is_ok() { "ok" } else { "err" }));
            self.out.chain(fnv64(format!("deliver {kind} {}", r.is_ok()).as_bytes()));
            if let (DelayedAction::BackupCodeRemoval(b), true) = (&da, r.is_ok()) {
                removed.push((b.target_uuid, b.code_to_remove.clone()));
            }
        }
        removed
    }

    pub fn finish(mut self) -> Outcome {
        crate::entropy::swap_stream(None);
        self.out.sim_secs = (self.t_last.saturating_sub(self.t_first)) as f64 / NS as f64;
        self.idm = None;
        self.out
    }
}

pub fn cred_from(c: CredKind) -> AuthCredential {
    match c {
        CredKind::Anon => AuthCredential::Anonymous,
        CredKind::Pw(p) => AuthCredential::Password(p),
        CredKind::Totp(v) => AuthCredential::Totp(v),
        CredKind::Bc(s) => AuthCredential::BackupCode(s),
    }
}

#[derive(Clone, Debug)]
pub enum CredKind {
    Anon,
    Pw(String),
    Totp(u32),
    Bc(String),
}

pub fn components() -> serde_json::Value {
    serde_json::json!({
        "real": ["kanidmd_lib IdmServer (auth sessions, AuthSession/CredHandler state machines, soft locks, credential update sessions, recover_account, cred_import plugin, delayed-action processing)", "QueryServer + backend + bundled SQLite (in-memory or file-backed, restart on the same file)", "kanidmd_lib::credential::totp::Totp", "kanidm_lib_crypto (integration-test cost parameters)"],
        "stub": ["HTTP layer: the harness replays QueryServerReadV1::handle_auth's call sequence (auth txn, from_message, expire_auth_sessions, auth, commit)", "delayed-action worker task: delivery is an explicit simulator event (late, or lost at restart)", "wall clock: ct parameter with nanosecond resolution", "OS entropy: seeded stream via interposed getrandom; rand thread RNG reseeded from it per event"],
        "not_run": ["webauthn / passkey / security-key / oauth2-trust mechanisms (only as 'mechanism not offered' requests)", "reauth (privilege re-grant) flow", "TLS, cookies"]
    })
}

pub fn scenarios() -> Vec<Box<dyn Scenario>> {
    vec![Box::new(c27::AuthScenario {}), Box::new(c29::TotpScenario {})]
}
