//! C03 — indexes and lookup tables mirror the stored entries. Two-sided: every key the stored
//! entries produce is present with exactly the right entry ids, and the tables hold nothing else.
use crate::dump::{ava_strings, entry_state, EState};
use crate::oracles::{Finding, Snap};
use kanidmd_lib::prelude::*;
use kanidmd_lib::valueset::ValueSetT;
use kanidmd_lib::verif_hooks as vh;
use std::collections::{BTreeMap, BTreeSet};

fn f(oracle: &'static str, sig: String, summary: String) -> Finding {
    Finding { property: "C03", oracle, signature: sig, summary }
}

pub fn check(r: &mut QueryServerReadTransaction<'_>, snap: &Snap, n: usize) -> Vec<Finding> {
    let mut out = vec![];
    let idx = match vh::index_dump(r) {
        Ok(i) => i,
        Err(e) => return vec![f("index-dump", "error".into(), format!("node {n}: cannot list indexes: {e:?}"))],
    };
    // --- (ii) index tables == keys recomputed from the stored entries -----------------------
    for (tname, content) in &idx.indexes {
        let mut parts = tname.splitn(3, '_');
        let (_, ty, attr) = (parts.next(), parts.next().unwrap_or(""), parts.next().unwrap_or(""));
        let attr = Attribute::from(attr);
        let mut expect: BTreeMap<String, BTreeSet<u64>> = BTreeMap::new();
        for e in &snap.entries {
            let Some(vs) = e.get_ava_set(attr.clone()) else { continue };
            let keys: Vec<String> = match ty {
                "eq" => vs.generate_idx_eq_keys(),
                "sub" => vs.generate_idx_sub_keys(),
                "ord" => vs.generate_idx_ord_keys(),
                "pres" => vec!["_".to_string()],
                _ => vec![],
            };
            for k in keys {
                expect.entry(k).or_default().insert(e.get_id());
            }
        }
        for (k, ids) in &expect {
            let got: BTreeSet<u64> = content.get(k).map(|v| v.iter().copied().collect()).unwrap_or_default();
            if &got != ids {
                out.push(f("index-mirror", format!("{ty} index differs from entries"), format!("node {n}: {tname}[{k:?}] holds ids {got:?} but stored entries produce {ids:?}")));
                break;
            }
        }
        for (k, ids) in content {
            if !ids.is_empty() && !expect.contains_key(k) {
                out.push(f("index-mirror", format!("{ty} index holds a stale key"), format!("node {n}: {tname}[{k:?}] holds ids {ids:?} but no stored entry produces that key")));
                break;
            }
        }
        if out.len() > 4 {
            return out;
        }
    }
    // --- (iii) lookup tables ----------------------------------------------------------------
    // names that resolve, by scan: spn, name, gidnumber of entries that are neither recycled nor tombstone
    let mut by_name: BTreeMap<String, Uuid> = BTreeMap::new();
    let mut dead_names: BTreeSet<String> = BTreeSet::new();
    for e in &snap.entries {
        let st = entry_state(e);
        let masked = matches!(st, EState::Recycled | EState::Tombstone | EState::Conflict) && (e.attribute_equality(Attribute::Class, &EntryClass::Recycled.into()) || st == EState::Tombstone);
        for a in [Attribute::Spn, Attribute::Name, Attribute::GidNumber] {
            for v in ava_strings(e, a) {
                if masked {
                    dead_names.insert(v);
                } else {
                    by_name.insert(v, e.get_uuid());
                }
            }
        }
    }
    // uuids that survived a uuid (add) conflict: some conflict entry names them as its source
    let conflict_sources: BTreeSet<Uuid> = snap
        .entries
        .iter()
        .filter(|e| e.attribute_equality(Attribute::Class, &EntryClass::Conflict.into()))
        .flat_map(|e| crate::oracles::uuids_of(e, Attribute::SourceUuid))
        .collect();
    for (name, u) in &by_name {
        let tag = if conflict_sources.contains(u) { " (entry survived a uuid conflict)" } else { "" };
        match vh::lookup_name2uuid(r, name) {
            Ok(Some(g)) if g == *u => {}
            other => out.push(f("name2uuid", format!("live name does not resolve to its entry{tag}"), format!("node {n}: name2uuid({name:?}) = {other:?}, a scan gives {u}{tag}"))),
        }
        match r.name_to_uuid(name) {
            Ok(g) if g == *u => {}
            other => out.push(f("name_to_uuid", format!("live name does not resolve to its entry{tag}"), format!("node {n}: name_to_uuid({name:?}) = {other:?}, a scan gives {u}{tag}"))),
        }
    }
    for name in dead_names.iter().filter(|d| !by_name.contains_key(*d)) {
        if let Ok(Some(g)) = vh::lookup_name2uuid(r, name) {
            out.push(f("name2uuid", "name of a deleted entry still resolves".into(), format!("node {n}: name2uuid({name:?}) = {g} but only recycled/tombstoned entries carry that name")));
        }
    }
    for e in &snap.entries {
        let u = e.get_uuid();
        let masked = e.attribute_equality(Attribute::Class, &EntryClass::Recycled.into()) || e.attribute_equality(Attribute::Class, &EntryClass::Tombstone.into());
        let spn = vh::lookup_uuid2spn(r, u).ok().flatten();
        let rdn = vh::lookup_uuid2rdn(r, u).ok().flatten();
        if masked {
            // the same uuid may also be carried by a live entry (created again after this one
            // became a conflict entry): the tables then rightly resolve it, to that entry
            let twin_live = snap.entries.iter().any(|o| o.get_uuid() == u && !(o.attribute_equality(Attribute::Class, &EntryClass::Recycled.into()) || o.attribute_equality(Attribute::Class, &EntryClass::Tombstone.into())));
            if twin_live {
                continue;
            }
            if spn.is_some() || rdn.is_some() {
                out.push(f("uuid2spn", "deleted entry still in uuid lookup tables".into(), format!("node {n}: {u} is recycled/tombstone but uuid2spn={spn:?} uuid2rdn={rdn:?}")));
            }
            continue;
        }
        let exp_spn: Value = e
            .get_ava_set(Attribute::Spn)
            .and_then(|vs| vs.to_value_single())
            .or_else(|| e.get_ava_set(Attribute::Name).and_then(|vs| vs.to_value_single()))
            .unwrap_or(Value::Uuid(u));
        if spn.as_ref() != Some(&exp_spn) {
            out.push(f("uuid2spn", "uuid2spn differs from entry".into(), format!("node {n}: uuid2spn({u}) = {spn:?}, entry says {exp_spn:?}")));
        }
        let exp_rdn = if let Some(s) = ava_strings(e, Attribute::Spn).into_iter().next() {
            format!("spn={s}")
        } else if let Some(s) = ava_strings(e, Attribute::Name).into_iter().next() {
            format!("name={s}")
        } else {
            format!("uuid={}", u.as_hyphenated())
        };
        if rdn.as_deref() != Some(exp_rdn.as_str()) {
            out.push(f("uuid2rdn", "uuid2rdn differs from entry".into(), format!("node {n}: uuid2rdn({u}) = {rdn:?}, entry says {exp_rdn:?}")));
        }
        if out.len() > 6 {
            break;
        }
    }
    // --- searches through the index caches agree with a scan -----------------------------------
    for (name, u) in by_name.iter().take(40) {
        if name.contains('@') || name.chars().all(|c| c.is_ascii_digit()) {
            continue;
        }
        match r.internal_search(filter!(f_eq(Attribute::Name, PartialValue::new_iname(name)))) {
            Ok(v) => {
                let got: BTreeSet<Uuid> = v.iter().map(|e| e.get_uuid()).collect();
                let exp: BTreeSet<Uuid> = snap.live().filter(|e| ava_strings(e, Attribute::Name).contains(name)).map(|e| e.get_uuid()).collect();
                if got != exp {
                    out.push(f("indexed-search-vs-scan", "search by name differs from scan".into(), format!("node {n}: search name={name} gives {got:?}, scan gives {exp:?} (lookup says {u})")));
                }
            }
            Err(e) => out.push(f("indexed-search-vs-scan", "search error".into(), format!("node {n}: search name={name}: {e:?}"))),
        }
    }
    out
}
