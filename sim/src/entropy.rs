//! Process-level entropy seam. The binary exports `getrandom`; std, getrandom 0.3/0.4 (dlsym),
//! the patched getrandom 0.2 and the patched foldhash all resolve to it. While a simulated
//! node is "current" on this thread, bytes come from that node's seeded stream; otherwise the
//! call falls through to the kernel.
use crate::rng::Rng;
use std::cell::RefCell;

thread_local! {
    static STREAM: RefCell<Option<Rng>> = const { RefCell::new(None) };
    static DRAWS: std::cell::Cell<u64> = const { std::cell::Cell::new(0) };
}

/// Install (or remove) the entropy stream served on this thread; returns the previous one.
pub fn swap_stream(r: Option<Rng>) -> Option<Rng> {
    STREAM.with(|s| std::mem::replace(&mut *s.borrow_mut(), r))
}

pub fn draws() -> u64 {
    DRAWS.with(|d| d.get())
}

#[no_mangle]
pub unsafe extern "C" fn getrandom(buf: *mut libc::c_void, len: libc::size_t, flags: libc::c_uint) -> libc::ssize_t {
    let served = STREAM
        .try_with(|s| {
            if let Ok(mut g) = s.try_borrow_mut() {
                if let Some(r) = g.as_mut() {
                    if len > 0 && !buf.is_null() {
                        let sl = std::slice::from_raw_parts_mut(buf as *mut u8, len);
                        r.fill(sl);
                    }
                    return true;
                }
            }
            false
        })
        .unwrap_or(false);
    if served {
        let _ = DRAWS.try_with(|d| d.set(d.get() + 1));
        return len as libc::ssize_t;
    }
    libc::syscall(libc::SYS_getrandom, buf, len, flags) as libc::ssize_t
}
