//! Generic check driver: seeded runs over worker processes, replay, minimisation, known-findings,
//! evidence. Engines implement `Scenario`; a run is fully described by a `Plan` (seed, knobs and an
//! explicit event list), so replaying a plan is a pure function of the plan and the code.
use serde::{Deserialize, Serialize};
use serde_json::{json, Value as J};
use std::collections::{BTreeMap, BTreeSet};
use std::io::{BufRead, Write};
use std::time::Instant;

#[derive(Clone, Copy, PartialEq, Eq, Debug)]
pub enum Tier {
    Quick,
    Thorough,
}
impl Tier {
    pub fn name(&self) -> &'static str {
        match self {
            Tier::Quick => "quick",
            Tier::Thorough => "thorough",
        }
    }
    pub fn parse(s: &str) -> Tier {
        if s == "thorough" {
            Tier::Thorough
        } else {
            Tier::Quick
        }
    }
}

#[derive(Clone, Debug, Serialize, Deserialize)]
pub struct Plan {
    pub property: String,
    pub seed: u64,
    pub cfg: J,
    pub events: Vec<J>,
}

#[derive(Clone, Debug, Serialize, Deserialize, PartialEq, Eq)]
pub struct Violation {
    /// property the oracle belongs to
    pub property: String,
    /// stable oracle identifier
    pub oracle: String,
    /// categorical description of *what kind* of input/history fails (matched against known findings)
    pub signature: String,
    /// human readable details
    pub summary: String,
    /// index of the event at which it was detected
    pub step: usize,
}

#[derive(Clone, Debug, Default, Serialize, Deserialize)]
pub struct Outcome {
    pub violations: Vec<Violation>,
    /// hash chain over every event result and post-state digest (determinism check)
    pub trace_digest: u64,
    /// distinct canonical state digests reached
    pub states: Vec<u64>,
    /// event-kind trigram signatures (interleaving measure)
    pub trigrams: Vec<u64>,
    pub faults: BTreeMap<String, u64>,
    pub probes: BTreeMap<String, u64>,
    pub sim_secs: f64,
    pub events_run: u64,
    /// the run did something the rule counts as non-trivial
    pub nontrivial: bool,
    /// harness error (not a violation): exit 2
    pub harness_error: Option<String>,
}

impl Outcome {
    pub fn fault(&mut self, k: &str) {
        *self.faults.entry(k.to_string()).or_insert(0) += 1;
    }
    pub fn probe(&mut self, k: &str) {
        *self.probes.entry(k.to_string()).or_insert(0) += 1;
    }
    pub fn probe0(&mut self, k: &str) {
        self.probes.entry(k.to_string()).or_insert(0);
    }
    pub fn chain(&mut self, x: u64) {
        self.trace_digest = (self.trace_digest.rotate_left(7) ^ x).wrapping_mul(0x9E3779B97F4A7C15);
    }
    pub fn violate(&mut self, property: &str, oracle: &str, signature: &str, summary: String, step: usize) {
        self.violations.push(Violation {
            property: property.into(),
            oracle: oracle.into(),
            signature: signature.into(),
            summary,
            step,
        });
    }
}

pub struct Budget {
    pub runs: u64,
    /// wall clock cap in seconds for the whole batch (workers stop starting new runs after it)
    pub wall_cap_s: u64,
}

pub trait Scenario: Sync {
    fn property(&self) -> &'static str;
    fn engine(&self) -> &'static str;
    fn level(&self) -> &'static str {
        "exploration"
    }
    fn budget(&self, tier: Tier) -> Budget;
    fn generate(&self, seed: u64, tier: Tier) -> Plan;
    fn execute(&self, plan: &Plan) -> Outcome;
    /// rule text for the evidence file
    fn rule(&self) -> String;
    fn components(&self) -> J;
    fn assumptions(&self) -> Vec<String>;
    /// may an event be dropped by the minimiser? (setup events may not)
    fn droppable(&self, _ev: &J) -> bool {
        true
    }
    /// exhaustive enumeration rather than sampling?
    fn exhaustive(&self) -> bool {
        false
    }
}

#[derive(Serialize, Deserialize, Debug, Clone)]
pub struct KnownFinding {
    pub status: String, // "known" | "fixed"
    pub property: String,
    #[serde(default)]
    pub oracle: String,
    #[serde(default)]
    pub signature: String,
    pub what: String,
    #[serde(default)]
    pub commit: String,
}

pub fn load_known() -> Vec<KnownFinding> {
    let p = "/verif/KNOWN_FINDINGS.json";
    match std::fs::read_to_string(p) {
        Ok(s) => match serde_json::from_str::<J>(&s) {
            Ok(v) => v
                .get("findings")
                .and_then(|f| serde_json::from_value::<Vec<KnownFinding>>(f.clone()).ok())
                .unwrap_or_default(),
            Err(_) => vec![],
        },
        Err(_) => vec![],
    }
}

pub fn is_known(k: &[KnownFinding], v: &Violation) -> Option<KnownFinding> {
    k.iter()
        .find(|f| f.status == "known" && f.property == v.property && f.oracle == v.oracle && f.signature == v.signature)
        .cloned()
}

pub fn base_seed() -> u64 {
    std::env::var("VERIF_SEED").ok().and_then(|s| s.parse::<u64>().ok()).unwrap_or(1)
}

pub fn run_seed(base: u64, i: u64) -> u64 {
    base.wrapping_mul(1 << 32).wrapping_add(i)
}

#[derive(Serialize, Deserialize)]
struct WorkerLine {
    i: u64,
    seed: u64,
    outcome: Outcome,
    wall_ms: u64,
    sample: Option<J>,
}

/// Execute one plan in a forked child of this process and return its outcome. Every run therefore
/// starts from the same process state (the state after `main`'s fixed warm-up): nothing a run
/// leaves behind — lazily initialised globals, per-thread generators, caches — can influence the
/// next one, whichever worker a seed lands on, and a replay in a fresh process starts from that
/// same state. A child that dies (abort, signal) is a harness error, never a violation.
pub fn run_isolated(sc: &dyn Scenario, plan: &Plan) -> Outcome {
    use std::io::Read;
    use std::os::fd::FromRawFd;
    let _ = std::io::stdout().flush();
    let mut fds = [0i32; 2];
    if unsafe { libc::pipe(fds.as_mut_ptr()) } != 0 {
        return Outcome { harness_error: Some("pipe failed".into()), ..Default::default() };
    }
    let pid = unsafe { libc::fork() };
    if pid < 0 {
        return Outcome { harness_error: Some("fork failed".into()), ..Default::default() };
    }
    if pid == 0 {
        unsafe { libc::close(fds[0]) };
        let o = match std::panic::catch_unwind(std::panic::AssertUnwindSafe(|| sc.execute(plan))) {
            Ok(o) => o,
            Err(e) => {
                let msg = e.downcast_ref::<String>().cloned().or_else(|| e.downcast_ref::<&str>().map(|s| s.to_string())).unwrap_or_else(|| "panic".into());
                Outcome { harness_error: Some(format!("panic in run seed {}: {msg}", plan.seed)), ..Default::default() }
            }
        };
        let js = serde_json::to_vec(&o).unwrap_or_default();
        let mut f = unsafe { std::fs::File::from_raw_fd(fds[1]) };
        let _ = f.write_all(&js);
        let _ = f.flush();
        drop(f);
        unsafe { libc::_exit(0) };
    }
    unsafe { libc::close(fds[1]) };
    let mut buf = vec![];
    let mut f = unsafe { std::fs::File::from_raw_fd(fds[0]) };
    let _ = f.read_to_end(&mut buf);
    drop(f);
    let mut status = 0i32;
    unsafe { libc::waitpid(pid, &mut status, 0) };
    match serde_json::from_slice::<Outcome>(&buf) {
        Ok(o) => o,
        Err(_) => Outcome { harness_error: Some(format!("run seed {} died without a result (wait status {status})", plan.seed)), ..Default::default() },
    }
}

/// Worker: runs indices start, start+stride, … < runs; prints one JSON line per run.
pub fn worker(sc: &dyn Scenario, tier: Tier, base: u64, start: u64, stride: u64, runs: u64, wall_cap_s: u64) {
    let t0 = Instant::now();
    let out = std::io::stdout();
    let mut i = start;
    while i < runs {
        if t0.elapsed().as_secs() >= wall_cap_s {
            break;
        }
        let seed = run_seed(base, i);
        let t1 = Instant::now();
        let plan = sc.generate(seed, tier);
        let outcome = run_isolated(sc, &plan);
        let sample = if i < 3 {
            Some(json!({"seed": seed, "cfg": plan.cfg, "events": plan.events.iter().take(12).collect::<Vec<_>>(), "n_events": plan.events.len()}))
        } else {
            None
        };
        let line = WorkerLine { i, seed, outcome, wall_ms: t1.elapsed().as_millis() as u64, sample };
        let mut o = out.lock();
        let _ = writeln!(o, "{}", serde_json::to_string(&line).expect("line"));
        let _ = o.flush();
        i += stride;
    }
}

fn jobs() -> u64 {
    std::env::var("VERIF_JOBS").ok().and_then(|s| s.parse().ok()).unwrap_or(16)
}

pub struct Batch {
    pub lines: Vec<(u64, u64, Outcome, u64, Option<J>)>,
}

fn spawn_workers(sc: &dyn Scenario, tier: Tier, base: u64, runs: u64, wall_cap_s: u64) -> Result<Batch, String> {
    let exe = std::env::current_exe().map_err(|e| e.to_string())?;
    let j = jobs().min(runs.max(1));
    let mut kids = vec![];
    for w in 0..j {
        let child = std::process::Command::new(&exe)
            .args([
                "worker",
                sc.property(),
                tier.name(),
                &base.to_string(),
                &w.to_string(),
                &j.to_string(),
                &runs.to_string(),
                &wall_cap_s.to_string(),
            ])
            .stdout(std::process::Stdio::piped())
            .stderr(std::process::Stdio::null())
            .spawn()
            .map_err(|e| format!("spawn worker: {e}"))?;
        kids.push(child);
    }
    let mut lines = vec![];
    let mut handles = vec![];
    for mut c in kids {
        let so = c.stdout.take().ok_or("no stdout")?;
        handles.push(std::thread::spawn(move || {
            let mut v = vec![];
            for l in std::io::BufReader::new(so).lines().map_while(Result::ok) {
                if let Ok(w) = serde_json::from_str::<WorkerLine>(&l) {
                    v.push((w.i, w.seed, w.outcome, w.wall_ms, w.sample));
                }
            }
            let st = c.wait();
            (v, st.map(|s| s.code()).unwrap_or(None))
        }));
    }
    for h in handles {
        let (v, code) = h.join().map_err(|_| "worker reader panicked".to_string())?;
        if code != Some(0) {
            return Err(format!("a worker exited abnormally (code {code:?}) after {} runs", v.len()));
        }
        lines.extend(v);
    }
    lines.sort_by_key(|l| l.0);
    Ok(Batch { lines })
}

fn same_violation(o: &Outcome, target: &Violation) -> Option<Violation> {
    o.violations
        .iter()
        .find(|v| v.property == target.property && v.oracle == target.oracle && v.signature == target.signature)
        .cloned()
}

/// Delta-debugging over the event list, keeping a candidate only when the same oracle with the same
/// signature fires again.
pub fn minimise(sc: &dyn Scenario, plan: &Plan, target: &Violation, budget_s: u64) -> (Plan, Violation) {
    let t0 = Instant::now();
    let mut best = plan.clone();
    let mut bestv = target.clone();
    let mut chunk = (best.events.len() / 2).max(1);
    while chunk >= 1 && t0.elapsed().as_secs() < budget_s {
        let mut i = 0;
        let mut progressed = false;
        while i < best.events.len() && t0.elapsed().as_secs() < budget_s {
            let end = (i + chunk).min(best.events.len());
            if best.events[i..end].iter().all(|e| sc.droppable(e)) {
                let mut cand = best.clone();
                cand.events.drain(i..end);
                let o = run_isolated(sc, &cand);
                if let Some(v) = same_violation(&o, target) {
                    best = cand;
                    bestv = v;
                    progressed = true;
                    continue;
                }
            }
            i = end;
        }
        if !progressed {
            if chunk == 1 {
                break;
            }
            chunk /= 2;
        }
    }
    (best, bestv)
}

pub fn write_replay(plan: &Plan, v: &Violation, engine: &str) -> String {
    let dir = format!("/verif/replays/{}", v.property);
    let _ = std::fs::create_dir_all(&dir);
    let oracle: String = v.oracle.chars().map(|c| if c.is_ascii_alphanumeric() { c } else { '_' }).collect();
    let path = format!("{dir}/{}-{}.json", plan.seed, oracle);
    let doc = json!({
        "property": v.property, "oracle": v.oracle, "signature": v.signature, "engine": engine,
        "seed": plan.seed, "cfg": plan.cfg, "events": plan.events,
        "violation": {"step": v.step, "summary": v.summary},
        "plan_property": plan.property,
    });
    let _ = std::fs::write(&path, serde_json::to_string_pretty(&doc).expect("json"));
    path
}

pub fn load_replay(path: &str) -> Result<(Plan, Violation), String> {
    let s = std::fs::read_to_string(path).map_err(|e| e.to_string())?;
    let v: J = serde_json::from_str(&s).map_err(|e| e.to_string())?;
    let plan = Plan {
        property: v["plan_property"].as_str().unwrap_or(v["property"].as_str().unwrap_or("")).to_string(),
        seed: v["seed"].as_u64().unwrap_or(0),
        cfg: v["cfg"].clone(),
        events: v["events"].as_array().cloned().unwrap_or_default(),
    };
    let viol = Violation {
        property: v["property"].as_str().unwrap_or("").into(),
        oracle: v["oracle"].as_str().unwrap_or("").into(),
        signature: v["signature"].as_str().unwrap_or("").into(),
        summary: v["violation"]["summary"].as_str().unwrap_or("").into(),
        step: v["violation"]["step"].as_u64().unwrap_or(0) as usize,
    };
    Ok((plan, viol))
}

/// `kvsim replay <file>`: exit 1 and print the violation when it reproduces, 0 otherwise.
pub fn replay(sc: &dyn Scenario, path: &str) -> i32 {
    let (plan, target) = match load_replay(path) {
        Ok(x) => x,
        Err(e) => {
            eprintln!("cannot load replay: {e}");
            return 2;
        }
    };
    let o = run_isolated(sc, &plan);
    if let Some(v) = same_violation(&o, &target) {
        println!("REPRODUCED property={} oracle={} signature={:?} step={} digest={:016x}", v.property, v.oracle, v.signature, v.step, o.trace_digest);
        println!("{}", v.summary);
        1
    } else {
        println!("NOT-REPRODUCED property={} oracle={} (violations now: {:?}) digest={:016x}", target.property, target.oracle, o.violations, o.trace_digest);
        0
    }
}

fn confirm_in_fresh_process(path: &str) -> bool {
    let exe = match std::env::current_exe() {
        Ok(e) => e,
        Err(_) => return false,
    };
    match std::process::Command::new(exe).args(["replay", path]).stdout(std::process::Stdio::null()).stderr(std::process::Stdio::null()).status() {
        Ok(st) => st.code() == Some(1),
        Err(_) => false,
    }
}

/// Run a whole check: returns the process exit code.
pub fn check(sc: &dyn Scenario, tier: Tier) -> i32 {
    let t0 = Instant::now();
    let base = base_seed();
    let b = sc.budget(tier);
    println!("check {} engine={} tier={} VERIF_SEED={} runs={} jobs={}", sc.property(), sc.engine(), tier.name(), base, b.runs, jobs());
    let batch = match spawn_workers(sc, tier, base, b.runs, b.wall_cap_s) {
        Ok(b) => b,
        Err(e) => {
            println!("HARNESS-ERROR {e}");
            return 2;
        }
    };
    let known = load_known();
    let mut faults: BTreeMap<String, u64> = BTreeMap::new();
    let mut probes: BTreeMap<String, u64> = BTreeMap::new();
    let mut states: BTreeSet<u64> = BTreeSet::new();
    let mut trigrams: BTreeSet<u64> = BTreeSet::new();
    let mut traces: BTreeSet<u64> = BTreeSet::new();
    let mut sim_secs = 0f64;
    let mut events = 0u64;
    let mut nontrivial_runs = 0u64;
    let mut samples: Vec<J> = vec![];
    let mut new_viol: Vec<(u64, Violation)> = vec![];
    let mut known_hits: BTreeMap<String, (KnownFinding, u64)> = BTreeMap::new();
    let mut foreign: BTreeMap<String, u64> = BTreeMap::new();
    let mut harness_err: Option<String> = None;
    for (_i, seed, o, _ms, sample) in &batch.lines {
        if let Some(e) = &o.harness_error {
            harness_err.get_or_insert(e.clone());
        }
        for (k, v) in &o.faults {
            *faults.entry(k.clone()).or_insert(0) += v;
        }
        for (k, v) in &o.probes {
            *probes.entry(k.clone()).or_insert(0) += v;
        }
        states.extend(o.states.iter().copied());
        trigrams.extend(o.trigrams.iter().copied());
        if o.nontrivial && traces.insert(o.trace_digest) {
            nontrivial_runs += 1;
        }
        sim_secs += o.sim_secs;
        events += o.events_run;
        if let Some(s) = sample {
            samples.push(s.clone());
        }
        for v in &o.violations {
            if v.property != sc.property() {
                *foreign.entry(format!("{}:{}", v.property, v.oracle)).or_insert(0) += 1;
                continue;
            }
            if let Some(k) = is_known(&known, v) {
                let e = known_hits.entry(format!("{}|{}|{}", k.property, k.oracle, k.signature)).or_insert((k, 0));
                e.1 += 1;
            } else {
                new_viol.push((*seed, v.clone()));
            }
        }
    }
    let n = batch.lines.len() as u64;
    if let Some(e) = harness_err {
        println!("HARNESS-ERROR {e}");
        return 2;
    }
    if n == 0 {
        println!("HARNESS-ERROR no runs completed");
        return 2;
    }
    for (k, cnt) in known_hits.values() {
        println!("KNOWN-FINDING: property={} {} [oracle={} signature={:?} hits={}]", k.property, k.what, k.oracle, k.signature, cnt);
    }
    let mut exit = 0;
    let mut violations_reported = 0;
    if let Some((seed, v)) = new_viol.first().cloned() {
        // Re-generate, minimise, write, confirm in a fresh process.
        let plan = sc.generate(seed, tier);
        let (mplan, mv) = minimise(sc, &plan, &v, if tier == Tier::Quick { 60 } else { 300 });
        let path = write_replay(&mplan, &mv, sc.engine());
        if confirm_in_fresh_process(&path) {
            println!("{}", mv.summary);
            println!("minimised {} -> {} events", plan.events.len(), mplan.events.len());
            println!("VIOLATION property={} replay={}", sc.property(), path);
            exit = 1;
            violations_reported = new_viol.len();
        } else {
            // try the unminimised plan
            let path2 = write_replay(&plan, &v, sc.engine());
            if confirm_in_fresh_process(&path2) {
                println!("{}", v.summary);
                println!("VIOLATION property={} replay={}", sc.property(), path2);
                exit = 1;
                violations_reported = new_viol.len();
            } else {
                println!("HARNESS-ERROR violation did not reproduce from its replay file {path2}: {}", v.summary);
                return 2;
            }
        }
    }
    let wall = t0.elapsed().as_secs_f64();
    let distinct = (states.len() as u64).max(nontrivial_runs);
    let zero_probes: Vec<&String> = probes.iter().filter(|(_, v)| **v == 0).map(|(k, _)| k).collect();
    let ev = json!({
        "property_id": sc.property(),
        "tier": tier.name(),
        "seed": base,
        "level": sc.level(),
        "coverage": {
            "evaluations": n,
            "distinct_nontrivial": distinct,
            "rule": sc.rule(),
            "samples": samples,
            "exhaustive": sc.exhaustive(),
            "simulated_runs": n,
            "runs_per_hour": if wall > 0.0 { (n as f64 / wall * 3600.0) as u64 } else { 0 },
            "simulated_time_covered_s": sim_secs,
            "events_executed": events,
            "distinct_state_digests": states.len(),
            "distinct_event_trigrams": trigrams.len(),
            "distinct_nontrivial_run_traces": nontrivial_runs,
            "faults_fired": faults,
            "probes": probes,
            "probes_at_zero": zero_probes,
            "components": sc.components(),
            "known_findings_hit": known_hits.values().map(|(k, c)| json!({"signature": k.signature, "oracle": k.oracle, "hits": c})).collect::<Vec<_>>(),
            "foreign_oracle_hits": foreign,
            "budget_runs": b.runs,
        },
        "assumptions": sc.assumptions(),
        "wall_s": wall,
        "violations": violations_reported,
    });
    let _ = std::fs::create_dir_all("/verif/evidence");
    let path = format!("/verif/evidence/{}.json", sc.property());
    if let Err(e) = std::fs::write(&path, serde_json::to_string_pretty(&ev).expect("json")) {
        println!("HARNESS-ERROR cannot write evidence: {e}");
        return 2;
    }
    println!(
        "{} {}: runs={} events={} states={} trigrams={} sim_days={:.1} wall={:.1}s exit={}",
        sc.property(), tier.name(), n, events, states.len(), trigrams.len(), sim_secs / 86400.0, wall, exit
    );
    exit
}

/// Triage helper: run a batch and print every distinct (property, oracle, signature) class with a
/// count and an example seed. Not a registered check.
pub fn explore(sc: &dyn Scenario, tier: Tier, runs: u64) -> i32 {
    let base = base_seed();
    let batch = match spawn_workers(sc, tier, base, runs, 3600) {
        Ok(b) => b,
        Err(e) => {
            println!("HARNESS-ERROR {e}");
            return 2;
        }
    };
    let mut classes: BTreeMap<(String, String, String), (u64, u64, String)> = BTreeMap::new();
    let mut probes: BTreeMap<String, u64> = BTreeMap::new();
    let mut faults: BTreeMap<String, u64> = BTreeMap::new();
    let mut herr = 0;
    let mut ms = 0;
    for (_i, seed, o, wall, _s) in &batch.lines {
        ms += wall;
        if let Some(e) = &o.harness_error {
            herr += 1;
            println!("harness error seed {seed}: {e}");
        }
        for (k, v) in &o.probes {
            *probes.entry(k.clone()).or_insert(0) += v;
        }
        for (k, v) in &o.faults {
            *faults.entry(k.clone()).or_insert(0) += v;
        }
        for v in &o.violations {
            let e = classes.entry((v.property.clone(), v.oracle.clone(), v.signature.clone())).or_insert((0, *seed, v.summary.clone()));
            e.0 += 1;
        }
    }
    println!("runs={} harness_errors={} avg_ms={}", batch.lines.len(), herr, ms / (batch.lines.len().max(1) as u64));
    for ((p, o, s), (n, seed, sum)) in &classes {
        let cut: String = sum.chars().take(400).collect();
        println!("{p} {o} [{s}] x{n} e.g. seed {seed}\n      {cut}");
        if std::env::var("VERIF_MIN").is_ok() {
            let plan = sc.generate(*seed, tier);
            let target = Violation { property: p.clone(), oracle: o.clone(), signature: s.clone(), summary: String::new(), step: 0 };
            // VERIF_MIN=<seconds> sets the minimisation budget per class (default 30 s)
            let budget = std::env::var("VERIF_MIN").ok().and_then(|s| s.parse::<u64>().ok()).filter(|n| *n > 1).unwrap_or(30);
            let (mp, mv) = minimise(sc, &plan, &target, budget);
            println!("      minimised {} -> {} events: cfg {}", plan.events.len(), mp.events.len(), mp.cfg);
            for e in &mp.events {
                println!("        {e}");
            }
            println!("      => {}", mv.summary.chars().take(600).collect::<String>());
        }
    }
    println!("probes: {probes:?}");
    println!("faults: {faults:?}");
    0
}

/// Determinism self-check: run `n` seeds twice in separate processes (and with different worker
/// counts) and compare the trace digests.
pub fn determinism(sc: &dyn Scenario, tier: Tier, n: u64) -> Result<u64, String> {
    let base = base_seed();
    std::env::set_var("VERIF_JOBS", "16");
    let a = spawn_workers(sc, tier, base, n, 3600)?;
    std::env::set_var("VERIF_JOBS", "3");
    let b = spawn_workers(sc, tier, base, n, 3600)?;
    std::env::remove_var("VERIF_JOBS");
    if a.lines.len() != b.lines.len() {
        return Err(format!("run counts differ {} vs {}", a.lines.len(), b.lines.len()));
    }
    for (x, y) in a.lines.iter().zip(b.lines.iter()) {
        if x.2.trace_digest != y.2.trace_digest || x.2.violations != y.2.violations {
            return Err(format!("{} seed {} diverged: {:016x} vs {:016x}", sc.property(), x.1, x.2.trace_digest, y.2.trace_digest));
        }
    }
    Ok(a.lines.len() as u64)
}
