//! A simulated kanidm server node: real `QueryServer` (+ optional `IdmServer`) booted through the
//! production start-up sequence using the public API only.
use kanidm_proto::internal::FsType;
use kanidmd_lib::be::{Backend, BackendConfig};
use kanidmd_lib::idm::server::{IdmServer, IdmServerAudit, IdmServerDelayed};
use kanidmd_lib::prelude::*;
use kanidmd_lib::schema::Schema;
use std::future::Future;
use std::path::{Path, PathBuf};
use std::pin::Pin;
use std::task::{Context, Poll, Waker};
use std::time::Duration;

thread_local! {
    static RT: tokio::runtime::Runtime = tokio::runtime::Builder::new_current_thread()
        .enable_time()
        .start_paused(true)
        .build()
        .expect("runtime");
}

/// Run one of kanidm's async calls to completion on this thread's (paused-clock) runtime.
pub fn block<F: Future>(f: F) -> F::Output {
    RT.with(|rt| rt.block_on(f))
}

/// Poll a future exactly once with a no-op waker; kanidm's `read()/write()` are immediately
/// ready when no other transaction holds the tickets. Used for nested (thread-free) interleaving.
pub fn poll_now<F: Future>(f: F) -> Option<F::Output> {
    let mut f: Pin<Box<F>> = Box::pin(f);
    let mut cx = Context::from_waker(Waker::noop());
    match f.as_mut().poll(&mut cx) {
        Poll::Ready(v) => Some(v),
        Poll::Pending => None,
    }
}

pub const DOMAIN_NAME: &str = "example.com";
pub const ORIGIN: &str = "https://idm.example.com";

#[derive(Clone, Debug)]
pub struct NodeCfg {
    /// None → private in-memory SQLite database (pool forced to 1 by kanidm).
    pub path: Option<PathBuf>,
    pub pool: u32,
    pub arc: Option<usize>,
    pub level: DomainVersion,
}

impl NodeCfg {
    pub fn mem() -> Self {
        NodeCfg { path: None, pool: 1, arc: None, level: DOMAIN_TGT_LEVEL }
    }
    pub fn file(p: &Path) -> Self {
        NodeCfg { path: Some(p.to_path_buf()), pool: 4, arc: None, level: DOMAIN_TGT_LEVEL }
    }
}

/// Production boot sequence: schema → idxmeta → backend → query server → initialise_helper.
pub fn boot_qs(cfg: &NodeCfg, ct: Duration) -> Result<QueryServer, OperationError> {
    let schema = Schema::new()?;
    let idxmeta = {
        let s = schema.write();
        s.reload_idxmeta()
    };
    kanidmd_lib::verif_hooks::set_arc_floor(cfg.arc);
    let becfg = BackendConfig::new(cfg.path.as_deref(), cfg.pool, FsType::Generic, None);
    let be = Backend::new(becfg, idxmeta, false)?;
    kanidmd_lib::verif_hooks::set_arc_floor(None);
    let qs = QueryServer::new(be, schema, DOMAIN_NAME.to_string(), ct)?;
    block(qs.initialise_helper(ct, cfg.level))?;
    Ok(qs)
}

/// Open the database WITHOUT the start-up migrations: reads see exactly what is on disk.
pub fn open_raw(cfg: &NodeCfg, ct: Duration) -> Result<QueryServer, OperationError> {
    let schema = Schema::new()?;
    let idxmeta = {
        let s = schema.write();
        s.reload_idxmeta()
    };
    let becfg = BackendConfig::new(cfg.path.as_deref(), cfg.pool, FsType::Generic, None);
    let be = Backend::new(becfg, idxmeta, false)?;
    QueryServer::new(be, schema, DOMAIN_NAME.to_string(), ct)
}

pub struct Idm {
    pub idms: IdmServer,
    pub delayed: IdmServerDelayed,
    pub audit: IdmServerAudit,
}

pub fn boot_idm(qs: QueryServer, ct: Duration) -> Result<Idm, OperationError> {
    let url = Url::parse(ORIGIN).expect("url");
    let (idms, delayed, audit) = block(IdmServer::new(qs, &url, true, ct))?;
    Ok(Idm { idms, delayed, audit })
}

/// Scratch directory on /dev/shm, removed on drop.
pub struct Scratch(pub PathBuf);
impl Scratch {
    pub fn new(tag: &str) -> Self {
        let p = PathBuf::from(format!("/dev/shm/kvsim-{}-{}", std::process::id(), tag));
        let _ = std::fs::remove_dir_all(&p);
        std::fs::create_dir_all(&p).expect("scratch dir");
        Scratch(p)
    }
    pub fn path(&self) -> &Path {
        &self.0
    }
}
impl Drop for Scratch {
    fn drop(&mut self) {
        let _ = std::fs::remove_dir_all(&self.0);
    }
}

/// Copy `db` and `db-wal` (what a dead process leaves behind; `-shm` is rebuilt by recovery).
pub fn snapshot_db(db: &Path, to_dir: &Path) -> std::io::Result<PathBuf> {
    std::fs::create_dir_all(to_dir)?;
    let name = db.file_name().expect("db name");
    let dst = to_dir.join(name);
    std::fs::copy(db, &dst)?;
    let mut wal = db.as_os_str().to_owned();
    wal.push("-wal");
    let wal = PathBuf::from(wal);
    if wal.exists() {
        let mut dwal = dst.as_os_str().to_owned();
        dwal.push("-wal");
        std::fs::copy(&wal, PathBuf::from(dwal))?;
    }
    Ok(dst)
}
