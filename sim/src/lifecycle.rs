//! C26 — recycle-bin lifecycle under a simulated clock; C48 — domain-level upgrade with user content
//! (incl. process death inside the migration transaction).
use crate::driver::{Budget, Outcome, Plan, Scenario, Tier};
use crate::dump::{ava_strings, entry_state, is_secret_attr, EState, EntryArc};
use crate::node::{block, boot_qs, snapshot_db, NodeCfg, Scratch};
use crate::rng::{fnv64, uuid_for, Rng};
use kanidmd_lib::entry::{Entry, EntryInit, EntryNew};
use kanidmd_lib::prelude::*;
use kanidmd_lib::verif_hooks as vh;
use serde::{Deserialize, Serialize};
use serde_json::{json, Value as J};
use std::cell::RefCell;
use std::collections::{BTreeMap, BTreeSet};
use std::rc::Rc;

fn person(u: Uuid, name: &str) -> Entry<EntryInit, EntryNew> {
    entry_init!(
        (Attribute::Class, EntryClass::Object.to_value()),
        (Attribute::Class, EntryClass::Account.to_value()),
        (Attribute::Class, EntryClass::Person.to_value()),
        (Attribute::Name, Value::new_iname(name)),
        (Attribute::Uuid, Value::Uuid(u)),
        (Attribute::Description, Value::new_utf8s(name)),
        (Attribute::DisplayName, Value::new_utf8s(name))
    )
}
fn group(u: Uuid, name: &str, members: &[Uuid]) -> Entry<EntryInit, EntryNew> {
    let mut e = entry_init!((Attribute::Class, EntryClass::Object.to_value()), (Attribute::Class, EntryClass::Group.to_value()), (Attribute::Name, Value::new_iname(name)), (Attribute::Uuid, Value::Uuid(u)));
    for m in members {
        e.add_ava(Attribute::Member, Value::Refer(*m));
    }
    e
}

// ------------------------------------------------------------------------------------------------
// C26
// ------------------------------------------------------------------------------------------------

#[derive(Serialize, Deserialize, Clone, Debug)]
#[serde(tag = "op")]
pub enum Op {
    Person { u: Uuid, name: String },
    Group { u: Uuid, name: String, members: Vec<Uuid> },
    AddMember { g: Uuid, m: Uuid },
    Delete { u: Uuid },
    Revive { u: Uuid },
    Touch { u: Uuid },
    Advance { secs: u64 },
    PurgeRecycled,
    PurgeTombstones,
    Restart,
}

#[derive(Default, Clone, Debug)]
struct MEntry {
    /// simulated time of the delete that put it into the bin (None = live or never existed)
    deleted_at: Option<u64>,
    /// time at which it was first seen as a tombstone
    tomb_at: Option<u64>,
    /// groups that listed it directly when it was deleted
    groups_at_delete: BTreeSet<Uuid>,
    exists: bool,
    is_group: bool,
}

pub fn generate_c26(seed: u64, tier: Tier) -> Plan {
    let mut g = Rng::stream(seed, "workload");
    let mut k = Rng::stream(seed, "knobs");
    let file_backed = k.chance(1, 3);
    let n = if tier == Tier::Quick { 30 + g.below(40) } else { 40 + g.below(120) };
    let ps: Vec<Uuid> = (0..6).map(|i| uuid_for(1, i)).collect();
    let gs: Vec<Uuid> = (0..4).map(|i| uuid_for(2, i)).collect();
    let all: Vec<Uuid> = ps.iter().chain(gs.iter()).cloned().collect();
    let day = 86400u64;
    let win = RECYCLEBIN_MAX_AGE;
    let mut evs = vec![];
    for (i, u) in ps.iter().enumerate().take(4) {
        evs.push(Op::Person { u: *u, name: format!("lp{i}") });
    }
    for (i, u) in gs.iter().enumerate().take(3) {
        evs.push(Op::Group { u: *u, name: format!("lg{i}"), members: vec![ps[i % 4], ps[(i + 1) % 4]] });
    }
    for _ in 0..n {
        let op = match g.below(20) {
            0 => Op::Person { u: *g.pick(&ps), name: format!("lp{}", g.below(8)) },
            1 => Op::Group { u: *g.pick(&gs), name: format!("lg{}", g.below(6)), members: vec![*g.pick(&ps)] },
            2 | 3 => Op::AddMember { g: *g.pick(&gs), m: *g.pick(&all) },
            4..=7 => Op::Delete { u: *g.pick(&all) },
            8..=10 => Op::Revive { u: *g.pick(&all) },
            11 => Op::Touch { u: *g.pick(&all) },
            12..=14 => Op::Advance { secs: *g.pick(&[1, 60, 3600, day, 3 * day, win - 1800, win - 100, win - 10, win - 3, win - 2, win - 1, win, win + 1, win + 2, 2 * win + 5, CHANGELOG_MAX_AGE - 3, CHANGELOG_MAX_AGE + 1]) },
            15 | 16 => Op::PurgeRecycled,
            17 | 18 => Op::PurgeTombstones,
            _ => {
                if file_backed {
                    Op::Restart
                } else {
                    Op::PurgeRecycled
                }
            }
        };
        evs.push(op);
    }
    let events = evs
        .iter()
        .enumerate()
        .map(|(i, o)| {
            let mut v = serde_json::to_value(o).expect("json");
            v["id"] = json!(i as u64 + 1);
            v
        })
        .collect();
    Plan { property: "C26".into(), seed, cfg: json!({"file_backed": file_backed}), events }
}

pub fn execute_c26(plan: &Plan) -> Outcome {
    let mut out = Outcome::default();
    let file_backed = plan.cfg.get("file_backed").and_then(|x| x.as_bool()).unwrap_or(false);
    let scratch = if file_backed { Some(Scratch::new(&format!("lc-{:x}", plan.seed))) } else { None };
    let ncfg = NodeCfg { path: scratch.as_ref().map(|s| s.path().join("l.db")), pool: 4, arc: None, level: DOMAIN_TGT_LEVEL };
    crate::entropy::swap_stream(Some(Rng::new(plan.seed ^ 0xc26)));
    let mut t: u64 = 0;
    let ct = |t: u64| Duration::from_secs(crate::cluster::BASE_EPOCH + t);
    let mut qs = match boot_qs(&ncfg, ct(t)) {
        Ok(q) => q,
        Err(e) => return Outcome { harness_error: Some(format!("boot {e:?}")), ..Default::default() },
    };
    let mut model: BTreeMap<Uuid, MEntry> = BTreeMap::new();
    for p in ["delete moved an entry to the recycle bin", "revive restored an entry", "revive restored a direct membership", "purge made a tombstone", "tombstone reaped", "revive of a tombstone attempted"] {
        out.probe0(p);
    }
    for (i, ev) in plan.events.iter().enumerate() {
        let id = ev.get("id").and_then(|x| x.as_u64()).unwrap_or(i as u64);
        crate::entropy::swap_stream(Some(Rng::new(plan.seed ^ id.wrapping_mul(0x9E37_79B9_7F4A_7C15))));
        let Ok(op) = serde_json::from_value::<Op>(ev.clone()) else { continue };
        out.events_run += 1;
        t += 1;
        let mut viol = |out: &mut Outcome, oracle: &str, sig: &str, msg: String| {
            if !out.violations.iter().any(|v| v.signature == sig) {
                out.violate("C26", oracle, sig, msg, i);
            }
        };
        // state before
        let state_of = |qs: &QueryServer, u: Uuid| -> Option<(EState, EntryArc)> { block(qs.read()).ok().and_then(|mut r| r.internal_search_all_uuid(u).ok()).map(|e| (entry_state(&e), e)) };
        let mut w_ok = false;
        match op.clone() {
            Op::Person { u, name } => {
                if let Ok(mut w) = block(qs.write(ct(t))) {
                    if w.internal_create(vec![person(u, &name)]).and_then(|_| w.commit()).is_ok() {
                        model.insert(u, MEntry { exists: true, ..Default::default() });
                        w_ok = true;
                    }
                }
            }
            Op::Group { u, name, members } => {
                if let Ok(mut w) = block(qs.write(ct(t))) {
                    if w.internal_create(vec![group(u, &name, &members)]).and_then(|_| w.commit()).is_ok() {
                        model.insert(u, MEntry { exists: true, is_group: true, ..Default::default() });
                        w_ok = true;
                    }
                }
            }
            Op::AddMember { g, m } => {
                if let Ok(mut w) = block(qs.write(ct(t))) {
                    w_ok = w.internal_modify_uuid(g, &ModifyList::new_append(Attribute::Member, Value::Refer(m))).and_then(|_| w.commit()).is_ok();
                }
            }
            Op::Touch { u } => {
                if let Ok(mut w) = block(qs.write(ct(t))) {
                    w_ok = w.internal_modify_uuid(u, &ModifyList::new_purge_and_set(Attribute::Description, Value::new_utf8s(&format!("t{t}")))).and_then(|_| w.commit()).is_ok();
                }
            }
            Op::Delete { u } => {
                let before = state_of(&qs, u);
                // groups that list it directly right now
                let direct: BTreeSet<Uuid> = before.as_ref().map(|(_, e)| crate::oracles::refers(e, Attribute::DirectMemberOf)).unwrap_or_default();
                if let Ok(mut w) = block(qs.write(ct(t))) {
                    if w.internal_delete_uuid(u).and_then(|_| w.commit()).is_ok() && matches!(before, Some((EState::Live, _))) {
                        w_ok = true;
                        // a group that is deleted in the meantime is not "a group that still exists":
                        // forget it as a membership to restore (it need not come back even if the group
                        // itself is revived later)
                        for other in model.values_mut() {
                            other.groups_at_delete.remove(&u);
                        }
                        let m = model.entry(u).or_default();
                        m.deleted_at = Some(t);
                        m.groups_at_delete = direct;
                        out.probe("delete moved an entry to the recycle bin");
                        // gone from normal searches, present in the recycle-bin search
                        if let Ok(mut r) = block(qs.read()) {
                            let normal = r.internal_search(filter!(f_eq(Attribute::Uuid, PartialValue::Uuid(u)))).map(|v| v.len()).unwrap_or(0);
                            let bin = r.internal_search(filter_rec!(f_eq(Attribute::Uuid, PartialValue::Uuid(u)))).map(|v| v.len()).unwrap_or(0);
                            if normal != 0 {
                                viol(&mut out, "deleted-entry-hidden", "deleted entry still in normal search", format!("{u} was deleted but a normal search still returns it"));
                            }
                            if bin != 1 {
                                viol(&mut out, "deleted-entry-in-recycle-bin", "deleted entry not in the recycle bin", format!("{u} was deleted but the recycle-bin search returns {bin} entries"));
                            }
                        }
                    }
                }
            }
            Op::Revive { u } => {
                let before = state_of(&qs, u);
                let mut res = Err(OperationError::InvalidState);
                if let Ok(mut w) = block(qs.write(ct(t))) {
                    res = vh::internal_revive_uuid(&mut w, u).and_then(|_| w.commit());
                }
                let after = state_of(&qs, u);
                match before {
                    Some((EState::Tombstone, _)) => {
                        out.probe("revive of a tombstone attempted");
                        if !matches!(after, Some((EState::Tombstone, _)) | None) {
                            viol(&mut out, "tombstone-not-revivable", "tombstone revived", format!("{u} was a tombstone, revive returned {res:?} and it is now {:?}", after.map(|a| a.0)));
                        }
                    }
                    Some((EState::Recycled, _)) => {
                        if res.is_ok() {
                            w_ok = true;
                            match &after {
                                Some((EState::Live, e)) => {
                                    out.probe("revive restored an entry");
                                    // direct memberships of groups that still exist (are live) come back; others do not
                                    let m = model.entry(u).or_default().clone();
                                    let now_direct = crate::oracles::refers(e, Attribute::DirectMemberOf);
                                    for gq in &m.groups_at_delete {
                                        let g_live = matches!(state_of(&qs, *gq), Some((EState::Live, _)));
                                        let builtin = gq.as_bytes()[0] < 0xe0;
                                        if builtin || *gq == u {
                                            // dynamic built-in groups are recomputed, not "restored"; membership
                                            // of itself is not "a group that still exists" while it was deleted
                                            continue;
                                        }
                                        if g_live && !now_direct.contains(gq) {
                                            viol(&mut out, "revive-restores-memberships", "direct membership of an existing group not restored", format!("{u} was a direct member of live group {gq} when deleted; after revive it is not"));
                                        } else if g_live {
                                            out.probe("revive restored a direct membership");
                                        }
                                        if !g_live && now_direct.contains(gq) {
                                            viol(&mut out, "revive-restores-memberships", "membership of a deleted group restored", format!("{u} regained membership of {gq}, which is not live"));
                                        }
                                    }
                                    let mm = model.entry(u).or_default();
                                    mm.deleted_at = None;
                                }
                                other => viol(&mut out, "revive-makes-live", "revive reported success but entry not live", format!("{u}: revive Ok but state is {:?}", other.as_ref().map(|a| a.0))),
                            }
                        }
                    }
                    _ => {}
                }
            }
            Op::Advance { secs } => {
                t += secs;
                out.sim_secs += secs as f64;
            }
            Op::PurgeRecycled | Op::PurgeTombstones => {
                let before: BTreeMap<Uuid, EState> = model.keys().filter_map(|u| state_of(&qs, *u).map(|(s, _)| (*u, s))).collect();
                if let Ok(mut w) = block(qs.write(ct(t))) {
                    let r = if matches!(op, Op::PurgeRecycled) { w.purge_recycled() } else { w.purge_tombstones() };
                    w_ok = r.and_then(|_| w.commit()).is_ok();
                }
                for (u, sb) in before {
                    let sa = state_of(&qs, u).map(|(s, _)| s);
                    let m = model.entry(u).or_default();
                    match (sb, sa) {
                        (EState::Recycled, Some(EState::Tombstone)) => {
                            out.probe("purge made a tombstone");
                            m.tomb_at = Some(t);
                            // only after the retention period
                            if let Some(d) = m.deleted_at {
                                if t.saturating_sub(d) < RECYCLEBIN_MAX_AGE {
                                    viol(&mut out, "tombstone-only-after-retention", "recycled entry tombstoned before the retention period", format!("{u} was deleted at t={d}s and became a tombstone at t={t}s, {}s < retention {}s", t - d, RECYCLEBIN_MAX_AGE));
                                }
                            }
                        }
                        (EState::Tombstone, None) => {
                            out.probe("tombstone reaped");
                            if let Some(ts) = m.tomb_at {
                                if t.saturating_sub(ts) < CHANGELOG_MAX_AGE {
                                    viol(&mut out, "tombstone-kept-for-changelog-window", "tombstone removed before the changelog window", format!("{u} became a tombstone at t={ts}s and was removed at t={t}s, {}s < window {}s", t - ts, CHANGELOG_MAX_AGE));
                                }
                            }
                            m.exists = false;
                        }
                        (EState::Live, Some(EState::Live)) | (EState::Recycled, Some(EState::Recycled)) | (EState::Tombstone, Some(EState::Tombstone)) | (EState::Conflict, _) => {}
                        (a, b) => viol(&mut out, "purge-transitions", "purge task made an unexpected transition", format!("{u}: {a:?} -> {b:?} by {op:?}")),
                    }
                }
            }
            Op::Restart => {
                if file_backed {
                    drop(qs);
                    t += 1;
                    match boot_qs(&ncfg, ct(t)) {
                        Ok(q) => qs = q,
                        Err(e) => return Outcome { harness_error: Some(format!("restart {e:?}")), ..out },
                    }
                    out.fault("restart");
                }
            }
        }
        out.chain(fnv64(format!("{op:?}{w_ok}").as_bytes()));
        let dig: Vec<String> = model.keys().map(|u| format!("{:?}", state_of(&qs, *u).map(|(s, _)| s))).collect();
        out.states.push(fnv64(format!("{dig:?}").as_bytes()));
    }
    crate::entropy::swap_stream(None);
    out.states.sort();
    out.states.dedup();
    out.nontrivial = out.events_run >= 5;
    out
}

// ------------------------------------------------------------------------------------------------
// C48
// ------------------------------------------------------------------------------------------------

fn user_view(e: &EntryArc) -> BTreeMap<String, Vec<String>> {
    let mut m = BTreeMap::new();
    for a in [Attribute::Name, Attribute::DisplayName, Attribute::Description, Attribute::Member, Attribute::Mail, Attribute::LegalName, Attribute::Class] {
        let v = ava_strings(e, a.clone());
        if !v.is_empty() {
            m.insert(a.to_string(), v);
        }
    }
    m
}

/// Every stored attribute of an entry (canonical JSON per attribute), for the whole-entry
/// comparison of user-created entries across the upgrade.
fn full_view(e: &EntryArc) -> BTreeMap<String, String> {
    crate::dump::entry_json(e).pointer("/ent/V3/attrs").and_then(|a| a.as_object()).map(|m| m.iter().map(|(k, v)| (k.clone(), v.to_string())).collect()).unwrap_or_default()
}

/// Attributes of a user-created entry the upgrade may legitimately rewrite: bookkeeping, and
/// values derived from built-in entries that the new level redefines.
/// `hmac_name_history` is maintained by the server, not set by users, and on the pinned tree it is
/// rewritten by every server start while the name-history feature is enabled (the in-memory
/// feature state starts as "off", so `reload_feature_config` runs `HmacNameUnique::fixup`): the
/// statement does not cover it and an upgrade cannot be told from a restart there.
const C48_DERIVED: [&str; 6] = ["class", "last_modified_cid", "created_at_cid", "memberof", "directmemberof", "hmac_name_history"];

/// uuids the workload itself created (`uuid_for`): memorials and other entries the server creates
/// on its own carry random uuids and are not user-created entries.
fn is_workload_uuid(u: &Uuid) -> bool {
    let b = u.as_bytes();
    b[0] & 0xf0 == 0xe0 && b[1] == 0x51 && b[2..6] == [0, 0, 0, 0]
}

pub fn generate_c48(seed: u64, tier: Tier) -> Plan {
    let mut g = Rng::stream(seed, "workload");
    let n = if tier == Tier::Quick { 10 + g.below(20) } else { 10 + g.below(60) };
    let mut evs = vec![];
    // members added to built-in groups are user content too
    let builtin_groups = ["idm_admins", "idm_people_admins", "idm_group_admins", "idm_service_desk"];
    // the name-history feature is off by default; an administrator may have switched it on
    if g.chance(1, 2) {
        evs.push(json!({"op":"EnableNameHistory","id": 0}));
    }
    for i in 0..n {
        let v = match g.below(7) {
            6 => json!({"op":"Rename","u": uuid_for(1, g.below(i.max(1))), "name": format!("upr{i}"), "id": i+1}),
            0 | 1 => json!({"op":"Person","u": uuid_for(1, i), "name": format!("up{i}"), "id": i+1}),
            2 => json!({"op":"Group","u": uuid_for(2, i), "name": format!("ug{i}"), "members": [uuid_for(1, g.below(i.max(1)))], "id": i+1}),
            3 => json!({"op":"JoinBuiltin","group": g.pick(&builtin_groups), "m": uuid_for(1, g.below(i.max(1))), "id": i+1}),
            4 => json!({"op":"Desc","u": uuid_for(1, g.below(i.max(1))), "v": format!("désc {i}"), "id": i+1}),
            _ => json!({"op":"Delete","u": uuid_for(1, g.below(i.max(1))), "id": i+1}),
        };
        evs.push(v);
    }
    let crash_points: Vec<u64> = (0..3).map(|_| 1 + g.below(4000)).collect();
    Plan { property: "C48".into(), seed, cfg: json!({"crash_points": crash_points, "clock_back": g.chance(1, 3)}), events: evs }
}

pub fn execute_c48(plan: &Plan) -> Outcome {
    let mut out = Outcome::default();
    let scratch = Scratch::new(&format!("up-{:x}", plan.seed));
    let dbp = scratch.path().join("u.db");
    let old = NodeCfg { path: Some(dbp.clone()), pool: 4, arc: None, level: DOMAIN_PREVIOUS_TGT_LEVEL };
    let new = NodeCfg { path: Some(dbp.clone()), pool: 4, arc: None, level: DOMAIN_TGT_LEVEL };
    crate::entropy::swap_stream(Some(Rng::new(plan.seed ^ 0xc48)));
    let mut t = 0u64;
    let ct = |t: u64| Duration::from_secs(crate::cluster::BASE_EPOCH + t);
    let r = (|| -> Result<(), String> {
        let qs = boot_qs(&old, ct(t)).map_err(|e| format!("boot at previous level: {e:?}"))?;
        for (i, ev) in plan.events.iter().enumerate() {
            t += 1;
            crate::entropy::swap_stream(Some(Rng::new(plan.seed ^ (i as u64 + 1).wrapping_mul(0x9E37_79B9_7F4A_7C15))));
            let Ok(mut w) = block(qs.write(ct(t))) else { continue };
            let u = |k: &str| ev.get(k).and_then(|x| x.as_str()).and_then(|s| Uuid::parse_str(s).ok()).unwrap_or(Uuid::nil());
            let s = |k: &str| ev.get(k).and_then(|x| x.as_str()).unwrap_or("").to_string();
            let res = match s("op").as_str() {
                "Person" => w.internal_create(vec![person(u("u"), &s("name"))]),
                "Group" => {
                    let ms: Vec<Uuid> = ev.get("members").and_then(|x| x.as_array()).map(|a| a.iter().filter_map(|x| x.as_str().and_then(|s| Uuid::parse_str(s).ok())).collect()).unwrap_or_default();
                    w.internal_create(vec![group(u("u"), &s("name"), &ms)])
                }
                "JoinBuiltin" => w.internal_modify(&filter!(f_eq(Attribute::Name, PartialValue::new_iname(&s("group")))), &ModifyList::new_append(Attribute::Member, Value::Refer(u("m")))),
                "Desc" => w.internal_modify_uuid(u("u"), &ModifyList::new_purge_and_set(Attribute::Description, Value::new_utf8s(&s("v")))),
                "Delete" => w.internal_delete_uuid(u("u")),
                "Rename" => w.internal_modify_uuid(u("u"), &ModifyList::new_purge_and_set(Attribute::Name, Value::new_iname(&s("name")))),
                "EnableNameHistory" => {
                    let r = w.internal_modify_uuid(UUID_HMAC_NAME_FEATURE, &ModifyList::new_purge_and_set(Attribute::Enabled, Value::Bool(true)));
                    if r.is_ok() {
                        out.probe("name-history feature enabled at the previous level");
                    }
                    r
                }
                _ => Ok(()),
            };
            out.events_run += 1;
            if res.is_ok() {
                let _ = w.commit();
            }
        }
        // user content before the upgrade
        let before: BTreeMap<Uuid, (EState, BTreeMap<String, Vec<String>>)> = {
            let mut r = block(qs.read()).map_err(|e| format!("{e:?}"))?;
            crate::dump::search_all(&mut r).map_err(|e| format!("{e:?}"))?.iter().filter(|e| e.get_uuid().as_bytes()[0] >= 0xe0).map(|e| (e.get_uuid(), (entry_state(e), user_view(e)))).collect()
        };
        let full_before: BTreeMap<Uuid, BTreeMap<String, String>> = {
            let mut r = block(qs.read()).map_err(|e| format!("{e:?}"))?;
            crate::dump::search_all(&mut r).map_err(|e| format!("{e:?}"))?.iter().filter(|e| is_workload_uuid(&e.get_uuid()) && entry_state(e) == EState::Live).map(|e| (e.get_uuid(), full_view(e))).collect()
        };
        let builtin_members_before: BTreeMap<Uuid, BTreeSet<Uuid>> = {
            let mut r = block(qs.read()).map_err(|e| format!("{e:?}"))?;
            crate::dump::search_all(&mut r).map_err(|e| format!("{e:?}"))?.iter().filter(|e| e.get_uuid().as_bytes()[0] < 0xe0).map(|e| (e.get_uuid(), crate::oracles::refers(e, Attribute::Member).into_iter().filter(|m| m.as_bytes()[0] >= 0xe0).collect())).collect()
        };
        drop(qs);
        // the upgrade = restart at the target level; the process may die inside the migration
        let points: BTreeSet<u64> = plan.cfg.get("crash_points").and_then(|x| x.as_array()).map(|a| a.iter().filter_map(|x| x.as_u64()).collect()).unwrap_or_default();
        let clock_back = plan.cfg.get("clock_back").and_then(|x| x.as_bool()).unwrap_or(false);
        let snaps: Rc<RefCell<Vec<std::path::PathBuf>>> = Rc::new(RefCell::new(vec![]));
        let (s2, db2, sdir) = (snaps.clone(), dbp.clone(), scratch.path().to_path_buf());
        let mut my = 0u64;
        vh::set_storage_callback(Some(Box::new(move |_k, _i| {
            my += 1;
            if points.contains(&my) {
                let d = sdir.join(format!("crash-{my}"));
                if snapshot_db(&db2, &d).is_ok() {
                    s2.borrow_mut().push(d);
                }
            }
            Ok(())
        })));
        t = if clock_back { t.saturating_sub(5) } else { t + 100 };
        let up = boot_qs(&new, ct(t));
        vh::set_storage_callback(None);
        let qs = up.map_err(|e| {
            out.violate("C48", "upgrade-succeeds", "upgrade to the target level fails", format!("initialise at DOMAIN_TGT_LEVEL on a previous-level database failed: {e:?}"), 0);
            "upgrade failed".to_string()
        })?;
        let judge = |out: &mut Outcome, qs: &QueryServer, tag: &str| -> Result<(), String> {
            let mut r = block(qs.read()).map_err(|e| format!("{e:?}"))?;
            let errs: Vec<String> = vh::verify_read(&mut r).into_iter().filter_map(|x| x.err()).map(|e| format!("{e:?}")).collect();
            if !errs.is_empty() {
                out.violate("C48", "consistency-after-upgrade", &format!("verify() reports {} {tag}", errs[0].chars().take(28).collect::<String>()), format!("{tag}: {errs:?}"), 0);
            }
            let all = crate::dump::search_all(&mut r).map_err(|e| format!("{e:?}"))?;
            let by: BTreeMap<Uuid, &EntryArc> = all.iter().map(|e| (e.get_uuid(), e)).collect();
            for (u, (st, view)) in &before {
                match by.get(u) {
                    None => out.violate("C48", "user-entry-kept", &format!("user entry lost {tag}"), format!("{tag}: {u} ({st:?}) no longer exists"), 0),
                    Some(e) => {
                        if entry_state(e) != *st {
                            out.violate("C48", "user-entry-kept", &format!("user entry changed state {tag}"), format!("{tag}: {u} {st:?} -> {:?}", entry_state(e)), 0);
                        } else if *st == EState::Live {
                            // every other stored attribute of a user-created entry: the upgrade has
                            // no business changing it (user-set or maintained from user actions)
                            if let Some(fb) = full_before.get(u) {
                                let fa = full_view(e);
                                for (a, v) in fb {
                                    if C48_DERIVED.contains(&a.as_str()) {
                                        continue;
                                    }
                                    match fa.get(a) {
                                        Some(v2) if v2 == v => {}
                                        other => out.violate("C48", "user-values-kept", &format!("attribute {a} of a user-created entry changed {tag}"), format!("{tag}: {u} {a}: {v} -> {other:?}"), 0),
                                    }
                                }
                            }
                            let now = user_view(e);
                            for (a, vals) in view {
                                let have = now.get(a).cloned().unwrap_or_default();
                                if a == "class" {
                                    if !vals.iter().all(|v| have.contains(v)) {
                                        out.violate("C48", "user-values-kept", &format!("user entry lost a class {tag}"), format!("{tag}: {u} classes {vals:?} -> {have:?}"), 0);
                                    }
                                } else if &have != vals {
                                    out.violate("C48", "user-values-kept", &format!("user-set attribute {a} changed {tag}"), format!("{tag}: {u} {a}: {vals:?} -> {have:?}"), 0);
                                }
                            }
                        }
                    }
                }
            }
            for (gq, ms) in &builtin_members_before {
                if let Some(e) = by.get(gq) {
                    let now = crate::oracles::refers(e, Attribute::Member);
                    for m in ms {
                        if !now.contains(m) && matches!(by.get(m).map(|x| entry_state(x)), Some(EState::Live)) {
                            out.violate("C48", "user-values-kept", &format!("user-added member of a built-in group lost {tag}"), format!("{tag}: built-in group {gq} lost member {m}"), 0);
                        }
                    }
                }
            }
            Ok(())
        };
        judge(&mut out, &qs, "after upgrade")?;
        // built-in entries of the target level: compare with a fresh target-level install ("contains")
        {
            let saved = crate::entropy::swap_stream(Some(Rng::new(0xf1e5)));
            let fresh = boot_qs(&NodeCfg::mem(), ct(t)).map_err(|e| format!("fresh boot {e:?}"))?;
            crate::entropy::swap_stream(saved);
            let mut rf = block(fresh.read()).map_err(|e| format!("{e:?}"))?;
            let mut ru = block(qs.read()).map_err(|e| format!("{e:?}"))?;
            let fa = crate::dump::search_all(&mut rf).map_err(|e| format!("{e:?}"))?;
            let ua: BTreeMap<Uuid, EntryArc> = crate::dump::search_all(&mut ru).map_err(|e| format!("{e:?}"))?.into_iter().map(|e| (e.get_uuid(), e)).collect();
            let mut compared = 0;
            for fe in fa.iter().filter(|e| entry_state(e) == EState::Live) {
                let u = fe.get_uuid();
                // entries whose uuid is generated per install (domain keys etc.) cannot be matched by uuid
                let Some(ue) = ua.get(&u) else {
                    if ava_strings(fe, Attribute::Class).iter().any(|c| c == "builtin") {
                        out.violate("C48", "builtin-present", "built-in entry of the target level missing after upgrade", format!("built-in {u} ({:?}) exists on a fresh install but not after the upgrade", ava_strings(fe, Attribute::Name)), 0);
                    }
                    continue;
                };
                compared += 1;
                for (a, vs) in fe.get_ava_iter() {
                    let an = a.to_string();
                    if is_secret_attr(&an) || ["last_modified_cid", "created_at_cid", "domain_uuid", "version", "domain_ssid", "memberof", "directmemberof", "dynmember", "spn", "name_history", "domain_name", "domain_display_name", "patch_level", "domain_development_taint"].contains(&an.as_str()) {
                        continue;
                    }
                    let want: Vec<String> = vs.to_proto_string_clone_iter().collect();
                    let have = ava_strings(ue, a.clone());
                    let missing: Vec<&String> = want.iter().filter(|w| !have.contains(w)).collect();
                    if !missing.is_empty() {
                        out.violate("C48", "builtin-carries-definition", &format!("built-in lacks a value of its current definition: attribute {an}"), format!("built-in {u} ({:?}): {an} lacks {missing:?} (has {have:?})", ava_strings(fe, Attribute::Name)), 0);
                    }
                }
            }
            if compared > 50 {
                out.probe("built-ins compared with a fresh install");
            }
        }
        drop(qs);
        // process death inside the migration: the restart must complete the upgrade
        for d in snaps.borrow().iter() {
            out.fault("crash_in_migration");
            let cfg2 = NodeCfg { path: Some(d.join("u.db")), pool: 4, arc: None, level: DOMAIN_TGT_LEVEL };
            match boot_qs(&cfg2, ct(t + 5)) {
                Ok(q2) => {
                    judge(&mut out, &q2, "after death inside the migration and restart")?;
                    out.probe("upgrade re-run after death inside the migration");
                }
                Err(e) => out.violate("C48", "upgrade-rerunnable", "restart after death inside the migration fails", format!("boot on files left by a death inside the migration: {e:?}"), 0),
            }
        }
        Ok(())
    })();
    vh::set_storage_callback(None);
    crate::entropy::swap_stream(None);
    if let Err(e) = r {
        if e != "upgrade failed" {
            out.harness_error = Some(e);
        }
    }
    // dedup violations by signature
    let mut seen = BTreeSet::new();
    out.violations.retain(|v| seen.insert((v.oracle.clone(), v.signature.clone())));
    out.chain(fnv64(format!("{:?}{:?}", out.violations, out.probes).as_bytes()));
    out.states.push(fnv64(format!("{:?}", plan.events).as_bytes()));
    out.states.push(fnv64(format!("{:?}", plan.cfg).as_bytes()));
    out.nontrivial = out.events_run >= 3;
    out
}

pub struct LifeScenario {
    id: &'static str,
}

impl Scenario for LifeScenario {
    fn property(&self) -> &'static str {
        self.id
    }
    fn engine(&self) -> &'static str {
        if self.id == "C26" {
            "E1 lifecycle"
        } else {
            "E9 upgrade"
        }
    }
    fn budget(&self, tier: Tier) -> Budget {
        match (self.id, tier) {
            ("C26", Tier::Quick) => Budget { runs: 320, wall_cap_s: 120 },
            ("C26", Tier::Thorough) => Budget { runs: 60_000, wall_cap_s: 1500 },
            (_, Tier::Quick) => Budget { runs: 64, wall_cap_s: 150 },
            (_, Tier::Thorough) => Budget { runs: 4000, wall_cap_s: 1700 },
        }
    }
    fn generate(&self, seed: u64, tier: Tier) -> Plan {
        if self.id == "C26" {
            generate_c26(seed, tier)
        } else {
            generate_c48(seed, tier)
        }
    }
    fn execute(&self, plan: &Plan) -> Outcome {
        if self.id == "C26" {
            execute_c26(plan)
        } else {
            execute_c48(plan)
        }
    }
    fn rule(&self) -> String {
        if self.id == "C26" {
            "A run = persons and groups with memberships, then 30–160 events: delete, revive, edits, purge_recycled, purge_tombstones, restarts and clock advances placed at the retention period −1 s, =, +1 s, +2 s, twice the period and the changelog window +1 s. Checked with a lifecycle model: a deleted entry is hidden from normal search and present in the recycle-bin search; revive restores it with the direct memberships of groups that are still live and none of deleted groups; a recycled entry becomes a tombstone only after the retention period; a tombstone is never revived; a tombstone is removed only after the changelog window. distinct_nontrivial = distinct lifecycle-state vectors.".into()
        } else {
            "A run = a database bootstrapped at the previous domain level, seeded user content (persons, groups, memberships incl. members added to built-in groups, edits, deletes), then a restart at the current level (the production upgrade path), optionally with the clock set back, with the files snapshotted at three random storage calls inside the migration and the upgrade re-run from each snapshot. Checked: the upgrade succeeds, verify() is empty, every user entry keeps its state and user-set values, user-added members of built-in groups stay, and every built-in entry of a fresh current-level install exists and contains every value of its definition. distinct_nontrivial = distinct (content, crash points) digests.".into()
        }
    }
    fn components(&self) -> J {
        json!({"real": ["kanidmd_lib delete / revive / purge tasks / migrations (initialise_helper at both levels)", "SQLite files for restart and migration crash points"], "stub": ["interval scheduler (tasks fired as events)", "wall clock", "OS entropy"], "not_run": ["replication partner at the old level"]})
    }
    fn assumptions(&self) -> Vec<String> {
        vec!["operations are issued by the internal identity (access to the recycle bin is C23/C24's subject)".into(), "sampled, not exhaustive".into()]
    }
}

pub fn scenarios() -> Vec<Box<dyn Scenario>> {
    vec![Box::new(LifeScenario { id: "C26" }), Box::new(LifeScenario { id: "C48" })]
}
