//! Canonical dumps of a server's whole database, used by every oracle that compares states.
use crate::rng::fnv64;
use kanidmd_lib::entry::{Entry, EntryCommitted, EntrySealed};
use kanidmd_lib::prelude::*;
use serde_json::Value as J;
use std::collections::BTreeMap;
use std::sync::Arc;

pub type EntryArc = Arc<Entry<EntrySealed, EntryCommitted>>;

#[derive(Clone, Copy, Debug, PartialEq, Eq, PartialOrd, Ord)]
pub enum EState {
    Live,
    Recycled,
    Tombstone,
    Conflict,
}

/// Recursively sort arrays so that set-valued encodings compare independent of insertion order.
pub fn canon(v: J) -> J {
    match v {
        J::Array(a) => {
            let mut a: Vec<J> = a.into_iter().map(canon).collect();
            a.sort_by_cached_key(|x| x.to_string());
            J::Array(a)
        }
        J::Object(m) => J::Object(m.into_iter().map(|(k, v)| (k, canon(v))).collect()),
        x => x,
    }
}

pub fn entry_state(e: &Entry<EntrySealed, EntryCommitted>) -> EState {
    if e.attribute_equality(Attribute::Class, &EntryClass::Tombstone.into()) {
        EState::Tombstone
    } else if e.attribute_equality(Attribute::Class, &EntryClass::Conflict.into()) {
        EState::Conflict
    } else if e.attribute_equality(Attribute::Class, &EntryClass::Recycled.into()) {
        EState::Recycled
    } else {
        EState::Live
    }
}

pub fn entry_json(e: &Entry<EntrySealed, EntryCommitted>) -> J {
    canon(serde_json::to_value(e.to_dbentry()).expect("dbentry json"))
}

/// Attribute names whose VALUES are generated secrets (keys, salts, hashes). Some of that material
/// comes from the crypto library's own generator, which the entropy seam does not own, so it is
/// left out of trace/state digests (presence and value count are kept). Comparisons between
/// replicas or against a pre-state use the full values.
pub fn is_secret_attr(name: &str) -> bool {
    ["key", "secret", "credential", "password", "token", "cookie", "passkey", "totp", "cert", "session"].iter().any(|k| name.contains(k))
}

fn count_leaves(j: &J) -> usize {
    match j {
        J::Array(a) => a.iter().map(count_leaves).sum::<usize>().max(1),
        J::Object(m) => m.values().map(count_leaves).sum::<usize>().max(1),
        _ => 1,
    }
}

/// `entry_json` with secret attribute values replaced by their shape, and with every change-id
/// server uuid kept (server uuids come from the seeded stream).
pub fn entry_json_masked(e: &Entry<EntrySealed, EntryCommitted>) -> J {
    let mut j = entry_json(e);
    if let Some(attrs) = j.pointer_mut("/ent/V3/attrs").and_then(|a| a.as_object_mut()) {
        for (k, v) in attrs.iter_mut() {
            if is_secret_attr(k) {
                *v = J::String(format!("<secret:{}>", count_leaves(v)));
            }
        }
    }
    j
}

/// Every entry in the database (live, recycled, conflict, tombstone), keyed by uuid.
pub fn all_entries<T: QueryServerTransaction<'static>>(_t: &mut T) {}

pub fn search_all<'a, T: QueryServerTransaction<'a>>(txn: &mut T) -> Result<Vec<EntryArc>, OperationError> {
    txn.internal_search(filter_all!(f_pres(Attribute::Class)))
}

#[derive(Clone, Debug, PartialEq, Eq)]
pub struct Dump {
    pub entries: BTreeMap<Uuid, (EState, J)>,
}

impl Dump {
    pub fn take<'a, T: QueryServerTransaction<'a>>(txn: &mut T) -> Result<Dump, OperationError> {
        let es = search_all(txn)?;
        let mut entries = BTreeMap::new();
        for e in es {
            entries.insert(e.get_uuid(), (entry_state(&e), entry_json(&e)));
        }
        Ok(Dump { entries })
    }
    /// Copy of the dump with the named attributes removed from every entry.
    pub fn without_attrs(mut self, names: &[&str]) -> Dump {
        for (_, j) in self.entries.values_mut() {
            if let Some(attrs) = j.pointer_mut("/ent/V3/attrs").and_then(|a| a.as_object_mut()) {
                for n in names {
                    attrs.remove(*n);
                }
            }
        }
        self
    }
    /// Keep live and conflict entries only (what the convergence property speaks of). Recycled and
    /// tombstoned entries move between "recycled", "tombstone" and "gone" on each replica's own
    /// purge schedule, so they are equivalent to absent here.
    pub fn live_and_conflict(mut self) -> Dump {
        self.entries.retain(|_, (s, _)| matches!(s, EState::Live | EState::Conflict));
        self
    }
    /// Digest for traces: secret attribute values are reduced to their shape (see `is_secret_attr`).
    pub fn digest_masked(&self) -> u64 {
        let mut h = 0u64;
        for (u, (s, j)) in &self.entries {
            let mut j = j.clone();
            if let Some(attrs) = j.pointer_mut("/ent/V3/attrs").and_then(|a| a.as_object_mut()) {
                for (k, v) in attrs.iter_mut() {
                    if is_secret_attr(k) {
                        *v = J::String(format!("<secret:{}>", count_leaves(v)));
                    }
                }
            }
            let line = format!("{u}|{s:?}|{j}");
            h = h.rotate_left(5) ^ fnv64(line.as_bytes());
        }
        h
    }
    pub fn digest(&self) -> u64 {
        let mut h = 0u64;
        for (u, (s, j)) in &self.entries {
            let line = format!("{u}|{s:?}|{j}");
            h = h.rotate_left(5) ^ fnv64(line.as_bytes());
        }
        h
    }
    /// One description per differing entry (every differing attribute of an entry is listed
    /// separately, so that a known difference cannot hide a new one).
    pub fn diff_all(&self, other: &Dump) -> Vec<String> {
        let mut out = vec![];
        for (u, (s, j)) in &self.entries {
            match other.entries.get(u) {
                None => out.push(format!("{u} ({s:?}) only on left")),
                Some((s2, j2)) => {
                    if s != s2 {
                        out.push(format!("{u} state {s:?} vs {s2:?}"));
                    } else if j != j2 {
                        for d in json_diff_all(j, j2, "") {
                            out.push(format!("{u} ({s:?}) differs: {d}"));
                        }
                    }
                }
            }
        }
        for (u, (s, _)) in &other.entries {
            if !self.entries.contains_key(u) {
                out.push(format!("{u} ({s:?}) only on right"));
            }
        }
        out
    }
    /// Human readable first difference between two dumps (None when equal).
    pub fn diff(&self, other: &Dump) -> Option<String> {
        for (u, (s, j)) in &self.entries {
            match other.entries.get(u) {
                None => return Some(format!("{u} ({s:?}) only on left")),
                Some((s2, j2)) => {
                    if s != s2 {
                        return Some(format!("{u} state {s:?} vs {s2:?}"));
                    }
                    if j != j2 {
                        return Some(format!("{u} ({s:?}) differs: {}", json_diff(j, j2)));
                    }
                }
            }
        }
        for (u, (s, _)) in &other.entries {
            if !self.entries.contains_key(u) {
                return Some(format!("{u} ({s:?}) only on right"));
            }
        }
        None
    }
}

/// All leaf-level differences below the attribute level (objects are descended to depth 4).
pub fn json_diff_all(a: &J, b: &J, path: &str) -> Vec<String> {
    let depth = path.matches('.').count();
    match (a, b) {
        (J::Object(x), J::Object(y)) if depth < 4 => {
            let mut out = vec![];
            for (k, v) in x {
                match y.get(k) {
                    None => out.push(format!("{path}.{k} missing on right")),
                    Some(v2) if v != v2 => out.extend(json_diff_all(v, v2, &format!("{path}.{k}"))),
                    _ => {}
                }
            }
            for k in y.keys() {
                if !x.contains_key(k) {
                    out.push(format!("{path}.{k} missing on left"));
                }
            }
            out
        }
        _ => {
            let (sa, sb) = (a.to_string(), b.to_string());
            let cut = |s: &str| if s.len() > 300 { format!("{}…", s.chars().take(300).collect::<String>()) } else { s.to_string() };
            vec![format!("{path} {} != {}", cut(&sa), cut(&sb))]
        }
    }
}

pub fn json_diff(a: &J, b: &J) -> String {
    match (a, b) {
        (J::Object(x), J::Object(y)) => {
            for (k, v) in x {
                match y.get(k) {
                    None => return format!(".{k} missing on right"),
                    Some(v2) if v != v2 => return format!(".{k}{}", json_diff(v, v2)),
                    _ => {}
                }
            }
            for k in y.keys() {
                if !x.contains_key(k) {
                    return format!(".{k} missing on left");
                }
            }
            "?".into()
        }
        _ => {
            let (sa, sb) = (a.to_string(), b.to_string());
            let cut = |s: &str| if s.len() > 300 { format!("{}…", &s[..300]) } else { s.to_string() };
            format!(" {} != {}", cut(&sa), cut(&sb))
        }
    }
}

/// String values of an attribute as the proto layer prints them.
pub fn ava_strings(e: &Entry<EntrySealed, EntryCommitted>, a: Attribute) -> Vec<String> {
    let mut v: Vec<String> = e
        .get_ava_set(a)
        .map(|vs| vs.to_proto_string_clone_iter().collect())
        .unwrap_or_default();
    v.sort();
    v
}
