//! Seeded PRNG and named sub-streams. One integer (VERIF_SEED → run seed) decides everything.

#[derive(Clone, Debug)]
pub struct Rng {
    s: [u64; 4],
}

fn splitmix(x: &mut u64) -> u64 {
    *x = x.wrapping_add(0x9E3779B97F4A7C15);
    let mut z = *x;
    z = (z ^ (z >> 30)).wrapping_mul(0xBF58476D1CE4E5B9);
    z = (z ^ (z >> 27)).wrapping_mul(0x94D049BB133111EB);
    z ^ (z >> 31)
}

pub fn fnv64(b: &[u8]) -> u64 {
    let mut h: u64 = 0xcbf29ce484222325;
    for x in b {
        h ^= *x as u64;
        h = h.wrapping_mul(0x100000001b3);
    }
    h
}

impl Rng {
    pub fn new(seed: u64) -> Self {
        let mut x = seed ^ 0x6b76_7369_6d5f_7631;
        let s = [
            splitmix(&mut x),
            splitmix(&mut x),
            splitmix(&mut x),
            splitmix(&mut x),
        ];
        Rng { s }
    }
    /// Independent named sub-stream: adding a draw in one does not shift the others.
    pub fn stream(seed: u64, name: &str) -> Self {
        Rng::new(seed ^ fnv64(name.as_bytes()).rotate_left(17))
    }
    pub fn next_u64(&mut self) -> u64 {
        let r = self.s[1].wrapping_mul(5).rotate_left(7).wrapping_mul(9);
        let t = self.s[1] << 17;
        self.s[2] ^= self.s[0];
        self.s[3] ^= self.s[1];
        self.s[1] ^= self.s[2];
        self.s[0] ^= self.s[3];
        self.s[2] ^= t;
        self.s[3] = self.s[3].rotate_left(45);
        r
    }
    /// uniform in 0..n (n > 0)
    pub fn below(&mut self, n: u64) -> u64 {
        if n <= 1 {
            return 0;
        }
        // multiply-shift; bias negligible for our n
        ((self.next_u64() as u128 * n as u128) >> 64) as u64
    }
    pub fn range(&mut self, lo: u64, hi_incl: u64) -> u64 {
        lo + self.below(hi_incl - lo + 1)
    }
    pub fn chance(&mut self, num: u64, den: u64) -> bool {
        self.below(den) < num
    }
    pub fn pick<'a, T>(&mut self, v: &'a [T]) -> &'a T {
        &v[self.below(v.len() as u64) as usize]
    }
    pub fn pick_weighted(&mut self, w: &[u32]) -> usize {
        let total: u64 = w.iter().map(|x| *x as u64).sum();
        if total == 0 {
            return 0;
        }
        let mut r = self.below(total);
        for (i, x) in w.iter().enumerate() {
            if r < *x as u64 {
                return i;
            }
            r -= *x as u64;
        }
        w.len() - 1
    }
    pub fn fill(&mut self, buf: &mut [u8]) {
        for c in buf.chunks_mut(8) {
            let b = self.next_u64().to_le_bytes();
            c.copy_from_slice(&b[..c.len()]);
        }
    }
    pub fn shuffle<T>(&mut self, v: &mut [T]) {
        for i in (1..v.len()).rev() {
            let j = self.below(i as u64 + 1) as usize;
            v.swap(i, j);
        }
    }
}

/// Deterministic uuid for harness-chosen entities: (seed-independent) class + counter.
pub fn uuid_for(class: u8, n: u64) -> uuid::Uuid {
    let mut b = [0u8; 16];
    b[0] = 0xe0 | (class & 0x0f); // far above the reserved system range
    b[1] = 0x51;
    b[6] = 0x40; // version nibble 4
    b[8] = 0x80;
    b[8..16].copy_from_slice(&(n | 0x8000_0000_0000_0000).to_be_bytes());
    uuid::Uuid::from_bytes(b)
}
