//! Engine E5 (idm): three single-server scenarios driven through the IDM / query-server public API.
//!
//! * C25 `idm/roles` — shipped access controls, untouched; non-high-privilege actors against
//!   high-privilege targets across membership edits and restarts.
//! * C20 `idm/uuid`  — adversarial uuid modifies / reserved-range creates / built-in deletes by a
//!   user holding a grant-everything access control profile; whole-history monitor.
//! * C50 `idm/sync`  — two SCIM synchronisation agreements, random sync requests, yield-authority
//!   edits and user modifications of synchronised entries; dump-diff oracle after every request.
use crate::cluster::BASE_EPOCH;
use crate::driver::{Budget, Outcome, Plan, Scenario, Tier};
use crate::dump::{self, Dump, EState};
use crate::entropy;
use crate::node::{self, block, Idm, NodeCfg, Scratch};
use crate::rng::{fnv64, uuid_for, Rng};
use compact_jwt::JwsCompact;
use kanidm_proto::scim_v1::{ScimSyncRequest, ScimSyncState};
use kanidmd_lib::entry::{Entry, EntryInit, EntryNew};
use kanidmd_lib::event::{CreateEvent, DeleteEvent, ModifyEvent};
use kanidmd_lib::idm::account::DestroySessionTokenEvent;
use kanidmd_lib::idm::authentication::ClientAuthInfo;
use kanidmd_lib::idm::credupdatesession::{InitCredentialUpdateEvent, InitCredentialUpdateIntentEvent};
use kanidmd_lib::idm::event::{RegenerateRadiusSecretEvent, UnixPasswordChangeEvent};
use kanidmd_lib::idm::scim::{GenerateScimSyncTokenEvent, ScimSyncUpdateEvent};
use kanidmd_lib::idm::server::{IdmServerProxyReadTransaction, IdmServerProxyWriteTransaction, IdmServerTransaction};
use kanidmd_lib::idm::serviceaccount::GenerateApiTokenEvent;
use kanidmd_lib::prelude::*;
use kanidmd_lib::schema::SchemaTransaction;
use kanidmd_lib::value::{AuthType, Session, SessionScope, SessionState};
use kanidmd_lib::verif_hooks as vh;
use serde_json::{json, Value as J};
use std::collections::{BTreeMap, BTreeSet};
use std::sync::OnceLock;
use std::time::Duration;

const K: u64 = 0x9E37_79B9_7F4A_7C15;

// ------------------------------------------------------------------------------------------------
// Shared: one simulated server (real QueryServer + IdmServer), optional file backing and restart
// ------------------------------------------------------------------------------------------------

struct Srv {
    _scratch: Option<Scratch>,
    cfg: NodeCfg,
    idm: Option<Idm>,
}

impl Srv {
    fn boot(file: bool, tag: &str, ct: Duration) -> Result<Srv, String> {
        let (scratch, cfg) = if file {
            let s = Scratch::new(tag);
            let c = NodeCfg::file(&s.path().join("kanidm.db"));
            (Some(s), c)
        } else {
            (None, NodeCfg::mem())
        };
        let qs = node::boot_qs(&cfg, ct).map_err(|e| format!("boot qs: {e:?}"))?;
        let idm = node::boot_idm(qs, ct).map_err(|e| format!("boot idm: {e:?}"))?;
        Ok(Srv { _scratch: scratch, cfg, idm: Some(idm) })
    }
    /// Restart = drop every handle on the database, then run the production start-up again.
    fn restart(&mut self, ct: Duration) -> Result<(), String> {
        if self.cfg.path.is_none() {
            return Ok(());
        }
        self.idm = None;
        let qs = node::boot_qs(&self.cfg, ct).map_err(|e| format!("reboot qs: {e:?}"))?;
        self.idm = Some(node::boot_idm(qs, ct).map_err(|e| format!("reboot idm: {e:?}"))?);
        Ok(())
    }
    fn idm(&self) -> &Idm {
        self.idm.as_ref().expect("server is up")
    }
    /// One write transaction; committed when `f` returns Ok, abandoned otherwise.
    fn write<R>(&self, ct: Duration, f: impl FnOnce(&mut IdmServerProxyWriteTransaction<'_>) -> Result<R, OperationError>) -> Result<R, OperationError> {
        let mut w = block(self.idm().idms.proxy_write(ct))?;
        let r = f(&mut w)?;
        w.commit()?;
        Ok(r)
    }
    fn read<R>(&self, f: impl FnOnce(&mut IdmServerProxyReadTransaction<'_>) -> R) -> Result<R, OperationError> {
        let mut r = block(self.idm().idms.proxy_read())?;
        Ok(f(&mut r))
    }
    /// Drain the delayed-action queue (none of the flows used here depends on them).
    fn drain_delayed(&mut self) {
        // The queue is unbounded and only a test build can poll it without blocking; nothing
        // used here reads it, so the actions are simply left queued until the server is dropped.
        let _ = &self.idm;
    }
}

fn err_s(e: &OperationError) -> String {
    let s = format!("{e:?}");
    s.chars().take(60).collect()
}

fn ev_id(ev: &J, i: usize) -> u64 {
    ev.get("id").and_then(|x| x.as_u64()).unwrap_or(i as u64)
}
fn s_of<'a>(ev: &'a J, k: &str) -> &'a str {
    ev.get(k).and_then(|x| x.as_str()).unwrap_or("")
}
fn u_of(ev: &J, k: &str) -> Uuid {
    ev.get(k).and_then(|x| x.as_str()).and_then(|s| Uuid::parse_str(s).ok()).unwrap_or(Uuid::nil())
}
fn b_of(ev: &J, k: &str) -> bool {
    ev.get(k).and_then(|x| x.as_bool()).unwrap_or(false)
}
fn n_of(ev: &J, k: &str) -> u64 {
    ev.get(k).and_then(|x| x.as_u64()).unwrap_or(0)
}

fn trigram_push(out: &mut Outcome, kinds: &mut Vec<u64>, kind: &str) {
    kinds.push(fnv64(kind.as_bytes()));
    let n = kinds.len();
    if n >= 3 {
        out.trigrams.push(kinds[n - 3].rotate_left(21) ^ kinds[n - 2].rotate_left(7) ^ kinds[n - 1]);
    }
}

/// Keep one violation per (oracle, signature) in a run.
fn dedupe(out: &mut Outcome) {
    let mut seen = BTreeSet::new();
    out.violations.retain(|v| seen.insert((v.oracle.clone(), v.signature.clone())));
}

fn reserved(u: Uuid) -> bool {
    u < DYNAMIC_RANGE_MINIMUM_UUID
}

fn person(u: Uuid, name: &str) -> Entry<EntryInit, EntryNew> {
    entry_init!(
        (Attribute::Class, EntryClass::Object.to_value()),
        (Attribute::Class, EntryClass::Account.to_value()),
        (Attribute::Class, EntryClass::Person.to_value()),
        (Attribute::Name, Value::new_iname(name)),
        (Attribute::Uuid, Value::Uuid(u)),
        (Attribute::DisplayName, Value::new_utf8s(name))
    )
}
fn service_account(u: Uuid, name: &str, mgr: Option<Uuid>) -> Entry<EntryInit, EntryNew> {
    let mut e = entry_init!(
        (Attribute::Class, EntryClass::Object.to_value()),
        (Attribute::Class, EntryClass::Account.to_value()),
        (Attribute::Class, EntryClass::ServiceAccount.to_value()),
        (Attribute::Name, Value::new_iname(name)),
        (Attribute::Uuid, Value::Uuid(u)),
        (Attribute::DisplayName, Value::new_utf8s(name))
    );
    if let Some(m) = mgr {
        e.add_ava(Attribute::EntryManagedBy, Value::Refer(m));
    }
    e
}
fn group(u: Uuid, name: &str, members: &[Uuid], mgr: Option<Uuid>) -> Entry<EntryInit, EntryNew> {
    let mut e = entry_init!(
        (Attribute::Class, EntryClass::Object.to_value()),
        (Attribute::Class, EntryClass::Group.to_value()),
        (Attribute::Name, Value::new_iname(name)),
        (Attribute::Uuid, Value::Uuid(u))
    );
    for m in members {
        e.add_ava(Attribute::Member, Value::Refer(*m));
    }
    if let Some(m) = mgr {
        e.add_ava(Attribute::EntryManagedBy, Value::Refer(m));
    }
    e
}

/// A group plus one access control profile that grants that group search, modify (every attribute,
/// every class), create and delete over every entry: the "grant-everything" configuration of C20
/// and the operator of C50 (so that only the built-in protections, not a missing grant, can refuse).
fn install_grant_all(w: &mut IdmServerProxyWriteTransaction<'_>, group_uuid: Uuid, acp_uuid: Uuid, members: &[Uuid], tag: &str) -> Result<(), OperationError> {
    let (mut attrs, mut classes): (Vec<String>, Vec<String>) = {
        let schema = w.qs_write.get_schema();
        (schema.get_attributes().keys().map(|a| a.to_string()).collect(), schema.get_classes().keys().map(|c| c.to_string()).collect())
    };
    attrs.sort();
    classes.sort();
    let g = group(group_uuid, &format!("{tag}_grant_all"), members, None);
    let mut e = entry_init!(
        (Attribute::Class, EntryClass::Object.to_value()),
        (Attribute::Class, EntryClass::AccessControlProfile.to_value()),
        (Attribute::Class, EntryClass::AccessControlReceiverGroup.to_value()),
        (Attribute::Class, EntryClass::AccessControlTargetScope.to_value()),
        (Attribute::Class, EntryClass::AccessControlSearch.to_value()),
        (Attribute::Class, EntryClass::AccessControlModify.to_value()),
        (Attribute::Class, EntryClass::AccessControlCreate.to_value()),
        (Attribute::Class, EntryClass::AccessControlDelete.to_value()),
        (Attribute::Name, Value::new_iname(&format!("{tag}_acp_grant_all"))),
        (Attribute::Uuid, Value::Uuid(acp_uuid)),
        (Attribute::AcpReceiverGroup, Value::Refer(group_uuid)),
        (Attribute::AcpTargetScope, Value::new_json_filter_s("{\"pres\":\"class\"}").expect("filter"))
    );
    for a in &attrs {
        e.add_ava(Attribute::AcpSearchAttr, Value::new_iutf8(a));
        e.add_ava(Attribute::AcpModifyPresentAttr, Value::new_iutf8(a));
        e.add_ava(Attribute::AcpModifyRemovedAttr, Value::new_iutf8(a));
        e.add_ava(Attribute::AcpCreateAttr, Value::new_iutf8(a));
    }
    for c in &classes {
        e.add_ava(Attribute::AcpModifyClass, Value::new_iutf8(c));
        e.add_ava(Attribute::AcpCreateClass, Value::new_iutf8(c));
    }
    w.qs_write.internal_create(vec![g, e])
}

fn ident_of(w: &mut IdmServerProxyWriteTransaction<'_>, u: Uuid) -> Result<Identity, OperationError> {
    let e = w.qs_write.internal_search_uuid(u)?;
    Ok(Identity::from_impersonate_entry_readwrite(e))
}

fn user_modify(w: &mut IdmServerProxyWriteTransaction<'_>, ident: &Identity, target: Uuid, ml: &ModifyList<ModifyInvalid>) -> Result<(), OperationError> {
    let f = filter!(f_eq(Attribute::Uuid, PartialValue::Uuid(target)));
    let me = ModifyEvent::from_internal_parts(ident.clone(), ml, &f, &w.qs_write)?;
    w.qs_write.modify(&me)
}

/// Light whole-database snapshot: database row id ↔ uuid ↔ state ↔ name.
#[derive(Clone, Debug, Default, PartialEq, Eq)]
struct Lite {
    rows: BTreeMap<u64, (Uuid, EState, String)>,
}
impl Lite {
    fn take(srv: &Srv) -> Result<Lite, String> {
        let es = srv.read(|r| dump::search_all(&mut r.qs_read)).map_err(|e| format!("{e:?}"))?.map_err(|e| format!("snapshot: {e:?}"))?;
        let mut rows = BTreeMap::new();
        for e in es {
            let name = dump::ava_strings(&e, Attribute::Name).into_iter().next().unwrap_or_default();
            rows.insert(e.get_id(), (e.get_uuid(), dump::entry_state(&e), name));
        }
        Ok(Lite { rows })
    }
    fn uuids(&self) -> BTreeMap<Uuid, EState> {
        self.rows.values().map(|(u, s, _)| (*u, *s)).collect()
    }
    fn digest(&self) -> u64 {
        let mut h = 0u64;
        for (id, (u, s, n)) in &self.rows {
            h = h.rotate_left(5) ^ fnv64(format!("{id}|{u}|{s:?}|{n}").as_bytes());
        }
        h
    }
}

/// Facts about a freshly installed server that generators need (which built-in entries exist).
/// Computed once per process from a real boot; a pure function of the code under test.
struct Fresh {
    /// (uuid, name, classes) of every entry of a fresh install that lies in the reserved range
    builtins: Vec<(Uuid, String, Vec<String>)>,
    /// built-in groups (not dynamic) as (uuid, name, direct members)
    groups: Vec<(Uuid, String, Vec<Uuid>)>,
}

fn fresh() -> &'static Fresh {
    static F: OnceLock<Fresh> = OnceLock::new();
    F.get_or_init(|| {
        let prev = entropy::swap_stream(Some(Rng::new(0x5eed_f4e5)));
        let ct = Duration::from_secs(BASE_EPOCH);
        let qs = node::boot_qs(&NodeCfg::mem(), ct).expect("fresh boot");
        let mut r = block(qs.read()).expect("read");
        let es = dump::search_all(&mut r).expect("search");
        let mut builtins = vec![];
        let mut groups = vec![];
        for e in es {
            let u = e.get_uuid();
            if !reserved(u) {
                continue;
            }
            let name = dump::ava_strings(&e, Attribute::Name).into_iter().next().unwrap_or_default();
            let classes = dump::ava_strings(&e, Attribute::Class);
            if classes.iter().any(|c| c == "group") && !classes.iter().any(|c| c == "dyngroup") {
                let members = e.get_ava_refer(Attribute::Member).map(|s| s.iter().copied().collect()).unwrap_or_default();
                groups.push((u, name.clone(), members));
            }
            builtins.push((u, name, classes));
        }
        drop(r);
        drop(qs);
        entropy::swap_stream(prev);
        builtins.sort();
        groups.sort();
        Fresh { builtins, groups }
    })
}

fn std_components() -> J {
    json!({
        "real": ["kanidmd_lib (QueryServer, IdmServer, access controls, plugins incl. base/memberof/refint/session, schema, backend, bundled SQLite)", "kanidm_proto (SCIM sync request types)", "kanidm_lib_crypto", "compact_jwt (sync token sign/verify)"],
        "stub": ["HTTP front end: requests enter at the IdmServer / QueryServer transaction API with the Identity the front end would have built", "wall clock (ct parameter)", "OS entropy (seeded stream via interposed getrandom)"],
        "not_run": ["HTTP/axum layer", "TLS", "replication", "CLI"]
    })
}

// ================================================================================================
// C20 — UUIDs are immutable and the system range is protected
// ================================================================================================

const C20_GROUP: u64 = 1;
const C20_ACP: u64 = 2;
const C20_USER: u64 = 3;

struct C20;

fn reserved_pick(k: &mut Rng) -> Uuid {
    match k.below(6) {
        0 => Uuid::from_u128((1u128 << 48) - 2),
        1 => Uuid::from_u128(1 + k.below(0xffff) as u128),
        2 => Uuid::from_u128(0xffff_0000_0000 + k.below(1 << 24) as u128),
        _ => Uuid::from_u128(1 + k.below((1 << 48) - 2) as u128),
    }
}

fn c20_generate(seed: u64, tier: Tier) -> Plan {
    let mut k = Rng::stream(seed, "c20");
    let fr = fresh();
    let file = k.chance(1, 3);
    let mode = if k.chance(1, 2) { "grant_all" } else { "grant_all_admins" };
    let n = if tier == Tier::Quick { 24 + k.below(24) } else { 30 + k.below(60) } as usize;
    let user = uuid_for(2, C20_USER);
    // generation-time model of harness-created entries (optimistic: assumes ordinary creates succeed)
    let mut mine: Vec<(Uuid, String, &'static str)> = vec![(user, "c20_user".into(), "person")];
    let mut ctr = 10u64;
    let mut evs = vec![];
    let kinds = ["present", "removed", "purged", "set", "purge_present", "removed_present", "assert_set", "set_same"];
    for i in 0..n {
        let id = (i + 1) as u64;
        let w = [10u32, 6, 8, 4, 22, 14, 16, 6, if file { 5 } else { 0 }, 2];
        let ev = match k.pick_weighted(&w) {
            0 => {
                ctr += 1;
                let u = if k.chance(1, 8) { Uuid::from_u128(1u128 << 48) } else { uuid_for(2, ctr) };
                let name = format!("c20_p{ctr}");
                if k.chance(1, 3) {
                    // an entry with no unique attribute at all (class object only)
                    mine.push((u, String::new(), "bare"));
                    json!({"id": id, "op": "Bare", "u": u, "as_user": k.chance(1, 2)})
                } else {
                    mine.push((u, name.clone(), "person"));
                    json!({"id": id, "op": "Person", "u": u, "name": name, "as_user": k.chance(2, 3)})
                }
            }
            1 => {
                ctr += 1;
                let u = uuid_for(2, ctr);
                let name = format!("c20_g{ctr}");
                let m = mine[k.below(mine.len() as u64) as usize].0;
                mine.push((u, name.clone(), "group"));
                json!({"id": id, "op": "Group", "u": u, "name": name, "member": m, "as_user": k.chance(2, 3)})
            }
            2 => {
                let t = if k.chance(1, 3) { fr.builtins[k.below(fr.builtins.len() as u64) as usize].0 } else { mine[k.below(mine.len() as u64) as usize].0 };
                json!({"id": id, "op": "Write", "u": t, "v": format!("d{}", k.below(1000)), "as_user": k.chance(3, 4)})
            }
            3 => {
                if mine.len() > 1 {
                    let ix = 1 + k.below(mine.len() as u64 - 1) as usize;
                    json!({"id": id, "op": "Delete", "u": mine[ix].0, "as_user": k.chance(2, 3)})
                } else {
                    json!({"id": id, "op": "Advance", "secs": 30})
                }
            }
            4 => {
                let t = if k.chance(1, 2) { fr.builtins[k.below(fr.builtins.len() as u64) as usize].0 } else { mine[k.below(mine.len() as u64) as usize].0 };
                let new = match k.below(4) {
                    0 => reserved_pick(&mut k),
                    1 => mine[k.below(mine.len() as u64) as usize].0,
                    2 => fr.builtins[k.below(fr.builtins.len() as u64) as usize].0,
                    _ => {
                        ctr += 1;
                        uuid_for(3, ctr)
                    }
                };
                let kind = *k.pick(&kinds);
                json!({"id": id, "op": "UuidMod", "u": t, "kind": kind, "new": new, "batch": k.chance(1, 3), "extra": k.chance(1, 3), "control": k.chance(1, 4)})
            }
            5 => {
                ctr += 1;
                let class = *k.pick(&["person", "group", "service_account", "object"]);
                let second = if k.chance(1, 4) {
                    ctr += 1;
                    Some(uuid_for(2, ctr))
                } else {
                    None
                };
                json!({"id": id, "op": "CreateReserved", "u": reserved_pick(&mut k), "name": format!("c20_r{ctr}"), "class": class, "builtin_class": k.chance(1, 3), "second": second, "second_name": format!("c20_s{ctr}")})
            }
            6 => {
                let b = &fr.builtins[k.below(fr.builtins.len() as u64) as usize];
                let by = *k.pick(&["uuid", "uuid", "name", "class", "or"]);
                let extra = if mine.len() > 1 { Some(mine[1 + k.below(mine.len() as u64 - 1) as usize].0) } else { None };
                json!({"id": id, "op": "DeleteBuiltin", "u": b.0, "name": b.1, "class": b.2.iter().find(|c| *c != "object" && *c != "builtin").cloned().unwrap_or("object".into()), "by": by, "extra": extra})
            }
            7 => {
                let b = &fr.builtins[k.below(fr.builtins.len() as u64) as usize];
                json!({"id": id, "op": "RecycleByModify", "u": b.0, "class": *k.pick(&["recycled", "tombstone"]), "batch": k.chance(1, 3)})
            }
            8 => json!({"id": id, "op": "Restart"}),
            _ => json!({"id": id, "op": "Advance", "secs": 1 + k.below(3600)}),
        };
        evs.push(ev);
    }
    Plan { property: "C20".into(), seed, cfg: json!({"file": file, "mode": mode}), events: evs }
}

fn uuid_mods(kind: &str, cur: Uuid, new: Uuid) -> Vec<Modify> {
    match kind {
        "present" => vec![Modify::Present(Attribute::Uuid, Value::Uuid(new))],
        "removed" => vec![Modify::Removed(Attribute::Uuid, PartialValue::Uuid(cur))],
        "purged" => vec![Modify::Purged(Attribute::Uuid)],
        "set" => vec![Modify::Set(Attribute::Uuid, kanidmd_lib::valueset::ValueSetUuid::new(new))],
        "set_same" => vec![Modify::Set(Attribute::Uuid, kanidmd_lib::valueset::ValueSetUuid::new(cur))],
        "purge_present" => vec![Modify::Purged(Attribute::Uuid), Modify::Present(Attribute::Uuid, Value::Uuid(new))],
        "removed_present" => vec![Modify::Removed(Attribute::Uuid, PartialValue::Uuid(cur)), Modify::Present(Attribute::Uuid, Value::Uuid(new))],
        // an assertion on the uuid is not a change by itself; it guards a Set that is
        _ => vec![Modify::Assert(Attribute::Uuid, PartialValue::Uuid(cur)), Modify::Set(Attribute::Uuid, kanidmd_lib::valueset::ValueSetUuid::new(new))],
    }
}

fn c20_execute(plan: &Plan) -> Outcome {
    let mut out = Outcome::default();
    for p in ["adversarial uuid modify refused", "adversarial reserved create refused", "adversarial builtin delete refused", "adversarial request returned Ok without forbidden effect", "control: same modify shape on description accepted", "user ordinary write accepted", "user ordinary create accepted", "user ordinary delete accepted", "restart"] {
        out.probe0(p);
    }
    let file = b_of(&plan.cfg, "file");
    let admins = s_of(&plan.cfg, "mode") == "grant_all_admins";
    let mut t = BASE_EPOCH;
    entropy::swap_stream(Some(Rng::new(plan.seed ^ 0xC20)));
    let mut srv = match Srv::boot(file, "c20", Duration::from_secs(t)) {
        Ok(s) => s,
        Err(e) => {
            entropy::swap_stream(None);
            return Outcome { harness_error: Some(e), ..out };
        }
    };
    let res = c20_run(plan, &mut srv, &mut out, &mut t, admins);
    drop(srv);
    entropy::swap_stream(None);
    if let Err(e) = res {
        out.harness_error = Some(e);
    }
    out
}

fn c20_run(plan: &Plan, srv: &mut Srv, out: &mut Outcome, t: &mut u64, admins: bool) -> Result<(), String> {
    let base = Lite::take(srv)?;
    let base_reserved: BTreeMap<Uuid, u64> = base.rows.iter().filter(|(_, (u, _, _))| reserved(*u)).map(|(id, (u, _, _))| (*u, *id)).collect();
    let user = uuid_for(2, C20_USER);
    let (g, a) = (uuid_for(2, C20_GROUP), uuid_for(2, C20_ACP));
    srv.write(Duration::from_secs(*t), |w| {
        w.qs_write.internal_create(vec![person(user, "c20_user")])?;
        install_grant_all(w, g, a, &[user], "c20")?;
        if admins {
            for (gu, _, _) in &fresh().groups {
                w.qs_write.internal_modify_uuid(*gu, &ModifyList::new_append(Attribute::Member, Value::Refer(user)))?;
            }
        }
        Ok(())
    })
    .map_err(|e| format!("c20 setup: {e:?}"))?;
    let mut prev = Lite::take(srv)?;
    let mut kinds = vec![];
    let mut seen_states = BTreeSet::new();
    let mut reported: BTreeSet<Uuid> = BTreeSet::new();
    for (i, ev) in plan.events.iter().enumerate() {
        let id = ev_id(ev, i);
        entropy::swap_stream(Some(Rng::new(plan.seed ^ id.wrapping_mul(K))));
        let ct = Duration::from_secs(*t);
        let op = s_of(ev, "op").to_string();
        let mut tag = op.clone();
        let mut adversarial: Option<&'static str> = None;
        let res: String = match op.as_str() {
            "Person" | "Group" | "Bare" => {
                let u = u_of(ev, "u");
                let e = if op == "Person" {
                    person(u, s_of(ev, "name"))
                } else if op == "Bare" {
                    entry_init!((Attribute::Class, EntryClass::Object.to_value()), (Attribute::Uuid, Value::Uuid(u)))
                } else {
                    group(u, s_of(ev, "name"), &[u_of(ev, "member")], None)
                };
                let as_user = b_of(ev, "as_user");
                let r = srv.write(ct, |w| {
                    if as_user {
                        let ident = ident_of(w, user)?;
                        w.qs_write.create(&CreateEvent::new_impersonate_identity(ident, vec![e])).map(|_| ())
                    } else {
                        w.qs_write.internal_create(vec![e])
                    }
                });
                if r.is_ok() && as_user {
                    out.probe("user ordinary create accepted");
                }
                r.map(|_| "ok".to_string()).unwrap_or_else(|e| err_s(&e))
            }
            "Write" => {
                let u = u_of(ev, "u");
                let ml = ModifyList::new_purge_and_set(Attribute::Description, Value::new_utf8s(s_of(ev, "v")));
                let as_user = b_of(ev, "as_user");
                let r = srv.write(ct, |w| {
                    if as_user {
                        let ident = ident_of(w, user)?;
                        user_modify(w, &ident, u, &ml)
                    } else {
                        w.qs_write.internal_modify_uuid(u, &ml)
                    }
                });
                if r.is_ok() && as_user {
                    out.probe("user ordinary write accepted");
                }
                r.map(|_| "ok".to_string()).unwrap_or_else(|e| err_s(&e))
            }
            "Delete" => {
                let u = u_of(ev, "u");
                let as_user = b_of(ev, "as_user");
                let r = srv.write(ct, |w| {
                    if as_user {
                        let ident = ident_of(w, user)?;
                        let de = DeleteEvent::from_parts(ident, &filter!(f_eq(Attribute::Uuid, PartialValue::Uuid(u))), &mut w.qs_write)?;
                        w.qs_write.delete(&de)
                    } else {
                        w.qs_write.internal_delete_uuid(u)
                    }
                });
                if r.is_ok() && as_user {
                    out.probe("user ordinary delete accepted");
                }
                r.map(|_| "ok".to_string()).unwrap_or_else(|e| err_s(&e))
            }
            "UuidMod" => {
                let (u, new, kind) = (u_of(ev, "u"), u_of(ev, "new"), s_of(ev, "kind").to_string());
                let batch = b_of(ev, "batch");
                tag = format!("UuidMod:{}{}", kind, if batch { ":batch" } else { "" });
                adversarial = Some("adversarial uuid modify refused");
                if b_of(ev, "control") {
                    // Same request shape on an unprotected attribute: shows the grant is real.
                    let r = srv.write(ct, |w| {
                        let ident = ident_of(w, user)?;
                        user_modify(w, &ident, user, &ModifyList::new_list(vec![Modify::Purged(Attribute::Description), Modify::Present(Attribute::Description, Value::new_utf8s("control"))]))
                    });
                    if r.is_ok() {
                        out.probe("control: same modify shape on description accepted");
                    }
                }
                let mut mods = uuid_mods(&kind, u, new);
                if b_of(ev, "extra") {
                    mods.insert(0, Modify::Present(Attribute::Description, Value::new_utf8s("x")));
                }
                let ml = ModifyList::new_list(mods);
                let r = srv.write(ct, |w| {
                    let ident = ident_of(w, user)?;
                    if batch {
                        let v = ml.validate(w.qs_write.get_schema()).map_err(OperationError::SchemaViolation)?;
                        let mut modset = BTreeMap::new();
                        modset.insert(u, v);
                        w.qs_write.batch_modify(&BatchModifyEvent { ident, modset })
                    } else {
                        user_modify(w, &ident, u, &ml)
                    }
                });
                r.map(|_| "ok".to_string()).unwrap_or_else(|e| err_s(&e))
            }
            "CreateReserved" => {
                let u = u_of(ev, "u");
                let class = s_of(ev, "class").to_string();
                tag = format!("CreateReserved:{class}");
                adversarial = Some("adversarial reserved create refused");
                let mut e = match class.as_str() {
                    "person" => person(u, s_of(ev, "name")),
                    "group" => group(u, s_of(ev, "name"), &[], None),
                    "service_account" => service_account(u, s_of(ev, "name"), None),
                    _ => entry_init!((Attribute::Class, EntryClass::Object.to_value()), (Attribute::Uuid, Value::Uuid(u))),
                };
                if b_of(ev, "builtin_class") {
                    e.add_ava(Attribute::Class, EntryClass::Builtin.to_value());
                }
                let mut es = vec![e];
                if let Some(s) = ev.get("second").and_then(|x| x.as_str()).and_then(|s| Uuid::parse_str(s).ok()) {
                    es.insert(0, person(s, s_of(ev, "second_name")));
                }
                let r = srv.write(ct, |w| {
                    let ident = ident_of(w, user)?;
                    w.qs_write.create(&CreateEvent::new_impersonate_identity(ident, es)).map(|_| ())
                });
                r.map(|_| "ok".to_string()).unwrap_or_else(|e| err_s(&e))
            }
            "DeleteBuiltin" => {
                let u = u_of(ev, "u");
                let by = s_of(ev, "by").to_string();
                tag = format!("DeleteBuiltin:{by}");
                adversarial = Some("adversarial builtin delete refused");
                let f = match by.as_str() {
                    "name" if !s_of(ev, "name").is_empty() => filter!(f_eq(Attribute::Name, PartialValue::new_iname(s_of(ev, "name")))),
                    "class" => filter!(f_eq(Attribute::Class, PartialValue::new_iutf8(s_of(ev, "class")))),
                    "or" => {
                        let x = ev.get("extra").and_then(|x| x.as_str()).and_then(|s| Uuid::parse_str(s).ok()).unwrap_or(u);
                        filter!(f_or!([f_eq(Attribute::Uuid, PartialValue::Uuid(x)), f_eq(Attribute::Uuid, PartialValue::Uuid(u))]))
                    }
                    _ => filter!(f_eq(Attribute::Uuid, PartialValue::Uuid(u))),
                };
                let r = srv.write(ct, |w| {
                    let ident = ident_of(w, user)?;
                    let de = DeleteEvent::from_parts(ident, &f, &mut w.qs_write)?;
                    w.qs_write.delete(&de)
                });
                r.map(|_| "ok".to_string()).unwrap_or_else(|e| err_s(&e))
            }
            "RecycleByModify" => {
                let u = u_of(ev, "u");
                let class = s_of(ev, "class").to_string();
                let batch = b_of(ev, "batch");
                tag = format!("RecycleByModify:{class}");
                adversarial = Some("adversarial builtin delete refused");
                let ml = ModifyList::new_list(vec![Modify::Present(Attribute::Class, Value::new_iutf8(&class))]);
                let r = srv.write(ct, |w| {
                    let ident = ident_of(w, user)?;
                    if batch {
                        let v = ml.validate(w.qs_write.get_schema()).map_err(OperationError::SchemaViolation)?;
                        let mut modset = BTreeMap::new();
                        modset.insert(u, v);
                        w.qs_write.batch_modify(&BatchModifyEvent { ident, modset })
                    } else {
                        user_modify(w, &ident, u, &ml)
                    }
                });
                r.map(|_| "ok".to_string()).unwrap_or_else(|e| err_s(&e))
            }
            "Restart" => {
                srv.restart(ct)?;
                out.probe("restart");
                out.fault("restart");
                "ok".into()
            }
            "Advance" => {
                *t += n_of(ev, "secs");
                out.sim_secs += n_of(ev, "secs") as f64;
                "ok".into()
            }
            _ => "skip".into(),
        };
        srv.drain_delayed();
        out.events_run += 1;
        *t += 1;
        out.sim_secs += 1.0;
        trigram_push(out, &mut kinds, &tag);
        out.chain(fnv64(format!("{id}|{tag}|{res}").as_bytes()));
        if let Ok(v) = std::env::var("KVSIM_TRACE") {
            eprintln!("[{id}] {tag} -> {res}");
            if v == id.to_string() {
                eprintln!("    {ev}");
            }
        }
        // ---- whole-history monitor -------------------------------------------------------------
        let now = Lite::take(srv)?;
        let mut forbidden = false;
        for (rid, (u0, _, n0)) in &prev.rows {
            if let Some((u1, _, _)) = now.rows.get(rid) {
                if u0 != u1 {
                    forbidden = true;
                    out.violate("C20", "uuid-immutable", &format!("request={tag}"), format!("event {id} ({ev}): database row {rid} ({n0}) had uuid {u0} before and {u1} after; result {res}"), i);
                }
            }
        }
        let nu = now.uuids();
        for (u, st) in &nu {
            if reserved(*u) && !base_reserved.contains_key(u) && reported.insert(*u) {
                forbidden = true;
                out.violate("C20", "reserved-range-create", &format!("request={tag}"), format!("event {id} ({ev}): an entry with reserved-range uuid {u} ({st:?}) exists that a fresh install does not have; result {res}"), i);
            }
        }
        for (u, rid) in &base_reserved {
            match nu.get(u) {
                Some(EState::Live) => {}
                _ if reported.contains(u) => {}
                other => {
                    reported.insert(*u);
                    forbidden = true;
                    out.violate("C20", "builtin-delete", &format!("request={tag}"), format!("event {id} ({ev}): built-in entry {u} (row {rid}) is {other:?} after the request; result {res}"), i);
                }
            }
        }
        if let Some(p) = adversarial {
            if res != "ok" {
                out.probe(p);
                if now != prev {
                    out.violate("C20", "refused-request-changed-state", &format!("request={tag}"), format!("event {id} ({ev}): refused with {res} but the row/uuid/state table changed"), i);
                }
            } else if !forbidden {
                out.probe("adversarial request returned Ok without forbidden effect");
            }
        }
        let d = now.digest();
        out.chain(d);
        if seen_states.insert(d) {
            out.states.push(d);
        }
        prev = now;
        dedupe(out);
        if out.violations.len() >= 12 {
            break;
        }
    }
    out.nontrivial = out.events_run >= 3 && out.states.len() >= 2;
    Ok(())
}

impl Scenario for C20 {
    fn property(&self) -> &'static str {
        "C20"
    }
    fn engine(&self) -> &'static str {
        "E5 idm/uuid"
    }
    fn budget(&self, tier: Tier) -> Budget {
        match tier {
            Tier::Quick => Budget { runs: 320, wall_cap_s: 150 },
            Tier::Thorough => Budget { runs: 20_000, wall_cap_s: 1500 },
        }
    }
    fn generate(&self, seed: u64, tier: Tier) -> Plan {
        c20_generate(seed, tier)
    }
    fn execute(&self, plan: &Plan) -> Outcome {
        c20_execute(plan)
    }
    fn rule(&self) -> String {
        "A run = one freshly installed server (in-memory or file-backed) on which the simulator installs a grant-everything access control profile (search/modify/create/delete over every entry, every attribute and class of the live schema) for a test user (in half of the runs the user is also put into every built-in group), then 24–90 seeded events: every modify kind on `uuid` (present, removed, purged, set, set-to-same, purge+present, removed+present, assert+set; plain and batch modify; alone or mixed with a permitted change) against built-in and ordinary entries with new uuids drawn from the reserved range, the dynamic range, and uuids of other entries; creates with reserved-range uuids (alone or batched with an ordinary entry, with/without class builtin) and at the range boundary; deletes of built-ins by uuid/name/class/OR filters and by adding class recycled/tombstone; interleaved with ordinary creates/writes/deletes as the user, clock advances and restarts. After every event the row-id↔uuid↔state table of the whole database is compared with the previous one and with the fresh-install baseline. distinct_nontrivial = distinct digests of that table reached; a run counts if ≥3 events ran and ≥2 distinct tables were seen.".into()
    }
    fn components(&self) -> J {
        std_components()
    }
    fn assumptions(&self) -> Vec<String> {
        vec![
            "\"request from a user\" = an event carrying a User identity (Identity::from_impersonate_entry_readwrite), the identity type the HTTP front end builds for authenticated people and service accounts; internal, migration and synchronisation identities are out of scope here (sync is C50)".into(),
            "\"built-in entry\" = an entry of a fresh install whose uuid is below DYNAMIC_RANGE_MINIMUM_UUID".into(),
            "an adversarial request that returns Ok without any forbidden effect (e.g. a delete filter that matched nothing) is counted as a probe, not a violation: the statement speaks of effects".into(),
            "sampled, not exhaustive".into(),
        ]
    }
}


// ================================================================================================
// C50 — Synchronisation agreements stay inside their own scope
// ================================================================================================

struct C50;

const SYNC_PREFIX: &str = "urn:ietf:params:scim:schemas:kanidm:sync:1:";
/// Attributes a sync apply sets on its own entries as book-keeping or that plugins derive from the
/// synchronised ones (not "changes of attributes" in the sense of the statement).
const C50_BOOKKEEPING: [&str; 13] = ["class", "sync_class", "sync_external_id", "sync_parent_uuid", "uuid", "spn", "memberof", "directmemberof", "name_history", "id_verification_eckey", "recycled_directmemberof", "last_modified_cid", "created_at_cid"];
/// Attributes of a synchronised entry a user may always change (modify_sync_constrain's fixed set).
const C50_USER_ALWAYS: [&str; 4] = ["user_auth_token_session", "oauth2_session", "oauth2_consent_scope_map", "credential_update_intent_token"];
/// Derived by plugins from permitted changes (spn/name_history from name, memberof from groups' member).
const C50_USER_DERIVED: [&str; 6] = ["spn", "name_history", "memberof", "directmemberof", "last_modified_cid", "recycled_directmemberof"];

fn c50_ag(i: u64) -> Uuid {
    uuid_for(5, i)
}
fn c50_native(i: u64) -> Uuid {
    uuid_for(6, i)
}
const C50_OPERATOR: u64 = 100;

fn cookie(n: u64) -> String {
    // any [A-Za-z0-9]{4k} string is valid unpadded url-safe base64
    format!("ck{:02}", n % 100)
}

#[derive(Clone, Debug)]
struct SEnt {
    u: Uuid,
    kind: &'static str,
    ext: String,
    name: String,
    posix: bool,
}

#[derive(Default)]
struct AgModel {
    active: bool,
    owned: Vec<SEnt>,
    dead: Vec<Uuid>,
    yielded: BTreeSet<&'static str>,
}

/// One wire-format entry for `e` that the model expects to be accepted (no yielded attributes).
fn c50_clean_entry(k: &mut Rng, ag: usize, e: &SEnt, m: &AgModel, natives: &[Uuid]) -> J {
    let mut schemas: Vec<String> = if e.kind == "person" { vec![format!("{SYNC_PREFIX}person"), format!("{SYNC_PREFIX}account")] } else { vec![format!("{SYNC_PREFIX}group")] };
    if e.posix {
        schemas.push(format!("{SYNC_PREFIX}{}", if e.kind == "person" { "posixaccount" } else { "posixgroup" }));
    }
    let mut j = json!({"schemas": schemas, "id": e.u.to_string(), "externalId": e.ext});
    let y = |a: &str| m.yielded.contains(a);
    if !y("name") {
        j["name"] = json!(e.name);
    }
    if e.kind == "person" {
        if !y("displayname") {
            j["displayname"] = json!(format!("Disp {}", k.below(50)));
        }
        if k.chance(1, 3) && !y("legalname") {
            j["legalname"] = json!(format!("Legal {}", k.below(50)));
        }
        if k.chance(1, 3) && !y("mail") {
            j["mail"] = json!([{"value": format!("m{}@src{ag}.example", k.below(500)), "primary": true}]);
        }
        if e.posix && k.chance(1, 2) && !y("loginshell") {
            j["loginshell"] = json!("/bin/sh");
        }
    } else {
        if k.chance(1, 2) && !y("description") {
            j["description"] = json!(format!("Desc {}", k.below(50)));
        }
        if k.chance(2, 3) && !y("member") {
            let mut ms = vec![];
            for _ in 0..1 + k.below(3) {
                let r: Option<String> = match k.below(10) {
                    0..=6 if !m.owned.is_empty() => {
                        let o = &m.owned[k.below(m.owned.len() as u64) as usize];
                        Some(if k.chance(1, 2) { o.ext.clone() } else { o.u.to_string() })
                    }
                    // a native entry as member of a synchronised group is permitted
                    7 => Some(natives[k.below(3) as usize].to_string()),
                    // an external id nobody has is skipped by the server
                    8 => Some(format!("cn=nobody{},dc=src{ag}", k.below(5))),
                    _ => None,
                };
                if let Some(r) = r {
                    ms.push(json!({"external_id": r}));
                }
            }
            if !ms.is_empty() {
                j["member"] = json!(ms);
            }
        }
    }
    if e.posix && k.chance(2, 3) && !y("gidnumber") {
        j["gidnumber"] = json!(70_000 + (e.u.as_u128() as u64 % 100_000));
    }
    j
}

fn c50_generate(seed: u64, tier: Tier) -> Plan {
    let mut k = Rng::stream(seed, "c50");
    let fr = fresh();
    let file = k.chance(1, 3);
    let n = if tier == Tier::Quick { 24 + k.below(24) } else { 30 + k.below(70) } as usize;
    let mut ms: [AgModel; 2] = [AgModel::default(), AgModel::default()];
    let mut ctr = 0u64;
    let mut ck = 0u64;
    let natives: Vec<Uuid> = (0..3).map(c50_native).chain([c50_native(10)]).collect();
    let recycled: Vec<Uuid> = vec![c50_native(20), c50_native(21)];
    let yieldable = ["name", "displayname", "legalname", "mail", "description", "gidnumber", "loginshell", "member", "account_expire", "primary_credential"];
    let bad_attrs: [(&str, J); 8] = [
        ("entry_managed_by", json!(c50_native(0).to_string())),
        ("sync_parent_uuid", json!(c50_ag(1).to_string())),
        ("uuid", json!(c50_native(1).to_string())),
        ("class", json!("system")),
        ("memberof", json!([{"external_id": "00000000-0000-0000-0000-000000000001"}])),
        ("acp_enable", json!(true)),
        ("sync_yield_authority", json!("name")),
        ("domain_name", json!("evil.example.com")),
    ];
    let bad_schemas = ["system", "access_control_profile", "sync_account", "builtin", "dyngroup", "oauth2_resource_server", "domain_info", "object"];
    let mut evs = vec![];
    for i in 0..n {
        let id = (i + 1) as u64;
        let w = [44u32, 5, 26, 4, 4, 5, if file { 5 } else { 0 }, 3];
        let first = i < 2;
        let ev = match if first { 0 } else { k.pick_weighted(&w) } {
            0 => {
                let ag = if first { i } else { k.below(2) as usize };
                let adversarial = !first && k.chance(2, 5);
                // ---- a request the model expects to be accepted ------------------------------
                let mut entries: Vec<J> = vec![];
                let mut sent: Vec<SEnt> = vec![];
                let ne = if k.chance(1, 12) { 0 } else { 1 + k.below(4) as usize };
                let can_create = !ms[ag].yielded.contains("name") && !ms[ag].yielded.contains("displayname");
                for _ in 0..ne {
                    let reuse = !ms[ag].owned.is_empty() && (k.chance(2, 5) || !can_create);
                    let e: SEnt = if reuse {
                        ms[ag].owned[k.below(ms[ag].owned.len() as u64) as usize].clone()
                    } else if can_create {
                        ctr += 1;
                        let kind = if k.chance(3, 5) { "person" } else { "group" };
                        SEnt { u: uuid_for(7, ctr), kind, ext: format!("cn=e{ctr},dc=src{ag}"), name: format!("s{ag}x{ctr}"), posix: k.chance(1, 4) }
                    } else {
                        continue;
                    };
                    if sent.iter().any(|s| s.u == e.u) {
                        continue;
                    }
                    let j = c50_clean_entry(&mut k, ag, &e, &ms[ag], &natives);
                    if k.chance(1, 15) {
                        // duplicate id within one request: the later element wins
                        let mut d = j.clone();
                        d["description"] = J::Null;
                        if let Some(o) = d.as_object_mut() {
                            o.remove("description");
                        }
                        entries.push(d);
                    }
                    entries.push(j);
                    sent.push(e);
                }
                let from_refresh = k.chance(1, 8);
                let mut from = if from_refresh { json!("Refresh") } else { json!("current") };
                ck += 1;
                let to_active = !k.chance(1, 8);
                let to = if to_active { json!({"Active": {"cookie": cookie(ck)}}) } else { json!("Refresh") };
                // retention
                let union: Vec<Uuid> = ms[ag].owned.iter().map(|o| o.u).chain(sent.iter().map(|s| s.u)).collect::<BTreeSet<_>>().into_iter().collect();
                let mut delete_set: BTreeSet<Uuid> = BTreeSet::new();
                let mut retain = match k.below(20) {
                    0..=11 => json!("Ignore"),
                    12..=16 => {
                        let mut v: Vec<String> = vec![];
                        for u in &union {
                            if k.chance(1, 4) {
                                delete_set.insert(*u);
                                v.push(u.to_string());
                            }
                        }
                        if k.chance(1, 3) {
                            // deleting what is already gone / never existed is tolerated
                            v.push(if !ms[ag].dead.is_empty() && k.chance(1, 2) { ms[ag].dead[0].to_string() } else { uuid_for(7, 900_000 + k.below(50)).to_string() });
                        }
                        json!({"Delete": v})
                    }
                    _ => {
                        let mut v: Vec<String> = vec![];
                        for u in &union {
                            if k.chance(3, 4) {
                                v.push(u.to_string());
                            } else {
                                delete_set.insert(*u);
                            }
                        }
                        if k.chance(1, 3) {
                            // naming entries of others in a retain list is harmless
                            v.push(natives[k.below(natives.len() as u64) as usize].to_string());
                        }
                        json!({"Retain": v})
                    }
                };
                let has_dup = entries.len() > sent.len();
                let mut cats: Vec<&str> = vec![];
                // ---- one (sometimes two) adversarial twists: the model expects a refusal ------
                if adversarial {
                    for _ in 0..1 + k.below(5) / 4 {
                        let other = 1 - ag;
                        match k.below(100) {
                            0..=44 => {
                                // an entry id that is not the caller's
                                let (u, kind, cat): (Uuid, &'static str, &'static str) = match k.below(100) {
                                    0..=21 if !ms[other].owned.is_empty() => {
                                        let o = &ms[other].owned[k.below(ms[other].owned.len() as u64) as usize];
                                        (o.u, o.kind, "other")
                                    }
                                    22..=37 => {
                                        let ix = k.below(natives.len() as u64) as usize;
                                        (natives[ix], if ix < 3 { "person" } else { "group" }, "native")
                                    }
                                    38..=51 => {
                                        let pool: Vec<Uuid> = recycled.iter().chain(ms[ag].dead.iter()).chain(ms[other].dead.iter()).copied().collect();
                                        (pool[k.below(pool.len() as u64) as usize], "person", "recycled")
                                    }
                                    52..=81 => (reserved_pick(&mut k), if k.chance(1, 2) { "group" } else { "person" }, "reserved-free"),
                                    _ => {
                                        let b = &fr.builtins[k.below(fr.builtins.len() as u64) as usize];
                                        (b.0, if b.2.iter().any(|c| c == "group") { "group" } else { "person" }, "builtin")
                                    }
                                };
                                ctr += 1;
                                let e = SEnt { u, kind, ext: format!("cn=x{ctr},dc=src{ag}"), name: format!("s{ag}y{ctr}"), posix: false };
                                let mut j = c50_clean_entry(&mut k, ag, &e, &ms[ag], &natives);
                                if k.chance(1, 4) {
                                    if let Some(o) = j.as_object_mut() {
                                        o.remove("externalId");
                                    }
                                }
                                entries.push(j);
                                cats.push(cat);
                            }
                            45..=54 => {
                                if let Some(e) = entries.last_mut() {
                                    let s = if k.chance(1, 3) { "urn:ietf:params:scim:schemas:core:2.0:User".to_string() } else { format!("{SYNC_PREFIX}{}", k.pick(&bad_schemas)) };
                                    if let Some(a) = e["schemas"].as_array_mut() {
                                        a.push(json!(s));
                                    }
                                    cats.push("bad-class");
                                }
                            }
                            55..=69 => {
                                if let Some(e) = entries.last_mut() {
                                    let y: Vec<&str> = ms[ag].yielded.iter().copied().collect();
                                    if !y.is_empty() && k.chance(1, 2) {
                                        let a = *k.pick(&y);
                                        e[a] = match a {
                                            "gidnumber" => json!(71_234),
                                            "mail" => json!([{"value": "yield@x.example", "primary": true}]),
                                            "member" => json!([{"external_id": natives[0].to_string()}]),
                                            "account_expire" => json!("2035-01-01T00:00:00+00:00"),
                                            _ => json!("overwritten by sync"),
                                        };
                                        cats.push("yielded-attr");
                                    } else {
                                        let (a, v) = k.pick(&bad_attrs).clone();
                                        e[a] = v;
                                        cats.push("bad-attr");
                                    }
                                }
                            }
                            70..=79 => {
                                from = json!({"Active": {"cookie": cookie(90 + k.below(5))}});
                                cats.push("stale-cookie");
                            }
                            80..=89 => {
                                let u = match k.below(4) {
                                    0 if !ms[other].owned.is_empty() => ms[other].owned[k.below(ms[other].owned.len() as u64) as usize].u,
                                    1 => fr.builtins[k.below(fr.builtins.len() as u64) as usize].0,
                                    2 => c50_ag(other as u64),
                                    _ => natives[k.below(natives.len() as u64) as usize],
                                };
                                retain = json!({"Delete": [u.to_string()]});
                                delete_set.clear();
                                cats.push("foreign-delete");
                            }
                            90..=94 => {
                                if let Some(e) = entries.last_mut() {
                                    e["member"] = json!([{"external_id": uuid_for(7, 800_000 + k.below(50)).to_string()}]);
                                    cats.push("dangling-member");
                                }
                            }
                            _ => {
                                if let Some(e) = entries.last_mut() {
                                    e["name"] = json!(format!("c50_n{}", k.below(3)));
                                    cats.push("name-collision");
                                }
                            }
                        }
                    }
                }
                // ---- model update (only when no twist was applied) ------------------------------
                if cats.is_empty() {
                    let m = &mut ms[ag];
                    let refresh_semantics = from_refresh || !m.active;
                    for s in &sent {
                        if !m.owned.iter().any(|o| o.u == s.u) {
                            m.owned.push(s.clone());
                        }
                    }
                    if refresh_semantics {
                        let keep: BTreeSet<Uuid> = sent.iter().map(|s| s.u).collect();
                        let (k2, gone): (Vec<SEnt>, Vec<SEnt>) = m.owned.drain(..).partition(|o| keep.contains(&o.u));
                        m.owned = k2;
                        m.dead.extend(gone.into_iter().map(|g| g.u));
                    }
                    let (k2, gone): (Vec<SEnt>, Vec<SEnt>) = m.owned.drain(..).partition(|o| !delete_set.contains(&o.u));
                    m.owned = k2;
                    m.dead.extend(gone.into_iter().map(|g| g.u));
                    m.active = to_active;
                }
                json!({"id": id, "op": "Apply", "ag": ag, "from": from, "cats": cats, "dup": has_dup, "req": {"to_state": to, "entries": entries, "retain": retain}})
            }
            1 => {
                let ag = k.below(2) as usize;
                let attrs: Vec<&'static str> = yieldable.iter().filter(|_| k.chance(1, 5)).copied().collect();
                ms[ag].yielded = attrs.iter().copied().collect();
                json!({"id": id, "op": "Yield", "ag": ag, "attrs": attrs})
            }
            2 => {
                // user modification of a synchronised entry
                let ag = k.below(2) as usize;
                let ag = if ms[ag].owned.is_empty() { 1 - ag } else { ag };
                if ms[ag].owned.is_empty() {
                    json!({"id": id, "op": "Advance", "secs": 10})
                } else {
                    let o = ms[ag].owned[k.below(ms[ag].owned.len() as u64) as usize].clone();
                    let choices: [(&str, &str, J); 22] = [
                        ("name", "set", json!(format!("usr{}", k.below(1000)))),
                        ("displayname", "set", json!(format!("User Set {}", k.below(100)))),
                        ("legalname", "set", json!("User Legal")),
                        ("description", "set", json!("user desc")),
                        ("mail", "set", json!(format!("u{}@user.example", k.below(100)))),
                        ("gidnumber", "set", json!((80000 + k.below(1000)).to_string())),
                        ("loginshell", "set", json!("/bin/zsh")),
                        ("member", "add", json!(c50_native(k.below(3)).to_string())),
                        ("member", "purge", J::Null),
                        ("sync_parent_uuid", "purge", J::Null),
                        ("sync_parent_uuid", "set", json!(c50_ag(1 - ag as u64).to_string())),
                        ("sync_external_id", "purge", J::Null),
                        ("sync_class", "purge", J::Null),
                        ("class", "remove", json!("sync_object")),
                        ("class", "add", json!("posixaccount")),
                        ("entry_managed_by", "set", json!(uuid_for(5, C50_OPERATOR).to_string())),
                        ("user_auth_token_session", "session", json!(uuid_for(8, id).to_string())),
                        ("user_auth_token_session", "purge", J::Null),
                        ("oauth2_session", "purge", J::Null),
                        ("credential_update_intent_token", "purge", J::Null),
                        ("account_expire", "set", json!("2030-01-01T00:00:00+00:00")),
                        ("displayname", "purge", J::Null),
                    ];
                    let y: Vec<usize> = choices.iter().enumerate().filter(|(_, c)| ms[ag].yielded.contains(c.0)).map(|(i, _)| i).collect();
                    let c = if !y.is_empty() && k.chance(2, 5) { choices[*k.pick(&y)].clone() } else { k.pick(&choices).clone() };
                    json!({"id": id, "op": "UserMod", "u": o.u, "attr": c.0, "kind": c.1, "val": c.2, "batch": k.chance(1, 4)})
                }
            }
            3 => {
                let ag = k.below(2) as usize;
                if ms[ag].owned.is_empty() {
                    json!({"id": id, "op": "Advance", "secs": 10})
                } else {
                    json!({"id": id, "op": "UserDelete", "u": ms[ag].owned[k.below(ms[ag].owned.len() as u64) as usize].u})
                }
            }
            4 => {
                let ag = k.below(2) as usize;
                let persons: Vec<&SEnt> = ms[ag].owned.iter().filter(|o| o.kind == "person").collect();
                if persons.is_empty() {
                    json!({"id": id, "op": "Advance", "secs": 10})
                } else {
                    json!({"id": id, "op": "UserIntent", "u": persons[k.below(persons.len() as u64) as usize].u, "commit": k.chance(1, 2)})
                }
            }
            5 => {
                // ordinary administrative write on a native entry (put a synchronised entry into a native group, rename)
                let ag = k.below(2) as usize;
                if k.chance(1, 2) && !ms[ag].owned.is_empty() {
                    json!({"id": id, "op": "NativeMember", "g": c50_native(10), "m": ms[ag].owned[k.below(ms[ag].owned.len() as u64) as usize].u, "add": k.chance(3, 4)})
                } else {
                    json!({"id": id, "op": "NativeWrite", "u": natives[k.below(natives.len() as u64) as usize], "v": format!("nd{}", k.below(100))})
                }
            }
            6 => json!({"id": id, "op": "Restart"}),
            _ => json!({"id": id, "op": "Advance", "secs": 1 + k.below(7200)}),
        };
        evs.push(ev);
    }
    Plan { property: "C50".into(), seed, cfg: json!({"file": file}), events: evs }
}


#[derive(Clone)]
struct Snap50 {
    dump: Dump,
    owner: BTreeMap<Uuid, Option<Uuid>>,
    yielded: BTreeMap<Uuid, BTreeSet<String>>,
}

impl Snap50 {
    fn take(srv: &Srv) -> Result<Snap50, String> {
        let es = srv.read(|r| dump::search_all(&mut r.qs_read)).map_err(|e| format!("{e:?}"))?.map_err(|e| format!("snapshot: {e:?}"))?;
        let mut entries = BTreeMap::new();
        let mut owner = BTreeMap::new();
        let mut yielded = BTreeMap::new();
        for e in es {
            let u = e.get_uuid();
            entries.insert(u, (dump::entry_state(&e), dump::entry_json(&e)));
            owner.insert(u, e.get_ava_single_refer(Attribute::SyncParentUuid));
            if e.attribute_equality(Attribute::Class, &EntryClass::SyncAccount.into()) {
                yielded.insert(u, dump::ava_strings(&e, Attribute::SyncYieldAuthority).into_iter().collect());
            }
        }
        Ok(Snap50 { dump: Dump { entries }, owner, yielded })
    }
}

/// Attributes whose stored values kanidm draws from randomness that is buffered per worker thread
/// (key material, session / token ids, change stamps carrying the random server uuid): excluded
/// from determinism digests, never from oracles.
const VOLATILE: [&str; 12] = ["key_internal_data", "sync_token_session", "id_verification_eckey", "credential_update_intent_token", "last_modified_cid", "created_at_cid", "primary_credential", "api_token_session", "user_auth_token_session", "radius_secret", "unix_password", "private_cookie_key"];

fn stable_digest(d: &Dump) -> u64 {
    let mut h = 0u64;
    for (u, (s, j)) in &d.entries {
        h = h.rotate_left(5) ^ fnv64(format!("{u}|{s:?}").as_bytes());
        if let Some(a) = attrs_of(j) {
            for (k, v) in a {
                if !VOLATILE.contains(&k.as_str()) {
                    h = h.rotate_left(3) ^ fnv64(k.as_bytes()) ^ fnv64(v.to_string().as_bytes()).rotate_left(17);
                }
            }
        }
    }
    h
}

fn attrs_of(j: &J) -> Option<&serde_json::Map<String, J>> {
    j.pointer("/ent/V3/attrs").and_then(|a| a.as_object())
}

/// Names of the attributes whose stored value differs between two versions of an entry.
fn changed_attrs(a: &J, b: &J) -> BTreeSet<String> {
    let mut out = BTreeSet::new();
    match (attrs_of(a), attrs_of(b)) {
        (Some(x), Some(y)) => {
            for (k, v) in x {
                if y.get(k) != Some(v) {
                    out.insert(k.clone());
                }
            }
            for k in y.keys() {
                if !x.contains_key(k) {
                    out.insert(k.clone());
                }
            }
        }
        _ => {
            if a != b {
                out.insert("<whole entry>".into());
            }
        }
    }
    out
}


fn uuids_in(v: Option<&J>) -> BTreeSet<String> {
    let mut out = BTreeSet::new();
    fn walk(v: &J, out: &mut BTreeSet<String>) {
        match v {
            J::String(s) => {
                if Uuid::parse_str(s).is_ok() {
                    out.insert(s.clone());
                }
            }
            J::Array(a) => a.iter().for_each(|x| walk(x, out)),
            J::Object(m) => m.values().for_each(|x| walk(x, out)),
            _ => {}
        }
    }
    if let Some(v) = v {
        walk(v, &mut out);
    }
    out
}

/// Changes kanidm derives on an entry from somebody else's permitted change: reverse membership
/// (memberof, directmemberof, dynmember of dynamic groups, recycled_directmemberof), the change
/// stamp, and referential-integrity clean-up (`member` loses exactly uuids the request deleted).
fn c50_derived(attr: &str, v0: Option<&J>, v1: Option<&J>, deleted: &BTreeSet<Uuid>) -> bool {
    if matches!(attr, "memberof" | "directmemberof" | "dynmember" | "recycled_directmemberof" | "last_modified_cid") {
        return true;
    }
    if attr == "member" {
        let (a, b) = (uuids_in(v0), uuids_in(v1));
        let gone: BTreeSet<&String> = a.difference(&b).collect();
        return b.is_subset(&a) && !gone.is_empty() && gone.iter().all(|g| Uuid::parse_str(g).map(|u| deleted.contains(&u)).unwrap_or(false));
    }
    false
}

fn c50_execute(plan: &Plan) -> Outcome {
    let mut out = Outcome::default();
    for p in [
        "apply ok", "apply refused", "apply created entries", "apply modified owned entries", "apply deleted owned entries", "apply ok in active state", "apply ok from refresh",
        "apply refused: stale cookie", "request named another agreement's entry", "request named a native entry", "request named a recycled entry", "request named a reserved-range id", "request named a built-in entry", "request had a duplicate id",
        "yield changed", "user modify of sync entry accepted", "user modify of sync entry refused", "user modify accepted on yielded attribute", "user delete of sync entry refused", "user intent token on sync entry accepted", "credential reset commit on sync entry accepted", "credential reset commit on sync entry refused", "restart",
    ] {
        out.probe0(p);
    }
    let file = b_of(&plan.cfg, "file");
    let mut t = BASE_EPOCH;
    entropy::swap_stream(Some(Rng::new(plan.seed ^ 0xC50)));
    let mut srv = match Srv::boot(file, "c50", Duration::from_secs(t)) {
        Ok(s) => s,
        Err(e) => {
            entropy::swap_stream(None);
            return Outcome { harness_error: Some(e), ..out };
        }
    };
    let res = c50_run(plan, &mut srv, &mut out, &mut t);
    drop(srv);
    entropy::swap_stream(None);
    if let Err(e) = res {
        out.harness_error = Some(e);
    }
    out
}

#[allow(clippy::too_many_arguments)]
fn typed_value(w: &mut IdmServerProxyWriteTransaction<'_>, attr: &str, kind: &str, val: &J, ct: Duration) -> Result<Value, OperationError> {
    if kind == "session" {
        let sid = val.as_str().and_then(|s| Uuid::parse_str(s).ok()).unwrap_or(Uuid::nil());
        return Ok(Value::Session(
            sid,
            Session {
                label: "sim".into(),
                state: SessionState::NeverExpires,
                issued_at: time::OffsetDateTime::UNIX_EPOCH + ct,
                issued_by: IdentityId::Internal(UUID_SYSTEM),
                cred_id: uuid_for(8, 1),
                scope: SessionScope::ReadOnly,
                type_: AuthType::Passkey,
                ext_metadata: Default::default(),
            },
        ));
    }
    w.qs_write.clone_value(&Attribute::from(attr), val.as_str().unwrap_or(""))
}

fn c50_run(plan: &Plan, srv: &mut Srv, out: &mut Outcome, t: &mut u64) -> Result<(), String> {
    let base = Lite::take(srv)?;
    let base_reserved: BTreeSet<Uuid> = base.rows.values().map(|(u, _, _)| *u).filter(|u| reserved(*u)).collect();
    let operator = uuid_for(5, C50_OPERATOR);
    let ct0 = Duration::from_secs(*t);
    let tokens: Vec<JwsCompact> = srv
        .write(ct0, |w| {
            let mut es = vec![person(operator, "c50_operator")];
            for i in 0..2u64 {
                es.push(entry_init!(
                    (Attribute::Class, EntryClass::Object.to_value()),
                    (Attribute::Class, EntryClass::SyncAccount.to_value()),
                    (Attribute::Name, Value::new_iname(&format!("c50_sync{i}"))),
                    (Attribute::Uuid, Value::Uuid(c50_ag(i))),
                    (Attribute::Description, Value::new_utf8s("simulated sync agreement"))
                ));
            }
            for i in 0..3u64 {
                es.push(person(c50_native(i), &format!("c50_n{i}")));
            }
            es.push(group(c50_native(10), "c50_ng", &[c50_native(0)], None));
            es.push(person(c50_native(20), "c50_r0"));
            es.push(person(c50_native(21), "c50_r1"));
            w.qs_write.internal_create(es)?;
            w.qs_write.internal_delete_uuid(c50_native(20))?;
            w.qs_write.internal_delete_uuid(c50_native(21))?;
            install_grant_all(w, uuid_for(5, 101), uuid_for(5, 102), &[operator], "c50")?;
            let mut toks = vec![];
            for i in 0..2u64 {
                toks.push(w.scim_sync_generate_token(&GenerateScimSyncTokenEvent { ident: vh::identity_internal(), target: c50_ag(i), label: "sim".into() }, ct0)?);
            }
            Ok(toks)
        })
        .map_err(|e| format!("c50 setup: {e:?}"))?;
    let sync_allowed: BTreeSet<String> = srv
        .read(|r| r.qs_read.get_schema().get_attributes().values().filter(|a| a.sync_allowed).map(|a| a.name.to_string()).collect())
        .map_err(|e| format!("{e:?}"))?;
    let mut prev = Snap50::take(srv)?;
    let mut kinds = vec![];
    let mut seen_states = BTreeSet::new();
    for (i, ev) in plan.events.iter().enumerate() {
        let id = ev_id(ev, i);
        entropy::swap_stream(Some(Rng::new(plan.seed ^ id.wrapping_mul(K))));
        let ct = Duration::from_secs(*t);
        let op = s_of(ev, "op").to_string();
        let mut tag = op.clone();
        let res: String = match op.as_str() {
            "Apply" => {
                let ag = n_of(ev, "ag").min(1);
                let me = c50_ag(ag);
                let tok = tokens[ag as usize].clone();
                let cai = || ClientAuthInfo::new(Source::Internal, None, Some(tok.clone()), None);
                // the connector first asks for the current state, as the real tool does
                let cur = srv
                    .read(|r| r.validate_sync_client_auth_info_to_ident(cai(), ct).and_then(|ident| r.scim_sync_get_state(&ident)))
                    .map_err(|e| format!("{e:?}"))?;
                let mut req = ev["req"].clone();
                let from_mode = if ev["from"] == json!("current") { "current" } else if ev["from"] == json!("Refresh") { "refresh" } else { "explicit" };
                req["from_state"] = match (&ev["from"], &cur) {
                    (f, Ok(st)) if f == &json!("current") => serde_json::to_value(st).expect("state json"),
                    (f, Err(_)) if f == &json!("current") => json!("Refresh"),
                    (f, _) => f.clone(),
                };
                let cur_active = matches!(cur, Ok(ScimSyncState::Active { .. }));
                tag = format!("Apply:{}", if cur_active { "active" } else { "refresh" });
                let cats: Vec<String> = ev["cats"].as_array().map(|a| a.iter().filter_map(|x| x.as_str().map(String::from)).collect()).unwrap_or_default();
                if b_of(ev, "dup") {
                    out.probe("request had a duplicate id");
                }
                for c in &cats {
                    match c.as_str() {
                        "other" => out.probe("request named another agreement's entry"),
                        "native" => out.probe("request named a native entry"),
                        "recycled" => out.probe("request named a recycled entry"),
                        "reserved-free" => out.probe("request named a reserved-range id"),
                        "builtin" => out.probe("request named a built-in entry"),
                        "dup" => out.probe("request had a duplicate id"),
                        _ => {}
                    }
                }
                match serde_json::from_value::<ScimSyncRequest>(req.clone()) {
                    Err(e) => format!("unparsable:{}", e.to_string().chars().take(40).collect::<String>()),
                    Ok(sreq) => {
                        let r = srv.write(ct, |w| {
                            let ident = w.validate_sync_client_auth_info_to_ident(cai(), ct)?;
                            w.scim_sync_apply(&ScimSyncUpdateEvent { ident }, &sreq, ct)
                        });
                        let now = Snap50::take(srv)?;
                        let yielded = prev.yielded.get(&me).cloned().unwrap_or_default();
                        let retain_kind = if sreq.entries.is_empty() { "none" } else { "entries" };
                        let retain_mode = match &sreq.retain {
                            kanidm_proto::scim_v1::ScimSyncRetentionMode::Ignore => "ignore",
                            kanidm_proto::scim_v1::ScimSyncRetentionMode::Retain(_) => "retain",
                            kanidm_proto::scim_v1::ScimSyncRetentionMode::Delete(_) => "delete",
                        };
                        match &r {
                            Err(e) => {
                                out.probe("apply refused");
                                if from_mode == "explicit" && matches!(e, OperationError::InvalidSyncState) {
                                    out.probe("apply refused: stale cookie");
                                }
                                if now.dump != prev.dump {
                                    let d = prev.dump.diff(&now.dump).unwrap_or_default();
                                    out.violate("C50", "refused-apply-changed-state", &format!("state={}", if cur_active { "active" } else { "refresh" }), format!("event {id}: apply by agreement {ag} was refused with {e:?} but the database changed: {d}"), i);
                                }
                            }
                            Ok(()) => {
                                out.probe("apply ok");
                                out.probe(if cur_active && from_mode != "refresh" { "apply ok in active state" } else { "apply ok from refresh" });
                                let mut deleted_by_apply: BTreeSet<Uuid> = BTreeSet::new();
                                for (u, (s0, _)) in &prev.dump.entries {
                                    if let Some((s1, _)) = now.dump.entries.get(u) {
                                        if *s0 == EState::Live && *s1 != EState::Live {
                                            deleted_by_apply.insert(*u);
                                        }
                                    }
                                }
                                let all: BTreeSet<Uuid> = prev.dump.entries.keys().chain(now.dump.entries.keys()).copied().collect();
                                for u in all {
                                    let (p, n) = (prev.dump.entries.get(&u), now.dump.entries.get(&u));
                                    if p == n {
                                        continue;
                                    }
                                    match (p, n) {
                                        (None, Some((st, j))) => {
                                            out.probe("apply created entries");
                                            let o = now.owner.get(&u).copied().flatten();
                                            if reserved(u) {
                                                let builtin = j.to_string().contains("\"builtin\"");
                                                out.violate("C50", "reserved-range-create", &format!("id=reserved-range; stub-class-builtin={builtin}"), format!("event {id}: sync apply by agreement {ag} (result Ok) created entry {u} ({st:?}) whose uuid is below DYNAMIC_RANGE_MINIMUM_UUID {DYNAMIC_RANGE_MINIMUM_UUID}; owner {o:?}; carries class builtin: {builtin}; request entry ids {:?}", sreq.entries.iter().map(|e| e.id).collect::<Vec<_>>()), i);
                                            }
                                            if o != Some(me) {
                                                out.violate("C50", "scope", "created=entry-not-owned-by-caller", format!("event {id}: apply by agreement {ag} ({me}) created {u} whose sync_parent_uuid is {o:?}"), i);
                                            }
                                        }
                                        (Some((s0, j0)), Some((s1, j1))) => {
                                            let ch = changed_attrs(j0, j1);
                                            if u == me {
                                                let extra: Vec<&String> = ch.iter().filter(|a| *a != "sync_cookie" && *a != "last_modified_cid").collect();
                                                if !extra.is_empty() || s0 != s1 {
                                                    out.violate("C50", "scope", "changed=own-sync-account-beyond-cookie", format!("event {id}: apply changed its own agreement entry in {extra:?}"), i);
                                                }
                                                continue;
                                            }
                                            let o0 = prev.owner.get(&u).copied().flatten();
                                            if o0 == Some(me) && *s0 == EState::Live {
                                                if *s1 != EState::Live {
                                                    out.probe("apply deleted owned entries");
                                                    continue;
                                                }
                                                out.probe("apply modified owned entries");
                                                for a in &ch {
                                                    if C50_BOOKKEEPING.contains(&a.as_str()) || c50_derived(a, j0.pointer(&format!("/ent/V3/attrs/{a}")), j1.pointer(&format!("/ent/V3/attrs/{a}")), &deleted_by_apply) {
                                                        continue;
                                                    }
                                                    if yielded.contains(a) {
                                                        out.violate("C50", "attrs", &format!("attr={a}; reason=yielded-to-kanidm"), format!("event {id}: apply by agreement {ag} changed attribute {a} of its entry {u} although the agreement yields authority over {yielded:?}: {} -> {}", j0.pointer(&format!("/ent/V3/attrs/{a}")).unwrap_or(&J::Null), j1.pointer(&format!("/ent/V3/attrs/{a}")).unwrap_or(&J::Null)), i);
                                                    } else if !sync_allowed.contains(a) {
                                                        out.violate("C50", "attrs", &format!("attr={a}; reason=not-synchronisable"), format!("event {id}: apply by agreement {ag} changed attribute {a} of its entry {u}, which the schema does not mark sync_allowed: {} -> {}", j0.pointer(&format!("/ent/V3/attrs/{a}")).unwrap_or(&J::Null), j1.pointer(&format!("/ent/V3/attrs/{a}")).unwrap_or(&J::Null)), i);
                                                    }
                                                }
                                                continue;
                                            }
                                            // not owned by the caller before the request
                                            let kind = if prev.yielded.contains_key(&u) {
                                                "other-sync-account"
                                            } else if o0.is_some() && *s0 == EState::Live {
                                                "other-agreement-entry"
                                            } else if *s0 != EState::Live {
                                                "recycled-or-tombstone"
                                            } else if reserved(u) {
                                                "builtin"
                                            } else {
                                                "native"
                                            };
                                            // consequences of the caller's own changes that kanidm derives on other entries:
                                            // reverse membership, and reference clean-up for entries the caller deleted
                                            let mut real: Vec<String> = vec![];
                                            for a in &ch {
                                                let (v0, v1) = (j0.pointer(&format!("/ent/V3/attrs/{a}")), j1.pointer(&format!("/ent/V3/attrs/{a}")));
                                                if c50_derived(a, v0, v1, &deleted_by_apply) {
                                                    continue;
                                                }
                                                real.push(format!("{a}: {} -> {}", v0.map(|v| v.to_string()).unwrap_or_default(), v1.map(|v| v.to_string()).unwrap_or_default()));
                                            }
                                            if s0 != s1 {
                                                real.push(format!("state {s0:?} -> {s1:?}"));
                                            }
                                            if !real.is_empty() {
                                                out.violate("C50", "scope", &format!("changed={kind}; retain={retain_mode}; entries={retain_kind}"), format!("event {id}: apply by agreement {ag} ({me}) changed entry {u} ({kind}, owner before {o0:?}): {}", real.join("; ").chars().take(500).collect::<String>()), i);
                                            }
                                        }
                                        (Some((s0, _)), None) => {
                                            out.violate("C50", "scope", "changed=entry-vanished", format!("event {id}: entry {u} ({s0:?}) vanished during a sync apply"), i);
                                        }
                                        (None, None) => {}
                                    }
                                }
                            }
                        }
                        prev = now;
                        r.map(|_| "ok".to_string()).unwrap_or_else(|e| err_s(&e))
                    }
                }
            }
            "Yield" => {
                let ag = n_of(ev, "ag").min(1);
                let attrs: Vec<String> = ev["attrs"].as_array().map(|a| a.iter().filter_map(|x| x.as_str().map(String::from)).collect()).unwrap_or_default();
                let mut mods = vec![Modify::Purged(Attribute::SyncYieldAuthority)];
                for a in &attrs {
                    mods.push(Modify::Present(Attribute::SyncYieldAuthority, Value::new_iutf8(a)));
                }
                let r = srv.write(ct, |w| w.qs_write.internal_modify_uuid(c50_ag(ag), &ModifyList::new_list(mods)));
                if r.is_ok() {
                    out.probe("yield changed");
                }
                r.map(|_| "ok".to_string()).unwrap_or_else(|e| err_s(&e))
            }
            "UserMod" => {
                let u = u_of(ev, "u");
                let (attr, kind) = (s_of(ev, "attr").to_string(), s_of(ev, "kind").to_string());
                let batch = b_of(ev, "batch");
                tag = format!("UserMod:{attr}:{kind}");
                let val = ev["val"].clone();
                let r = srv.write(ct, |w| {
                    let ident = ident_of(w, operator)?;
                    let a = Attribute::from(attr.as_str());
                    let mods = match kind.as_str() {
                        "purge" => vec![Modify::Purged(a)],
                        "remove" => vec![Modify::Removed(a.clone(), w.qs_write.clone_partialvalue(&a, val.as_str().unwrap_or(""))?)],
                        "add" | "session" => vec![Modify::Present(a.clone(), typed_value(w, &attr, &kind, &val, ct)?)],
                        _ => vec![Modify::Purged(a.clone()), Modify::Present(a.clone(), typed_value(w, &attr, &kind, &val, ct)?)],
                    };
                    let ml = ModifyList::new_list(mods);
                    if batch {
                        let v = ml.validate(w.qs_write.get_schema()).map_err(OperationError::SchemaViolation)?;
                        let mut modset = BTreeMap::new();
                        modset.insert(u, v);
                        w.qs_write.batch_modify(&BatchModifyEvent { ident, modset })
                    } else {
                        user_modify(w, &ident, u, &ml)
                    }
                });
                let now = Snap50::take(srv)?;
                let owner = prev.owner.get(&u).copied().flatten();
                let was_live = prev.dump.entries.get(&u).map(|(s, _)| *s == EState::Live).unwrap_or(false);
                if let (Some(p), true) = (owner, was_live) {
                    let yielded = prev.yielded.get(&p).cloned().unwrap_or_default();
                    let allowed = |a: &str| yielded.contains(a) || C50_USER_ALWAYS.contains(&a);
                    match &r {
                        Ok(()) => {
                            out.probe("user modify of sync entry accepted");
                            if yielded.contains(&attr) {
                                out.probe("user modify accepted on yielded attribute");
                            }
                            if !allowed(&attr) {
                                out.violate("C50", "user-modify", &format!("attr={attr}; kind={kind}"), format!("event {id}: a user {kind} of attribute {attr} on synchronised entry {u} (agreement {p}) was accepted although the agreement yields only {yielded:?}"), i);
                            }
                            if let (Some((_, j0)), Some((_, j1))) = (prev.dump.entries.get(&u), now.dump.entries.get(&u)) {
                                for a in changed_attrs(j0, j1) {
                                    if !allowed(&a) && !C50_USER_DERIVED.contains(&a.as_str()) {
                                        out.violate("C50", "user-modify", &format!("changed-attr={a}; requested={attr}"), format!("event {id}: user modify of {attr} on synchronised entry {u} changed attribute {a}, outside the yielded set {yielded:?}"), i);
                                    }
                                }
                            }
                        }
                        Err(_) => out.probe("user modify of sync entry refused"),
                    }
                }
                prev = now;
                r.map(|_| "ok".to_string()).unwrap_or_else(|e| err_s(&e))
            }
            "UserDelete" => {
                let u = u_of(ev, "u");
                let r = srv.write(ct, |w| {
                    let ident = ident_of(w, operator)?;
                    let de = DeleteEvent::from_parts(ident, &filter!(f_eq(Attribute::Uuid, PartialValue::Uuid(u))), &mut w.qs_write)?;
                    w.qs_write.delete(&de)
                });
                let owner = prev.owner.get(&u).copied().flatten();
                let was_live = prev.dump.entries.get(&u).map(|(s, _)| *s == EState::Live).unwrap_or(false);
                if owner.is_some() && was_live {
                    match &r {
                        Ok(()) => out.violate("C50", "user-modify", "kind=delete", format!("event {id}: a user deleted synchronised entry {u} (agreement {owner:?})"), i),
                        Err(_) => out.probe("user delete of sync entry refused"),
                    }
                }
                r.map(|_| "ok".to_string()).unwrap_or_else(|e| err_s(&e))
            }
            "UserIntent" => {
                // credential reset on behalf of a synchronised person: intent token (always permitted
                // state), then -- in half of the events -- exchange, set a password and commit
                let u = u_of(ev, "u");
                let commit = b_of(ev, "commit");
                tag = format!("UserIntent:{}", if commit { "commit" } else { "token" });
                let mut intent = None;
                let r = srv.write(ct, |w| {
                    let ident = ident_of(w, operator)?;
                    w.init_credential_update_intent(&InitCredentialUpdateIntentEvent::new(ident, u, Some(Duration::from_secs(3600))), ct).map(|t| {
                        intent = Some(t);
                    })
                });
                let owner = prev.owner.get(&u).copied().flatten();
                if r.is_ok() && owner.is_some() {
                    out.probe("user intent token on sync entry accepted");
                }
                let mut res = r.map(|_| "ok".to_string()).unwrap_or_else(|e| err_s(&e));
                if let (true, Some(tok)) = (commit, intent) {
                    let mut cust = None;
                    let x = srv.write(ct, |w| {
                        w.exchange_intent_credential_update(tok.into(), ct).map(|(c, _)| {
                            cust = Some(c);
                        })
                    });
                    res = format!("{res}|x:{}", x.map(|_| "ok".to_string()).unwrap_or_else(|e| err_s(&e)));
                    if let Some(c) = cust {
                        let p = match block(srv.idm().idms.cred_update_transaction()) {
                            Ok(cutxn) => cutxn.credential_primary_set_password(&c, ct, "a-password-set-through-a-reset-7261").map(|_| ()),
                            Err(e) => Err(e),
                        };
                        let cm = srv.write(ct, |w| w.commit_credential_update(&c, ct));
                        res = format!("{res}|p:{}|c:{}", p.map(|_| "ok".to_string()).unwrap_or_else(|e| err_s(&e)), cm.as_ref().map(|_| "ok".to_string()).unwrap_or_else(|e| err_s(e)));
                        if cm.is_ok() {
                            out.probe("credential reset commit on sync entry accepted");
                        } else {
                            out.probe("credential reset commit on sync entry refused");
                        }
                    }
                }
                let now = Snap50::take(srv)?;
                if let (Some(p), Some((EState::Live, j0)), Some((_, j1))) = (owner, prev.dump.entries.get(&u), now.dump.entries.get(&u)) {
                    let yielded = prev.yielded.get(&p).cloned().unwrap_or_default();
                    for a in changed_attrs(j0, j1) {
                        if !yielded.contains(&a) && !C50_USER_ALWAYS.contains(&a.as_str()) && !C50_USER_DERIVED.contains(&a.as_str()) {
                            out.violate("C50", "user-modify", &format!("changed-attr={a}; requested=credential-reset"), format!("event {id}: a credential reset by a user on synchronised entry {u} (agreement {p}) changed attribute {a}, outside the yielded set {yielded:?} ({res})"), i);
                        }
                    }
                }
                prev = now;
                res
            }
            "NativeMember" => {
                let (g, m) = (u_of(ev, "g"), u_of(ev, "m"));
                let ml = if b_of(ev, "add") { ModifyList::new_append(Attribute::Member, Value::Refer(m)) } else { ModifyList::new_remove(Attribute::Member, PartialValue::Refer(m)) };
                srv.write(ct, |w| w.qs_write.internal_modify_uuid(g, &ml)).map(|_| "ok".to_string()).unwrap_or_else(|e| err_s(&e))
            }
            "NativeWrite" => {
                let u = u_of(ev, "u");
                srv.write(ct, |w| w.qs_write.internal_modify_uuid(u, &ModifyList::new_purge_and_set(Attribute::Description, Value::new_utf8s(s_of(ev, "v"))))).map(|_| "ok".to_string()).unwrap_or_else(|e| err_s(&e))
            }
            "Restart" => {
                srv.restart(ct)?;
                out.probe("restart");
                out.fault("restart");
                "ok".into()
            }
            "Advance" => {
                *t += n_of(ev, "secs");
                out.sim_secs += n_of(ev, "secs") as f64;
                "ok".into()
            }
            _ => "skip".into(),
        };
        srv.drain_delayed();
        out.events_run += 1;
        *t += 1;
        out.sim_secs += 1.0;
        trigram_push(out, &mut kinds, &tag);
        out.chain(fnv64(format!("{id}|{tag}|{res}").as_bytes()));
        if let Ok(v) = std::env::var("KVSIM_TRACE") {
            eprintln!("[{id}] {tag} -> {res}");
            if v == id.to_string() {
                eprintln!("    {ev}");
            }
        }
        if !matches!(op.as_str(), "Apply" | "UserMod" | "UserIntent" | "Advance") {
            prev = Snap50::take(srv)?;
        }
        // shared monitor with C20: nothing in the reserved range beyond the fresh install
        for u in prev.dump.entries.keys() {
            if reserved(*u) && !base_reserved.contains(u) && !out.violations.iter().any(|v| v.oracle == "reserved-range-create") {
                out.violate("C50", "reserved-range-create", &format!("id=reserved-range; after={tag}"), format!("event {id}: entry {u} exists in the reserved range that a fresh install does not have"), i);
            }
        }
        // state digest without volatile attributes (tokens, keys)
        let d = {
            let mut h = 0u64;
            for (u, (s, j)) in &prev.dump.entries {
                if base_reserved.contains(u) {
                    continue;
                }
                let names: Vec<&String> = attrs_of(j).map(|a| a.keys().collect()).unwrap_or_default();
                h = h.rotate_left(5) ^ fnv64(format!("{u}|{s:?}|{names:?}|{:?}", prev.owner.get(u)).as_bytes());
            }
            h
        };
        out.chain(stable_digest(&prev.dump));
        if std::env::var("KVSIM_TRACE").is_ok() {
            eprintln!("    dump {:016x}", stable_digest(&prev.dump));
            if i + 1 == plan.events.len() {
                for (u, (_, j)) in &prev.dump.entries {
                    if let Some(a) = attrs_of(j) {
                        for (k2, v) in a {
                            eprintln!("    E {u} {k2} {:016x}", fnv64(v.to_string().as_bytes()));
                        }
                    }
                }
            }
        }
        if seen_states.insert(d) {
            out.states.push(d);
        }
        dedupe(out);
        if out.violations.len() >= 12 {
            break;
        }
    }
    out.nontrivial = out.probes.get("apply ok").copied().unwrap_or(0) >= 1 && out.states.len() >= 3;
    Ok(())
}

impl Scenario for C50 {
    fn property(&self) -> &'static str {
        "C50"
    }
    fn engine(&self) -> &'static str {
        "E5 idm/sync"
    }
    fn budget(&self, tier: Tier) -> Budget {
        match tier {
            Tier::Quick => Budget { runs: 240, wall_cap_s: 150 },
            Tier::Thorough => Budget { runs: 20_000, wall_cap_s: 1500 },
        }
    }
    fn generate(&self, seed: u64, tier: Tier) -> Plan {
        c50_generate(seed, tier)
    }
    fn execute(&self, plan: &Plan) -> Outcome {
        c50_execute(plan)
    }
    fn rule(&self) -> String {
        "A run = one freshly installed server (in-memory or file-backed) with two synchronisation agreements (sync_account entries with signed sync tokens), three native persons, a native group, two recycled persons and an operator user holding a grant-everything access control profile; then 22–90 seeded events: SCIM sync requests (wire-format JSON, 0–5 entries) whose entry ids are drawn from {new, owned by the caller, owned by the other agreement, native, recycled, unallocated reserved-range uuid, existing built-in, duplicate within the request}, with allowed and disallowed classes/attributes, members referring to own/foreign/native/built-in/unknown ids, retention Ignore/Delete(uuids from all categories)/Retain(subset), from-state current/Refresh/stale cookie and to-state Active/Refresh; yield-authority edits; user modifications (plain and batch) of synchronised entries over 22 attribute/operation shapes incl. structural ones (sync_parent_uuid, class sync_object), user deletes, credential-reset intent tokens; native membership edits; restarts; clock advances. Every request is preceded by the connector's get-state call. After every apply / user modify the whole database is dumped and diffed against the dump before. distinct_nontrivial = distinct digests of (uuid, state, attribute-name set, owner) over non-built-in entries; a run counts if at least one apply succeeded and ≥3 distinct states were seen.".into()
    }
    fn components(&self) -> J {
        std_components()
    }
    fn assumptions(&self) -> Vec<String> {
        vec![
            "\"owned\" = the entry carries sync_parent_uuid == the calling agreement before the request (or is created by it)".into(),
            "book-keeping/derived attributes on the caller's own entries (class, sync_class, sync_external_id, sync_parent_uuid, uuid, spn, memberof, directmemberof, name_history, id_verification_eckey, recycled_directmemberof) are not counted as attribute changes; every other changed attribute must be marked sync_allowed in the live schema and not be yielded".into(),
            "on entries of others, kanidm-derived consequences of the caller's own permitted changes are not counted: memberof/directmemberof (reverse of the caller's group membership) and removal from member lists of uuids the same request deleted (referential integrity)".into(),
            "the yielded set is read from the agreement entry in the database before the request, not from the server's cache".into(),
            "from_state \"current\" is resolved at execution time by the connector's get-state call, exactly as the real sync tools do; all other request content is fixed in the plan".into(),
            "finalise / terminate of agreements and purge of the recycle bin are not exercised".into(),
            "sampled, not exhaustive".into(),
        ]
    }
}


// ================================================================================================
// C25 — Default roles cannot act on high-privilege accounts
// ================================================================================================

struct C25;

/// Membership graph (group → direct + dynamic members) and entry managers, read from the live
/// database; "is high privilege" is decided by the harness' own upward closure over it, never by
/// the server's memberof attribute.
struct Graph {
    members: BTreeMap<Uuid, BTreeSet<Uuid>>,
    mgr: BTreeMap<Uuid, BTreeSet<Uuid>>,
    live: BTreeSet<Uuid>,
}

impl Graph {
    fn take(srv: &Srv) -> Result<Graph, String> {
        let es = srv.read(|r| r.qs_read.internal_search(filter!(f_pres(Attribute::Class)))).map_err(|e| format!("{e:?}"))?.map_err(|e| format!("graph: {e:?}"))?;
        let mut g = Graph { members: BTreeMap::new(), mgr: BTreeMap::new(), live: BTreeSet::new() };
        for e in es {
            let u = e.get_uuid();
            g.live.insert(u);
            if e.attribute_equality(Attribute::Class, &EntryClass::Group.into()) {
                let mut m: BTreeSet<Uuid> = e.get_ava_refer(Attribute::Member).cloned().unwrap_or_default();
                if let Some(d) = e.get_ava_refer(Attribute::DynMember) {
                    m.extend(d.iter().copied());
                }
                g.members.insert(u, m);
            }
            if let Some(m) = e.get_ava_refer(Attribute::EntryManagedBy) {
                g.mgr.insert(u, m.clone());
            }
        }
        Ok(g)
    }
    fn from_fresh() -> Graph {
        let mut g = Graph { members: BTreeMap::new(), mgr: BTreeMap::new(), live: BTreeSet::new() };
        for (u, _, m) in &fresh().groups {
            g.members.insert(*u, m.iter().copied().collect());
        }
        g
    }
    /// every group x is (transitively) a member of
    fn up(&self, x: Uuid) -> BTreeSet<Uuid> {
        let mut seen = BTreeSet::new();
        let mut stack = vec![x];
        while let Some(c) = stack.pop() {
            for (g, ms) in &self.members {
                if ms.contains(&c) && seen.insert(*g) {
                    stack.push(*g);
                }
            }
        }
        seen
    }
    fn is_hp(&self, x: Uuid) -> bool {
        self.up(x).contains(&UUID_IDM_HIGH_PRIVILEGE)
    }
    /// the stipulation of the statement: x is not delegated to a non-high-privilege entry manager
    fn stipulation_ok(&self, x: Uuid) -> bool {
        match self.mgr.get(&x) {
            None => true,
            Some(ms) => ms.iter().all(|m| self.is_hp(*m)),
        }
    }
}

const C25_WHATS: [&str; 29] = [
    "name:set", "displayname:set", "legalname:set", "mail:set", "account_expire:set", "account_valid_from:set", "primary_credential:purge", "passkeys:purge", "user_auth_token_session:purge",
    "api_token_session:purge", "unix_password:purge", "radius_secret:purge", "ssh_publickey:purge", "member:add-self", "member:add-other", "member:remove", "member:purge",
    "entry_managed_by:set-self", "description:set", "class:add-posix", "gidnumber:set", "loginshell:set", "oauth2_session:purge",
    "idm:cred_intent", "idm:cred_update", "idm:session_destroy", "idm:unix_password", "idm:radius_regen", "idm:api_token_generate",
];

fn c25_generate(seed: u64, tier: Tier) -> Plan {
    let mut k = Rng::stream(seed, "c25");
    let fr = fresh();
    let file = k.chance(1, 2);
    let n = if tier == Tier::Quick { 30 + k.below(30) } else { 40 + k.below(80) } as usize;
    let mut g = Graph::from_fresh();
    let builtin_groups: Vec<Uuid> = fr.groups.iter().map(|x| x.0).collect();
    let hp_roles: Vec<Uuid> = builtin_groups.iter().copied().filter(|u| *u == UUID_IDM_HIGH_PRIVILEGE || g.is_hp(*u)).collect();
    let plain_roles: Vec<Uuid> = builtin_groups.iter().copied().filter(|u| !hp_roles.contains(u)).collect();
    let builtin_accounts: Vec<Uuid> = fr.builtins.iter().filter(|b| b.2.iter().any(|c| c == "account")).map(|b| b.0).collect();
    let mut actors: Vec<Uuid> = vec![];
    let mut track: Vec<(Uuid, &'static str)> = vec![]; // targets that may move in and out of high privilege
    let mut managed: Vec<(Uuid, &'static str, Uuid)> = vec![]; // non-HP targets delegated to an actor / manager group (uuid, kind, manager)
    let mut nest: Vec<Uuid> = vec![]; // custom groups used for nesting
    let mut mgrg: Vec<Uuid> = vec![]; // custom groups used as entry managers
    let mut ctr = 0u64;
    let mut evs: Vec<J> = vec![];
    let mut forced: Vec<u32> = vec![0, 0, 1, 1, 1, 2, 3, 3];
    forced.reverse();
    for i in 0..n {
        let id = (i + 1) as u64;
        let w = [5u32, 8, 4, 18, 60, if file { 5 } else { 0 }, 2, 2];
        let choice = forced.pop().map(|x| x as usize).unwrap_or_else(|| k.pick_weighted(&w));
        let ev = match choice {
            0 => {
                ctr += 1;
                let u = uuid_for(9, ctr);
                actors.push(u);
                // initial roles: a random subset (≤4, sometimes larger) of the built-in groups that are not high privilege
                let want = if k.chance(1, 6) { 5 + k.below((plain_roles.len() as u64).saturating_sub(4).max(1)) } else { k.below(5) } as usize;
                let mut roles = plain_roles.clone();
                k.shuffle(&mut roles);
                roles.truncate(want.min(roles.len()));
                for r in &roles {
                    g.members.entry(*r).or_default().insert(u);
                }
                json!({"id": id, "op": "Actor", "u": u, "name": format!("c25_a{ctr}"), "kind": if k.chance(4, 5) { "person" } else { "service_account" }, "roles": roles})
            }
            1 => {
                ctr += 1;
                let u = uuid_for(9, ctr);
                let kind = *k.pick(&["person", "person", "service_account", "group"]);
                let delegated = k.chance(1, 3) && !actors.is_empty() && kind != "person";
                let mgr: Option<Uuid> = if delegated {
                    Some(if !mgrg.is_empty() && k.chance(1, 2) { *k.pick(&mgrg) } else { *k.pick(&actors) })
                } else if k.chance(1, 3) {
                    Some(*k.pick(&hp_roles))
                } else {
                    None
                };
                if delegated {
                    managed.push((u, kind, mgr.unwrap_or(u)));
                } else {
                    track.push((u, kind));
                }
                if kind == "group" {
                    g.members.insert(u, BTreeSet::new());
                }
                json!({"id": id, "op": "Target", "u": u, "name": format!("c25_t{ctr}"), "kind": kind, "posix": k.chance(1, 2), "mgr": mgr, "sid": uuid_for(8, ctr), "member": actors.first()})
            }
            2 => {
                ctr += 1;
                let u = uuid_for(9, ctr);
                let as_mgr = k.chance(1, 2);
                let members: Vec<Uuid> = actors.iter().filter(|_| k.chance(1, 2)).copied().collect();
                g.members.insert(u, members.iter().copied().collect());
                if as_mgr {
                    mgrg.push(u);
                } else {
                    nest.push(u);
                }
                json!({"id": id, "op": "CGroup", "u": u, "name": format!("c25_g{ctr}"), "members": members})
            }
            3 => {
                // membership edit by the administrator
                let add = k.chance(2, 3);
                // member: actor, trackable target, or nesting group
                let m: Option<Uuid> = match k.below(10) {
                    0..=4 if !actors.is_empty() => Some(*k.pick(&actors)),
                    5..=7 if !track.is_empty() => Some(k.pick(&track).0),
                    _ if !nest.is_empty() => Some(*k.pick(&nest)),
                    _ => actors.first().copied(),
                };
                match m {
                    None => json!({"id": id, "op": "Advance", "secs": 5}),
                    Some(m) => {
                        let is_actor = actors.contains(&m);
                        let grp: Uuid = if !add {
                            // remove from a group it is in (model), else anything
                            let ins: Vec<Uuid> = g.members.iter().filter(|(_, ms)| ms.contains(&m)).map(|(gu, _)| *gu).collect();
                            // prefer taking away what makes it high privilege (history: was HP, is not any more)
                            let hp_ins: Vec<Uuid> = ins.iter().copied().filter(|gu| *gu == UUID_IDM_HIGH_PRIVILEGE || g.is_hp(*gu)).collect();
                            if !hp_ins.is_empty() && k.chance(3, 4) {
                                *k.pick(&hp_ins)
                            } else if ins.is_empty() {
                                *k.pick(&plain_roles)
                            } else {
                                *k.pick(&ins)
                            }
                        } else {
                            match (is_actor, k.below(10)) {
                                (true, 0) | (false, 0..=3) => UUID_IDM_HIGH_PRIVILEGE,
                                (true, 1..=2) | (false, 4..=7) => *k.pick(&hp_roles),
                                (true, 3..=5) | (false, 8..=9) if !nest.is_empty() && !nest.contains(&m) => *k.pick(&nest),
                                (true, _) => *k.pick(&plain_roles),
                                _ => *k.pick(&hp_roles),
                            }
                        };
                        if add {
                            g.members.entry(grp).or_default().insert(m);
                        } else if let Some(ms) = g.members.get_mut(&grp) {
                            ms.remove(&m);
                        }
                        json!({"id": id, "op": "Member", "g": grp, "m": m, "add": add})
                    }
                }
            }
            4 => {
                if actors.is_empty() {
                    json!({"id": id, "op": "Advance", "secs": 5})
                } else {
                    // prefer actors that the model says are not high privilege
                    let plain: Vec<Uuid> = actors.iter().copied().filter(|a| !g.is_hp(*a)).collect();
                    let actor = if !plain.is_empty() && k.chance(5, 6) { *k.pick(&plain) } else { *k.pick(&actors) };
                    let hp_track: Vec<(Uuid, &'static str)> = track.iter().copied().filter(|t| g.is_hp(t.0)).collect();
                    let mut actor = actor;
                    let (target, tk): (Uuid, &str) = match k.below(20) {
                        0..=9 if !hp_track.is_empty() => *k.pick(&hp_track),
                        10..=11 if !track.is_empty() => *k.pick(&track),
                        12..=13 if !managed.is_empty() => {
                            // control: the delegated manager (or a member of the manager group) acts on its non-HP target
                            let mt = *k.pick(&managed);
                            if actors.contains(&mt.2) {
                                actor = mt.2;
                            } else if let Some(a) = g.members.get(&mt.2).and_then(|ms| ms.iter().next().copied()) {
                                actor = a;
                            }
                            (mt.0, mt.1)
                        }
                        14..=15 => (*k.pick(&builtin_accounts), "builtin-account"),
                        16..=17 => (*k.pick(&hp_roles), "builtin-group"),
                        18 if !nest.is_empty() => (*k.pick(&nest), "group"),
                        _ => {
                            if !track.is_empty() { *k.pick(&track) } else { (*k.pick(&hp_roles), "builtin-group") }
                        }
                    };
                    let groupish = tk == "group" || tk == "builtin-group";
                    let what = loop {
                        let w = *k.pick(&C25_WHATS);
                        let grp_only = w.starts_with("member:");
                        let acct_only = !grp_only && !matches!(w, "name:set" | "description:set" | "entry_managed_by:set-self" | "class:add-posix" | "gidnumber:set" | "mail:set");
                        if (groupish && acct_only) || (!groupish && grp_only) || (w == "idm:api_token_generate" && tk != "service_account") {
                            continue;
                        }
                        break w;
                    };
                    let other = if !track.is_empty() { k.pick(&track).0 } else { actor };
                    json!({"id": id, "op": "Attempt", "actor": actor, "target": target, "tkind": tk, "what": what, "other": other, "n": k.below(10_000), "batch": k.chance(1, 6)})
                }
            }
            5 => json!({"id": id, "op": "Restart"}),
            6 => json!({"id": id, "op": "Advance", "secs": 1 + k.below(7200)}),
            _ => {
                // (re)delegate a managed target, or give a trackable one a high-privilege manager
                if !managed.is_empty() && !actors.is_empty() && k.chance(1, 2) {
                    {
                        let ix = k.below(managed.len() as u64) as usize;
                        let a = *k.pick(&actors);
                        managed[ix].2 = a;
                        json!({"id": id, "op": "SetMgr", "u": managed[ix].0, "mgr": a})
                    }
                } else if !track.is_empty() {
                    json!({"id": id, "op": "SetMgr", "u": k.pick(&track).0, "mgr": *k.pick(&hp_roles)})
                } else {
                    json!({"id": id, "op": "Advance", "secs": 5})
                }
            }
        };
        evs.push(ev);
    }
    Plan { property: "C25".into(), seed, cfg: json!({"file": file}), events: evs }
}

fn c25_execute(plan: &Plan) -> Outcome {
    let mut out = Outcome::default();
    for p in [
        "attempt: non-HP actor on HP target (checked)", "attempt refused (checked)", "attempt: actor is high privilege (not checked)", "attempt: target not high privilege", "attempt skipped: HP target delegated to non-HP manager (stipulation)",
        "control: non-HP actor changed a non-HP target it manages", "control: non-HP actor changed a non-HP target", "HP actor changed an HP target (informational)", "HP actor refused on an HP target (informational)",
        "checked target was HP through nesting", "checked actor had been high privilege earlier", "checked attempt after a restart", "checked target is a built-in", "access granted without change (checked)", "restart", "target populated",
    ] {
        out.probe0(p);
    }
    let file = b_of(&plan.cfg, "file");
    let mut t = BASE_EPOCH;
    entropy::swap_stream(Some(Rng::new(plan.seed ^ 0xC25)));
    let mut srv = match Srv::boot(file, "c25", Duration::from_secs(t)) {
        Ok(s) => s,
        Err(e) => {
            entropy::swap_stream(None);
            return Outcome { harness_error: Some(e), ..out };
        }
    };
    let res = c25_run(plan, &mut srv, &mut out, &mut t);
    drop(srv);
    entropy::swap_stream(None);
    if let Err(e) = res {
        out.harness_error = Some(e);
    }
    out
}

fn entry_json_of(srv: &Srv, u: Uuid) -> Option<(EState, J)> {
    srv.read(|r| r.qs_read.internal_search(filter_all!(f_eq(Attribute::Uuid, PartialValue::Uuid(u)))))
        .ok()
        .and_then(|r| r.ok())
        .and_then(|mut v| v.pop())
        .map(|e| (dump::entry_state(&e), dump::entry_json(&e)))
}

fn c25_attempt(srv: &Srv, ev: &J, ct: Duration, sessions: &BTreeMap<Uuid, Uuid>) -> Result<(), OperationError> {
    let (actor, target, other) = (u_of(ev, "actor"), u_of(ev, "target"), u_of(ev, "other"));
    let what = s_of(ev, "what");
    let n = n_of(ev, "n");
    let batch = b_of(ev, "batch");
    let mut cust = None;
    let r = srv.write(ct, |w| {
        let ident = ident_of(w, actor)?;
        let tv = |w: &mut IdmServerProxyWriteTransaction<'_>, a: Attribute, s: &str| w.qs_write.clone_value(&a, s);
        let mods: Vec<Modify> = match what {
            "name:set" => vec![Modify::Purged(Attribute::Name), Modify::Present(Attribute::Name, Value::new_iname(&format!("c25_ren{n}")))],
            "displayname:set" => vec![Modify::Purged(Attribute::DisplayName), Modify::Present(Attribute::DisplayName, Value::new_utf8s(&format!("Changed {n}")))],
            "legalname:set" => vec![Modify::Purged(Attribute::LegalName), Modify::Present(Attribute::LegalName, Value::new_utf8s(&format!("Legal {n}")))],
            "mail:set" => vec![Modify::Purged(Attribute::Mail), Modify::Present(Attribute::Mail, tv(w, Attribute::Mail, &format!("evil{n}@example.com"))?)],
            "account_expire:set" => vec![Modify::Purged(Attribute::AccountExpire), Modify::Present(Attribute::AccountExpire, tv(w, Attribute::AccountExpire, "2001-01-01T00:00:00+00:00")?)],
            "account_valid_from:set" => vec![Modify::Purged(Attribute::AccountValidFrom), Modify::Present(Attribute::AccountValidFrom, tv(w, Attribute::AccountValidFrom, "2099-01-01T00:00:00+00:00")?)],
            "primary_credential:purge" => vec![Modify::Purged(Attribute::PrimaryCredential)],
            "passkeys:purge" => vec![Modify::Purged(Attribute::PassKeys)],
            "user_auth_token_session:purge" => vec![Modify::Purged(Attribute::UserAuthTokenSession)],
            "api_token_session:purge" => vec![Modify::Purged(Attribute::ApiTokenSession)],
            "oauth2_session:purge" => vec![Modify::Purged(Attribute::OAuth2Session)],
            "unix_password:purge" => vec![Modify::Purged(Attribute::UnixPassword)],
            "radius_secret:purge" => vec![Modify::Purged(Attribute::RadiusSecret)],
            "ssh_publickey:purge" => vec![Modify::Purged(Attribute::SshPublicKey)],
            "member:add-self" => vec![Modify::Present(Attribute::Member, Value::Refer(actor))],
            "member:add-other" => vec![Modify::Present(Attribute::Member, Value::Refer(other))],
            "member:remove" => {
                let e = w.qs_write.internal_search_uuid(target)?;
                let m = e.get_ava_refer(Attribute::Member).and_then(|s| s.iter().next().copied()).unwrap_or(other);
                vec![Modify::Removed(Attribute::Member, PartialValue::Refer(m))]
            }
            "member:purge" => vec![Modify::Purged(Attribute::Member)],
            "entry_managed_by:set-self" => vec![Modify::Purged(Attribute::EntryManagedBy), Modify::Present(Attribute::EntryManagedBy, Value::Refer(actor))],
            "description:set" => vec![Modify::Purged(Attribute::Description), Modify::Present(Attribute::Description, Value::new_utf8s(&format!("changed {n}")))],
            "class:add-posix" => {
                let e = w.qs_write.internal_search_uuid(target)?;
                let c = if e.attribute_equality(Attribute::Class, &EntryClass::Group.into()) { EntryClass::PosixGroup } else { EntryClass::PosixAccount };
                vec![Modify::Present(Attribute::Class, c.to_value())]
            }
            "gidnumber:set" => vec![Modify::Purged(Attribute::GidNumber), Modify::Present(Attribute::GidNumber, Value::Uint32(90_000 + n as u32))],
            "loginshell:set" => vec![Modify::Purged(Attribute::LoginShell), Modify::Present(Attribute::LoginShell, Value::new_iutf8("/bin/evil"))],
            "idm:cred_intent" => return w.init_credential_update_intent(&InitCredentialUpdateIntentEvent::new(ident, target, Some(Duration::from_secs(3600))), ct).map(|_| ()),
            "idm:cred_update" => {
                return w.init_credential_update(&InitCredentialUpdateEvent::new(ident, target), ct).map(|(tok, _)| {
                    cust = Some(tok);
                })
            }
            "idm:session_destroy" => return w.account_destroy_session_token(&DestroySessionTokenEvent { ident, target, token_id: sessions.get(&target).copied().unwrap_or(Uuid::nil()) }),
            "idm:unix_password" => return w.set_unix_account_password(&UnixPasswordChangeEvent { ident, target, cleartext: format!("unix-pw-{n}-long-enough") }),
            "idm:radius_regen" => return w.regenerate_radius_secret(&RegenerateRadiusSecretEvent { ident, target }).map(|_| ()),
            "idm:api_token_generate" => return w.service_account_generate_api_token(&GenerateApiTokenEvent { ident, target, label: format!("tok{n}"), expiry: None, read_write: true, compact: false }, ct).map(|_| ()),
            _ => return Err(OperationError::InvalidState),
        };
        let ml = ModifyList::new_list(mods);
        if batch {
            let v = ml.validate(w.qs_write.get_schema()).map_err(OperationError::SchemaViolation)?;
            let mut modset = BTreeMap::new();
            modset.insert(target, v);
            w.qs_write.batch_modify(&BatchModifyEvent { ident, modset })
        } else {
            user_modify(w, &ident, target, &ml)
        }
    });
    // A credential-update session was granted: use it, so that the grant shows as a change.
    if let (Ok(()), Some(tok)) = (&r, cust) {
        if let Ok(cutxn) = block(srv.idm().idms.cred_update_transaction()) {
            let _ = cutxn.credential_primary_set_password(&tok, ct, "a-new-password-chosen-by-the-actor-9321");
            drop(cutxn);
            let _ = srv.write(ct, |w| w.commit_credential_update(&tok, ct));
        }
    }
    r
}

fn c25_run(plan: &Plan, srv: &mut Srv, out: &mut Outcome, t: &mut u64) -> Result<(), String> {
    let mut kinds = vec![];
    let mut seen_states = BTreeSet::new();
    let mut sessions: BTreeMap<Uuid, Uuid> = BTreeMap::new();
    let mut ever_hp: BTreeSet<Uuid> = BTreeSet::new();
    let mut restarted = false;
    let fr = fresh();
    for (i, ev) in plan.events.iter().enumerate() {
        let id = ev_id(ev, i);
        entropy::swap_stream(Some(Rng::new(plan.seed ^ id.wrapping_mul(K))));
        let ct = Duration::from_secs(*t);
        let op = s_of(ev, "op").to_string();
        let mut tag = op.clone();
        let res: String = match op.as_str() {
            "Actor" => {
                let u = u_of(ev, "u");
                let e = if s_of(ev, "kind") == "person" { person(u, s_of(ev, "name")) } else { service_account(u, s_of(ev, "name"), None) };
                let roles: Vec<Uuid> = ev["roles"].as_array().map(|a| a.iter().filter_map(|x| x.as_str().and_then(|s| Uuid::parse_str(s).ok())).collect()).unwrap_or_default();
                srv.write(ct, |w| {
                    w.qs_write.internal_create(vec![e])?;
                    for r in &roles {
                        w.qs_write.internal_modify_uuid(*r, &ModifyList::new_append(Attribute::Member, Value::Refer(u)))?;
                    }
                    Ok(())
                })
                .map(|_| format!("ok{}", roles.len()))
                .unwrap_or_else(|e| err_s(&e))
            }
            "Target" => {
                let u = u_of(ev, "u");
                let kind = s_of(ev, "kind").to_string();
                tag = format!("Target:{kind}");
                let name = s_of(ev, "name").to_string();
                let mgr = ev.get("mgr").and_then(|x| x.as_str()).and_then(|s| Uuid::parse_str(s).ok());
                let sid = u_of(ev, "sid");
                let posix = b_of(ev, "posix");
                let member = ev.get("member").and_then(|x| x.as_str()).and_then(|s| Uuid::parse_str(s).ok());
                let r = srv.write(ct, |w| {
                    let mut e = match kind.as_str() {
                        "person" => person(u, &name),
                        "service_account" => service_account(u, &name, None),
                        _ => group(u, &name, &member.into_iter().collect::<Vec<_>>(), None),
                    };
                    if let Some(m) = mgr {
                        e.add_ava(Attribute::EntryManagedBy, Value::Refer(m));
                    }
                    e.add_ava(Attribute::Description, Value::new_utf8s("original"));
                    if kind != "group" {
                        if let Some(v) = Value::new_email_address_primary_s(&format!("{name}@example.com")) {
                            e.add_ava(Attribute::Mail, v);
                        }
                        if kind == "person" {
                            e.add_ava(Attribute::LegalName, Value::new_utf8s("Original Legal"));
                        }
                        if posix {
                            e.add_ava(Attribute::Class, EntryClass::PosixAccount.to_value());
                        }
                    } else if posix {
                        e.add_ava(Attribute::Class, EntryClass::PosixGroup.to_value());
                    }
                    w.qs_write.internal_create(vec![e])
                });
                if r.is_ok() && kind != "group" {
                    // best-effort population with credentials, a session and secrets
                    let mut ok = 0;
                    if kind == "person" {
                        ok += srv.write(ct, |w| w.recover_account(&name, None).map(|_| ())).is_ok() as u32;
                    } else {
                        ok += srv.write(ct, |w| w.service_account_generate_api_token(&GenerateApiTokenEvent { ident: vh::identity_internal(), target: u, label: "orig".into(), expiry: None, read_write: false, compact: false }, ct).map(|_| ())).is_ok() as u32;
                    }
                    ok += srv
                        .write(ct, |w| {
                            let v = typed_value(w, "user_auth_token_session", "session", &json!(sid.to_string()), ct)?;
                            w.qs_write.internal_modify_uuid(u, &ModifyList::new_append(Attribute::UserAuthTokenSession, v))
                        })
                        .is_ok() as u32;
                    ok += srv
                        .write(ct, |w| {
                            let v = w.qs_write.clone_value(&Attribute::RadiusSecret, "original-radius-secret")?;
                            w.qs_write.internal_modify_uuid(u, &ModifyList::new_purge_and_set(Attribute::RadiusSecret, v))
                        })
                        .is_ok() as u32;
                    if posix {
                        ok += srv.write(ct, |w| w.set_unix_account_password(&UnixPasswordChangeEvent { ident: vh::identity_internal(), target: u, cleartext: "original-unix-password-4711".into() })).is_ok() as u32;
                    }
                    sessions.insert(u, sid);
                    if ok >= 3 {
                        out.probe("target populated");
                    }
                }
                r.map(|_| "ok".to_string()).unwrap_or_else(|e| err_s(&e))
            }
            "CGroup" => {
                let u = u_of(ev, "u");
                let members: Vec<Uuid> = ev["members"].as_array().map(|a| a.iter().filter_map(|x| x.as_str().and_then(|s| Uuid::parse_str(s).ok())).collect()).unwrap_or_default();
                srv.write(ct, |w| w.qs_write.internal_create(vec![group(u, s_of(ev, "name"), &members, None)])).map(|_| "ok".to_string()).unwrap_or_else(|e| err_s(&e))
            }
            "Member" => {
                let (g, m) = (u_of(ev, "g"), u_of(ev, "m"));
                let add = b_of(ev, "add");
                tag = format!("Member:{}", if add { "add" } else { "remove" });
                let ml = if add { ModifyList::new_append(Attribute::Member, Value::Refer(m)) } else { ModifyList::new_remove(Attribute::Member, PartialValue::Refer(m)) };
                srv.write(ct, |w| w.qs_write.internal_modify_uuid(g, &ml)).map(|_| "ok".to_string()).unwrap_or_else(|e| err_s(&e))
            }
            "SetMgr" => {
                let (u, m) = (u_of(ev, "u"), u_of(ev, "mgr"));
                srv.write(ct, |w| w.qs_write.internal_modify_uuid(u, &ModifyList::new_purge_and_set(Attribute::EntryManagedBy, Value::Refer(m)))).map(|_| "ok".to_string()).unwrap_or_else(|e| err_s(&e))
            }
            "Attempt" => {
                let (actor, target) = (u_of(ev, "actor"), u_of(ev, "target"));
                let what = s_of(ev, "what").to_string();
                let tkind = s_of(ev, "tkind").to_string();
                tag = format!("Attempt:{what}");
                let g = Graph::take(srv)?;
                if !g.live.contains(&actor) || !g.live.contains(&target) {
                    "absent".into()
                } else {
                    let actor_hp = g.is_hp(actor);
                    let target_up = g.up(target);
                    let target_hp = target_up.contains(&UUID_IDM_HIGH_PRIVILEGE);
                    let direct = g.members.get(&UUID_IDM_HIGH_PRIVILEGE).map(|m| m.contains(&target)).unwrap_or(false);
                    let stip = g.stipulation_ok(target);
                    let before = entry_json_of(srv, target);
                    let r = c25_attempt(srv, ev, ct, &sessions);
                    let after = entry_json_of(srv, target);
                    let changed = before != after;
                    let diff: Vec<String> = match (&before, &after) {
                        (Some((_, a)), Some((_, b))) => changed_attrs(a, b).into_iter().collect(),
                        _ => vec!["<entry appeared/vanished>".into()],
                    };
                    let managed_by_actor = g.mgr.get(&target).map(|ms| ms.iter().any(|m| *m == actor || g.up(actor).contains(m))).unwrap_or(false);
                    if actor_hp {
                        ever_hp.insert(actor);
                        out.probe("attempt: actor is high privilege (not checked)");
                        if target_hp && actor != target {
                            out.probe(if r.is_ok() && changed { "HP actor changed an HP target (informational)" } else { "HP actor refused on an HP target (informational)" });
                        }
                    } else if !target_hp {
                        out.probe("attempt: target not high privilege");
                        if r.is_ok() && changed && actor != target {
                            out.probe(if managed_by_actor { "control: non-HP actor changed a non-HP target it manages" } else { "control: non-HP actor changed a non-HP target" });
                        }
                    } else if !stip {
                        out.probe("attempt skipped: HP target delegated to non-HP manager (stipulation)");
                    } else if actor != target {
                        out.probe("attempt: non-HP actor on HP target (checked)");
                        if !direct {
                            out.probe("checked target was HP through nesting");
                        }
                        if ever_hp.contains(&actor) {
                            out.probe("checked actor had been high privilege earlier");
                        }
                        if restarted {
                            out.probe("checked attempt after a restart");
                        }
                        if reserved(target) {
                            out.probe("checked target is a built-in");
                        }
                        let roles: Vec<String> = g.up(actor).iter().map(|u| fr.groups.iter().find(|x| x.0 == *u).map(|x| x.1.clone()).unwrap_or_else(|| u.to_string())).collect();
                        if changed {
                            out.violate(
                                "C25",
                                "hp-target-changed",
                                &format!("what={what}; target={tkind}; result={}", if r.is_ok() { "ok" } else { "err" }),
                                format!("event {id}: actor {actor} (not in idm_high_privilege; member of {roles:?}) attempted {what} on high-privilege {tkind} {target} (member of idm_high_privilege {}; entry managers {:?}): result {:?}, attributes changed: {diff:?}", if direct { "directly" } else { "through nesting" }, g.mgr.get(&target), r.as_ref().map_err(err_s)),
                                i,
                            );
                        } else if r.is_ok() {
                            out.probe("access granted without change (checked)");
                        } else {
                            out.probe("attempt refused (checked)");
                        }
                    }
                    format!("{}|{}", r.map(|_| "ok".to_string()).unwrap_or_else(|e| err_s(&e)), diff.join(","))
                }
            }
            "Restart" => {
                srv.restart(ct)?;
                if srv.cfg.path.is_some() {
                    restarted = true;
                    out.probe("restart");
                    out.fault("restart");
                }
                "ok".into()
            }
            "Advance" => {
                *t += n_of(ev, "secs");
                out.sim_secs += n_of(ev, "secs") as f64;
                "ok".into()
            }
            _ => "skip".into(),
        };
        srv.drain_delayed();
        out.events_run += 1;
        *t += 1;
        out.sim_secs += 1.0;
        trigram_push(out, &mut kinds, &tag);
        out.chain(fnv64(format!("{id}|{tag}|{res}").as_bytes()));
        if let Ok(v) = std::env::var("KVSIM_TRACE") {
            eprintln!("[{id}] {tag} -> {res}");
            if v == id.to_string() {
                eprintln!("    {ev}");
            }
        }
        // state digest: membership graph + managers of harness entries + result class of the step
        if op != "Advance" {
            let g = Graph::take(srv)?;
            let mut h = fnv64(tag.as_bytes());
            for (gu, ms) in &g.members {
                let hm: Vec<&Uuid> = ms.iter().filter(|m| !reserved(**m)).collect();
                if !hm.is_empty() || !reserved(*gu) {
                    h = h.rotate_left(7) ^ fnv64(format!("{gu}{hm:?}{}", g.is_hp(*gu)).as_bytes());
                }
            }
            for (u, m) in &g.mgr {
                if !reserved(*u) {
                    h = h.rotate_left(3) ^ fnv64(format!("{u}{m:?}").as_bytes());
                }
            }
            out.chain(h);
            if seen_states.insert(h) {
                out.states.push(h);
            }
        }
        dedupe(out);
        if out.violations.len() >= 12 {
            break;
        }
    }
    out.nontrivial = out.probes.get("attempt: non-HP actor on HP target (checked)").copied().unwrap_or(0) >= 1 && out.states.len() >= 3;
    Ok(())
}

impl Scenario for C25 {
    fn property(&self) -> &'static str {
        "C25"
    }
    fn engine(&self) -> &'static str {
        "E5 idm/roles"
    }
    fn budget(&self, tier: Tier) -> Budget {
        match tier {
            Tier::Quick => Budget { runs: 320, wall_cap_s: 150 },
            Tier::Thorough => Budget { runs: 20_000, wall_cap_s: 1500 },
        }
    }
    fn generate(&self, seed: u64, tier: Tier) -> Plan {
        c25_generate(seed, tier)
    }
    fn execute(&self, plan: &Plan) -> Outcome {
        c25_execute(plan)
    }
    fn rule(&self) -> String {
        "A run = one freshly installed server with the shipped access controls untouched (in-memory, or file-backed with restarts), then 30–120 seeded events: acting persons/service accounts created and put into a random subset (≤4, one run in six larger) of the built-in groups that are not (transitively) members of idm_high_privilege (computed from a fresh install); targets (persons with password, session, radius secret, unix password; service accounts with API token; groups) without a manager, managed by a high-privilege built-in group, or (non-HP controls) delegated to an actor / manager group; custom nesting groups; administrator membership edits that move actors, targets and nesting groups into and out of idm_high_privilege directly, through built-in high-privilege groups or through nesting; manager changes; restarts; and attempts by an actor (Identity::from_impersonate_entry_readwrite of its current entry) on harness targets, built-in high-privilege accounts and built-in high-privilege groups over 30 shapes: set/purge of name, displayname, legalname, mail, account_expire, account_valid_from, primary_credential, passkeys, user_auth_token_session, api_token_session, oauth2_session, unix_password, radius_secret, ssh_publickey, member (add self/other, remove, purge), entry_managed_by (to self), description, class posix*, gidnumber, loginshell (plain and batch modify), and the IDM entry points credential-update intent, credential-update session (followed by set-password + commit when granted), session destroy, unix password set, radius secret regenerate, API token generate. High-privilege status of actor and target, and the entry-manager stipulation, are decided at attempt time by the harness' own closure over member/dynmember read from the database (never from memberof). distinct_nontrivial = distinct digests of (membership graph over harness entries with HP flags, managers, step kind); a run counts if ≥1 checked attempt (non-HP actor, HP target, stipulation holds) ran and ≥3 distinct states were seen.".into()
    }
    fn components(&self) -> J {
        std_components()
    }
    fn assumptions(&self) -> Vec<String> {
        vec![
            "the acting identity is built from the actor's current entry (group memberships as the memberof plugin maintains them), as the front end does for an authenticated session".into(),
            "\"change\" = the stored entry of the target differs after the attempt; an attempt that returns Ok without changing anything is counted as a probe".into(),
            "with the shipped groups every administrative role group is itself a member of idm_high_privilege, so an actor outside it can only hold the non-administrative built-in groups; attempts by high-privilege role holders on high-privilege targets are outside the statement and only counted (informational probes)".into(),
            "attempts where the high-privilege target is delegated (entry_managed_by) to a principal that is not high privilege are excluded, as the statement stipulates".into(),
            "sampled, not exhaustive".into(),
        ]
    }
}

pub fn scenarios() -> Vec<Box<dyn Scenario>> {
    vec![Box::new(C20), Box::new(C25), Box::new(C50)]
}
