#!/bin/bash
# C44 "Offline login accepts only the last password verified online" — deterministic simulation of
# kanidm's unix resolver (real Resolver + KanidmProvider + Db + soft TPM + argon2id/HMAC cached
# credentials) against a scripted identity server, several machines with different machine keys,
# and cached credentials / sealed keys moved between them (engine: /verif/sim-resolver).
#
#   C44.sh quick | thorough      build, run the batch, write /verif/evidence/C44.json
#   C44.sh replay <file>         re-execute a recorded script; exit 1 if the violation reproduces
#   C44.sh selfcheck [n]         harness self test + determinism proof over n runs (default 96)
#
# Exit codes: 0 held, 1 violation (one `VIOLATION property=C44 replay=<path>` line), 2 harness error.
# Environment: VERIF_SEED (default 1), KANIDM_SRC (default /repo; anything else needs C44_WS, see
# /verif/sim-resolver/build.sh), C44_WORKERS (default: all cores), C44_N, C44_WALL_CAP_S.
set -u
export CARGO_NET_OFFLINE=true RUSTUP_TOOLCHAIN=1.96.0 CARGO_TERM_COLOR=never
export C44_SCRATCH="/dev/shm/c44-$$"
mkdir -p "$C44_SCRATCH" || { echo "HARNESS-ERROR cannot create $C44_SCRATCH"; exit 2; }
trap 'rm -rf "$C44_SCRATCH"' EXIT
python3 /verif/sim-resolver/tools/driver.py "$@"
rc=$?
case $rc in 0|1|2) exit $rc;; *) echo "HARNESS-ERROR driver exited with $rc"; exit 2;; esac
