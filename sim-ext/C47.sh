#!/usr/bin/env bash
# C47 "Stopping a supervisor stops everything under it" -- deterministic simulation of the real
# libs/actors/src/lib.rs (shadow-built against the simtokio facade; engine in /verif/sim-actors).
#   C47.sh quick | thorough | replay <file> | selfcheck
# exit 0 = property held, 1 = violation (one line VIOLATION property=C47 replay=<file>),
# 2 = harness error (HARNESS-ERROR ...).
# Env: VERIF_SEED (default 1). For sensitivity experiments only: KANIDM_ACTORS_SRC (default
# /repo/libs/actors/src/lib.rs) points the shadow build at a scratch copy, C47_EVIDENCE / C47_REPLAYS
# redirect the outputs (defaults /verif/evidence/C47.json, /verif/replays/C47), C47_RUNS overrides
# the batch size, C47_DYNAMIC_PCT=0 / C47_ORPHANS=0 switch generator features off.
set -u
export CARGO_NET_OFFLINE=true RUSTUP_TOOLCHAIN=1.96.0
export VERIF_SEED="${VERIF_SEED:-1}"
ENGINE=/verif/sim-actors
SCRATCH="/dev/shm/c47-$$"
mkdir -p "$SCRATCH"
trap 'rm -rf "$SCRATCH"' EXIT

build() {
  BIN="$("$ENGINE/build.sh" 2>"$SCRATCH/build.log")" || {
    echo "HARNESS-ERROR property=C47 build failed: $(grep -m3 -E '^error|build.sh:' "$SCRATCH/build.log" | tr '\n' ' ')"
    exit 2
  }
  [ -x "$BIN" ] || { echo "HARNESS-ERROR property=C47 no binary after build"; exit 2; }
}

cmd="${1:-quick}"
case "$cmd" in
  quick|thorough)
    build
    EV="${C47_EVIDENCE:-/verif/evidence/C47.json}"
    RP="${C47_REPLAYS:-/verif/replays/C47}"
    mkdir -p "$(dirname "$EV")" "$RP"
    if [ -n "${C47_RUNS:-}" ]; then
      "$BIN" batch --tier "$cmd" --evidence "$EV" --replays "$RP" --runs "$C47_RUNS"
    else
      "$BIN" batch --tier "$cmd" --evidence "$EV" --replays "$RP"
    fi
    exit $?
    ;;
  replay)
    [ $# -ge 2 ] && [ -f "$2" ] || { echo "HARNESS-ERROR property=C47 usage: C47.sh replay <file>"; exit 2; }
    build
    "$BIN" replay "$2"
    exit $?
    ;;
  selfcheck)
    # determinism: per-run trace digests of 96 seeds, in separate processes, with 1, 5 and 16
    # workers, plus a second 16-worker process; all four listings must be identical.
    build
    N="${C47_SELFCHECK_RUNS:-96}"
    "$BIN" digests --runs "$N" --workers 1  > "$SCRATCH/d1"  || { echo "HARNESS-ERROR property=C47 selfcheck run failed"; exit 2; }
    "$BIN" digests --runs "$N" --workers 5  > "$SCRATCH/d5"  || { echo "HARNESS-ERROR property=C47 selfcheck run failed"; exit 2; }
    "$BIN" digests --runs "$N" --workers 16 > "$SCRATCH/d16" || { echo "HARNESS-ERROR property=C47 selfcheck run failed"; exit 2; }
    "$BIN" digests --runs "$N" --workers 16 > "$SCRATCH/d16b" || { echo "HARNESS-ERROR property=C47 selfcheck run failed"; exit 2; }
    if grep -q HARNESS-ERROR "$SCRATCH/d1"; then
      echo "HARNESS-ERROR property=C47 selfcheck: $(grep -m1 HARNESS-ERROR "$SCRATCH/d1")"; exit 2
    fi
    lines="$(wc -l < "$SCRATCH/d1")"
    if [ "$lines" -ne "$N" ]; then echo "HARNESS-ERROR property=C47 selfcheck: expected $N digests, got $lines"; exit 2; fi
    for f in d5 d16 d16b; do
      if ! cmp -s "$SCRATCH/d1" "$SCRATCH/$f"; then
        echo "HARNESS-ERROR property=C47 selfcheck: digests differ between worker counts / processes ($f): $(diff "$SCRATCH/d1" "$SCRATCH/$f" | head -3 | tr '\n' ' ')"
        exit 2
      fi
    done
    distinct="$(awk '{print $3}' "$SCRATCH/d1" | sort -u | wc -l)"
    echo "C47 selfcheck: $N runs x 4 processes (1, 5, 16, 16 workers): per-run trace digests identical; $distinct distinct digests; listing sha256 $(sha256sum < "$SCRATCH/d1" | cut -c1-16)"
    exit 0
    ;;
  *)
    echo "HARNESS-ERROR property=C47 usage: C47.sh quick|thorough|replay <file>|selfcheck"
    exit 2
    ;;
esac
