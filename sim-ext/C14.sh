#!/bin/bash
# C14 "Replication wire framing survives any fragmentation"
#   C14.sh quick | thorough      run the batch, write /verif/evidence/C14.json; exit 0 held / 1 violation / 2 harness error
#   C14.sh replay <file>         re-execute a recorded run; exit 1 if the violation reproduces, else 0
#   C14.sh selfcheck [n]         determinism: per-run trace digests in separate processes and with
#                                different worker counts must be identical; batch digests likewise
# Env: VERIF_SEED (default 1); KANIDM_SRC (default /repo; sensitivity runs only: tree holding
#      server/core/src/repl/codec.rs); C14_RUNS, C14_WORKERS, C14_WALL_CAP_S, C14_EVIDENCE, C14_REPLAY_DIR.
set -u
export CARGO_NET_OFFLINE=true RUSTUP_TOOLCHAIN=1.96.0 CARGO_TERM_COLOR=never
BIN=/verif/target-codec/debug/c14codec
cmd="${1:-quick}"
build() { /verif/sim-codec/build.sh || exit 2; [ -x "$BIN" ] || { echo "HARNESS-ERROR $BIN missing after build"; exit 2; }; }
case "$cmd" in
  quick|thorough)
    build
    mkdir -p /verif/evidence /verif/replays/C14
    "$BIN" check "$cmd"
    exit $?
    ;;
  replay)
    f="${2:-}"
    [ -n "$f" ] && [ -f "$f" ] || { echo "HARNESS-ERROR replay needs an existing file"; exit 2; }
    build
    "$BIN" replay "$f"
    exit $?
    ;;
  selfcheck)
    build
    n="${2:-256}"
    S=/dev/shm/c14-selfcheck-$$
    mkdir -p "$S"; trap 'rm -rf "$S"' EXIT
    "$BIN" digests "$n" 1  > "$S/a" || { echo "HARNESS-ERROR digests run failed"; exit 2; }
    "$BIN" digests "$n" 16 > "$S/b" || { echo "HARNESS-ERROR digests run failed"; exit 2; }
    "$BIN" digests "$n" 5  > "$S/c" || { echo "HARNESS-ERROR digests run failed"; exit 2; }
    lines=$(wc -l < "$S/a")
    if ! cmp -s "$S/a" "$S/b" || ! cmp -s "$S/a" "$S/c"; then
      echo "HARNESS-ERROR selfcheck: per-run trace digests differ between processes / worker counts"
      diff "$S/a" "$S/b" | head -5; diff "$S/a" "$S/c" | head -5
      exit 2
    fi
    # whole-batch digest (order independent sum/xor of per-run digests) with 16, 3 and 1 workers
    for w in 16 3 1; do
      C14_RUNS=60000 C14_WORKERS=$w C14_EVIDENCE="$S/ev$w.json" C14_REPLAY_DIR="$S/replays" "$BIN" check quick > "$S/out$w" 2>&1
      rc=$?
      [ $rc -le 1 ] || { echo "HARNESS-ERROR selfcheck batch run failed"; cat "$S/out$w"; exit 2; }
      python3 -c "import json,sys; e=json.load(open(sys.argv[1])); c=e['coverage']; print(c['batch_digest'], c['evaluations'], c['distinct_nontrivial'], c['distinct_schedules_or_states'], e['violations'])" "$S/ev$w.json" > "$S/bd$w"
    done
    if ! cmp -s "$S/bd16" "$S/bd3" || ! cmp -s "$S/bd16" "$S/bd1"; then
      echo "HARNESS-ERROR selfcheck: batch digests differ between worker counts"; cat "$S/bd16" "$S/bd3" "$S/bd1"; exit 2
    fi
    echo "C14 selfcheck ok: $lines per-run trace digests identical across 3 processes (1/16/5 workers); batch digest $(cut -d' ' -f1 "$S/bd16") identical with 16/3/1 workers over $(cut -d' ' -f2 "$S/bd16") runs"
    exit 0
    ;;
  *)
    echo "usage: C14.sh quick | thorough | replay <file> | selfcheck [n]"; exit 2;;
esac
