#!/bin/bash
# C43 "PAM fails closed" — deterministic simulation of kanidm's PAM module core against a
# scripted resolver daemon and scripted local passwd/shadow databases (engine: /verif/sim-pam).
#
#   C43.sh quick | thorough      build, run the batch, write /verif/evidence/C43.json
#   C43.sh replay <file>         re-execute a recorded script; exit 1 if the violation reproduces
#   C43.sh selfcheck [n]         harness self test + determinism proof over n runs (default 2048)
#
# Exit codes: 0 held, 1 violation (one `VIOLATION property=C43 replay=<path>` line), 2 harness error.
# Environment: VERIF_SEED (default 1), KANIDM_SRC (default /repo; anything else needs C43_WS, see
# /verif/sim-pam/build.sh), C43_WORKERS (default: all cores), C43_N, C43_WALL_CAP_S.
set -u
export CARGO_NET_OFFLINE=true RUSTUP_TOOLCHAIN=1.96.0 CARGO_TERM_COLOR=never
export C43_SCRATCH="/dev/shm/c43-$$"
mkdir -p "$C43_SCRATCH" || { echo "HARNESS-ERROR cannot create $C43_SCRATCH"; exit 2; }
trap 'rm -rf "$C43_SCRATCH"' EXIT
python3 /verif/sim-pam/tools/driver.py "$@"
rc=$?
case $rc in 0|1|2) exit $rc;; *) echo "HARNESS-ERROR driver exited with $rc"; exit 2;; esac
